"""Contracts for bundle time stamping (C07): sc3/base/_oscinterface.py and the
SystemClock OSC time conversions in sc3/base/clock.py."""
import z3
from vf.pyvc.spec import contract
from vf.pyvc.values import *
from ._common import MAIN_FIELDS, TT_FIELDS

CF = 'sc3/base/clock.py'
OF = 'sc3/base/_oscinterface.py'
L = '@lemmas/osc_time_lemmas.py'
TWO32 = 2 ** 32

SC = {'_elapsed_osc_offset': 'int'}
FIELDS = {'SystemClock': SC, 'Main': dict(MAIN_FIELDS, main_tt='aref:TimeThread',
                                          current_tt='aref:TimeThread'),
          'TimeThread': TT_FIELDS}
CM = {'SystemClock': CF}


def off(c):
    return c.pre.cls('SystemClock')._elapsed_osc_offset


def trunc(x):
    return z3.If(x >= 0, z3.ToInt(x), -z3.ToInt(-x))


contract(CF, 'SystemClock.elapsed_time_to_osc', props=('C07',),
         params={'cls': 'cls', 'elapsed': 'num'},
         returns='int',
         ensures=[('timetag-of-elapsed', lambda c: c.result == trunc(
             (z3.ToReal(c.elapsed) if z3.is_int(c.elapsed) else c.elapsed) * TWO32) + off(c))],
         modifies=[], fields=FIELDS, class_modules=CM)

contract(CF, 'SystemClock.osc_to_elapsed_time', props=('C07',),
         params={'cls': 'cls', 'osctime': 'int'},
         returns='real',
         ensures=[('elapsed-of-timetag', lambda c: c.result * TWO32 == z3.ToReal(c.osctime - off(c)))],
         modifies=[], fields=FIELDS, class_modules=CM)

INL = ('SystemClock.elapsed_time_to_osc', 'SystemClock.osc_to_elapsed_time')
contract(L, 'osc_time_monotone', props=('C07',),
         params={'x': 'real', 'y': 'real'}, requires=lambda c: c.x <= c.y,
         ensures=[('monotone', lambda c: c.result)], fields=FIELDS, class_modules=CM, inline=INL)
contract(L, 'osc_time_roundtrip_error', props=('C07',),
         params={'x': 'real'}, requires=lambda c: c.x >= 0,
         ensures=[('within-timetag-resolution', lambda c: z3.And(c.result >= 0, c.result * TWO32 < 1))],
         fields=FIELDS, class_modules=CM, inline=INL)
contract(L, 'elapsed_roundtrip_exact', props=('C07',),
         params={'t': 'int'},
         ensures=[('exact', lambda c: c.result)], fields=FIELDS, class_modules=CM, inline=INL)


# ---- real-time stamping ------------------------------------------------------------
def rt_timetag(c):
    if c.kinds['time'] == 'none':
        return c.result == 1
    t = z3.ToReal(c.time) if z3.is_int(c.time) else c.time
    return c.result == z3.If(t < 0, 1, trunc((t + c.send_time) * TWO32) + off(c))


contract(OF, 'OscInterface._get_timetag', props=('C07',),
         params={'send_time': 'real', 'time': ['none', 'int', 'real']},
         returns='int',
         ensures=[('logical-time-plus-latency-or-immediately', rt_timetag)],
         modifies=[], fields=FIELDS, class_modules=CM,
         note='IMMEDIATELY is the OSC timetag 1; send_time is the logical time read once by the caller')


def subtime_refused(c):
    if c.kinds['time'] == 'none':
        return z3.BoolVal(False)
    if c.kinds['subtime'] == 'none':
        return z3.BoolVal(True)
    return c.time > c.subtime


contract(OF, 'OscInterface._check_subtime', props=('C07',),
         params={'time': ['none', 'int', 'real'], 'subtime': ['none', 'int', 'real']},
         raises={'ValueError': subtime_refused},
         ensures=[], modifies=[], fields=FIELDS, class_modules=CM,
         note='a nested bundle may not precede its parent; None under a timed parent is refused')


# ---- non-real-time stamping ------------------------------------------------------
def nrt_timetag(c):
    in_routine = z3.Const('main.current_tt#id', Any) != z3.Const('main.main_tt#id', Any)
    if c.kinds['time'] == 'none':
        t = z3.RealVal(0)
    else:
        t0 = z3.ToReal(c.time) if z3.is_int(c.time) else c.time
        t = z3.If(t0 < 0, 0, t0)
    return c.result == trunc(z3.If(in_routine, t + c.send_time, t) * TWO32)


contract(OF, 'OscNrtInterface._get_timetag', props=('C07',),
         params={'send_time': 'real', 'time': ['none', 'int', 'real']},
         requires=lambda c: c.send_time >= 0,
         returns='int',
         ensures=[('relative-in-routines-absolute-outside', nrt_timetag)],
         modifies=[], fields=FIELDS, class_modules=CM)


# the score's own copy of the NRT stamping rule (the source says the two must stay in sync)
def score_time(c):
    in_routine = z3.Const('main.current_tt#id', Any) != z3.Const('main.main_tt#id', Any)
    if c.kinds['time'] == 'none':
        t = z3.RealVal(0)
    else:
        t0 = z3.ToReal(c.time) if z3.is_int(c.time) else c.time
        t = z3.If(t0 < 0, 0, t0)
    return c.result == z3.If(in_routine, t + c.send_time, t)


contract(OF, 'OscScore._get_logical_time', props=('C07', 'C10'),
         params={'self': 'self', 'send_time': 'real', 'time': ['none', 'int', 'real']},
         requires=lambda c: c.send_time >= 0,
         returns='real',
         ensures=[('same-rule-as-the-nrt-timetag', score_time)],
         modifies=[], fields=FIELDS, class_modules=dict(CM, OscScore=OF))
