"""Reference state machine of a routine (C11), executable.

Written from the property statement and the state table in DESIGN section
"C11", not from sc3's code.  A routine body is described by a small *script*
(JSON-able) that both this model and the driver's real generator functions
interpret:

  body = {'gen': bool,          generator function (True) or plain function
          'inval': bool,        the function takes the first sent value
          'steps': [step...]}   executed in order; the end of the list is a
                                ``return``

  step =  ['yield', value]      yield a constant
          ['echo']              yield the value sent by the current next(v)
          ['raise', 'ValueError']         an ordinary failure
          ['yreset', x]         raise YieldAndReset(x)
          ['always', x]         raise AlwaysYield(x)
          ['stopstream']        raise StopStream inside the body
          ['return']
          ['self', m]           m in stop/pause/reset called on the routine
                                itself, the body catches RoutineException and
                                yields 'refused', or yields 'accepted'
          ['self!', m]          the same, not caught by the body
          ['selfnext']          the body calls its own next(); it catches
                                whatever happens and yields a description
          ['selfnext!']         the same, not caught
          ['nested', body, n]   build a new routine from ``body``, call its
                                next() n times, yield the list of outcomes and
                                whether the current thread was this routine
                                after every inner call
          ['nested-outer', n]   build an inner routine whose body calls the
                                *outer* routine's next() (which is running),
                                catches what happens and yields; yields like
                                'nested'

The result of an operation is a list of acceptable *alternatives*, each
``('return', value)`` or ``('raise', class name)``; ``ANY`` as a value or class
name accepts everything (used exactly where the statement leaves the result
open).  The successor state is always determined.

States: Init, Suspended, Running, Paused, Done  (Running is only observable
from inside the body; from inside, stop/pause/reset are refused).
"""

ANY = '<any>'

INIT, SUSPENDED, RUNNING, PAUSED, DONE = (
    'Init', 'Suspended', 'Running', 'Paused', 'Done')

# exceptions the model "raises" are just names
STOP = 'StopStream'
PAUSEDX = 'PausedStream'
REFUSED = 'RoutineException'


class RoutineSM:
    def __init__(self, body):
        self.body = body
        self.state = INIT
        self.pos = None          # index of the next step; None: no iterator
        self.terminal = None     # None | ['strict', x] | ['open', x]

    # -- helpers -----------------------------------------------------------
    def signature(self):
        t = None if self.terminal is None else self.terminal[0]
        return (self.state, self.pos, t)

    def _done(self):
        self.state = DONE
        self.pos = None

    def _weaken_terminal(self):
        # a value recorded by AlwaysYield survives stop()/reset() or not: the
        # statement allows "StopStream or the recorded terminal value"
        if self.terminal is not None:
            self.terminal = ['open', self.terminal[1]]

    # -- operations applied from outside ------------------------------------
    def next(self, v=None):
        """-> list of acceptable alternatives"""
        if self.state == PAUSED:
            return [('raise', PAUSEDX)]
        if self.state == DONE:
            if self.terminal is None:
                return [('raise', STOP)]
            if self.terminal[0] == 'strict':
                return [('return', self.terminal[1])]
            return [('return', self.terminal[1]), ('raise', STOP)]
        if self.state == RUNNING:
            # only reachable from inside; the statement does not say what a
            # re-entrant next() does (refusal is the natural answer)
            return [('raise', ANY), ('return', ANY)]
        return self._run(v)

    def _run(self, v):
        body = self.body
        steps = body['steps']
        if self.pos is None:
            self.pos = 0
            if not body['inval']:
                v = None        # the function takes no argument
        self.state = RUNNING
        if not body['gen']:
            return self._run_plain(steps)
        i = self.pos
        while True:
            if i >= len(steps):
                self._done()
                return [('raise', STOP)]
            st = steps[i]
            k = st[0]
            i += 1
            if k == 'yield':
                return self._yield(i, st[1])
            if k == 'echo':
                return self._yield(i, v)
            if k == 'raise':
                self._done()
                return [('raise', st[1])]
            if k == 'yreset':
                self.state = INIT
                self.pos = None
                return [('return', st[1])]
            if k == 'always':
                self._done()
                self.terminal = ['strict', st[1]]
                return [('return', st[1])]
            if k == 'stopstream':
                # PEP 479: a StopIteration subclass escaping a generator
                # arrives as RuntimeError; either way the routine is done
                self._done()
                return [('raise', STOP), ('raise', 'RuntimeError')]
            if k == 'return':
                self._done()
                return [('raise', STOP)]
            if k == 'self':
                # refused, nothing changes, the body goes on and yields
                return self._yield(i, 'refused')
            if k == 'self!':
                self._done()
                return [('raise', REFUSED)]
            if k == 'selfnext':
                return self._yield(i, ANY)
            if k == 'selfnext!':
                # refusal (or whatever the inner call raised) escapes: failure
                self._done()
                return [('raise', ANY)]
            if k == 'nested':
                inner = RoutineSM(st[1])
                outs = [inner.next(None) for _ in range(st[2])]
                return self._yield(i, {'outcomes': outs, 'frame': True})
            if k == 'nested-outer':
                # the inner routine yields a description of what the outer
                # next() did (open), then ends
                outs = []
                for n in range(st[1]):
                    outs.append([('return', ANY)] if n == 0
                                else [('raise', STOP)])
                return self._yield(i, {'outcomes': outs, 'frame': True})
            raise ValueError('unknown step %r' % (st,))

    def _yield(self, i, value):
        self.pos = i
        self.state = SUSPENDED
        return [('return', value)]

    def _run_plain(self, steps):
        # a plain function is run once; DESIGN: "behaves as AlwaysYield(None)";
        # the statement itself would also allow plain exhaustion (StopStream)
        for st in steps:
            k = st[0]
            if k == 'raise':
                self._done()
                return [('raise', st[1])]
            if k == 'stopstream':
                self._done()
                return [('raise', STOP)]
            if k == 'yreset':
                self.state = INIT
                self.pos = None
                return [('return', st[1])]
            if k == 'always':
                self._done()
                self.terminal = ['strict', st[1]]
                return [('return', st[1])]
            if k == 'self!':
                self._done()
                return [('raise', REFUSED)]
            if k == 'self':
                continue        # refused and caught: goes on
            if k == 'return':
                break
            raise ValueError('step %r not allowed in a plain body' % (st,))
        self._done()
        self.terminal = ['open', None]
        return [('return', None), ('raise', STOP)]

    def play(self):
        if self.state in (INIT, PAUSED):
            self.state = SUSPENDED
        return [('return', None)]

    def pause(self):
        if self.state == RUNNING:
            return [('raise', REFUSED)]
        if self.state in (INIT, SUSPENDED):
            self.state = PAUSED
        return [('return', None)]

    def resume(self):
        if self.state == PAUSED:
            self.state = SUSPENDED
        return [('return', None)]

    def stop(self):
        if self.state == RUNNING:
            return [('raise', REFUSED)]
        self._done()
        self._weaken_terminal()
        return [('return', None)]

    def reset(self):
        if self.state == RUNNING:
            return [('raise', REFUSED)]
        self.state = INIT
        self.pos = None
        self._weaken_terminal()
        return [('return', None)]


def matches(got, alternatives):
    """got = ('return', value) | ('raise', class name)"""
    return any(_match1(got, a) for a in alternatives)


def _match1(got, alt):
    if got[0] != alt[0]:
        return False
    return match_value(got[1], alt[1])


def match_value(g, e):
    if isinstance(e, str) and e == ANY:
        return True
    if isinstance(e, dict) and 'outcomes' in e:
        if not (isinstance(g, dict) and 'outcomes' in g):
            return False
        if g.get('frame') != e.get('frame'):
            return False
        go, eo = g['outcomes'], e['outcomes']
        return (len(go) == len(eo)
                and all(matches(tuple(a), b) for a, b in zip(go, eo)))
    if isinstance(e, (list, tuple)):
        return (isinstance(g, (list, tuple)) and len(g) == len(e)
                and all(match_value(a, b) for a, b in zip(g, e)))
    if isinstance(e, bool) or isinstance(g, bool) or e is None or g is None:
        return type(g) is type(e) and g == e
    if isinstance(e, (int, float)):
        return isinstance(g, (int, float)) and g == e
    return type(g) is type(e) and g == e


# --------------------------------------------------------------------------
# Condition / FlowVar reference: who is waiting, who gets through
# --------------------------------------------------------------------------

class ConditionSM:
    """Waiters wait once per ``wait`` call.  A waiter that calls wait() while
    the test is true goes straight through; otherwise it parks and gets
    through exactly once: at the first signal() issued while the test is true,
    or at the first unhang()."""

    def __init__(self, test=False):
        self.test = bool(test)
        self.waiting = []

    def wait(self, who):
        """-> True: passes immediately; False: parked"""
        if self.test:
            return True
        self.waiting.append(who)
        return False

    def set_test(self, value):
        self.test = bool(value)
        return []

    def signal(self):
        """-> list of released waiters (each exactly once)"""
        if not self.test:
            return []
        out, self.waiting = self.waiting, []
        return out

    def unhang(self):
        out, self.waiting = self.waiting, []
        return out


class FlowVarSM:
    UNBOUND = '<unbound>'

    def __init__(self):
        self.value = self.UNBOUND
        self.cond = ConditionSM(False)

    def read(self, who):
        """-> (True, value) passes immediately | (False, None) parked"""
        if self.cond.wait(who):
            return True, self.value
        return False, None

    def assign(self, value):
        """-> ('refused', []) | ('ok', released waiters)"""
        if self.value != self.UNBOUND:
            return 'refused', []
        self.value = value
        self.cond.test = True
        return 'ok', self.cond.signal()

    def signal(self):
        return self.cond.signal()
