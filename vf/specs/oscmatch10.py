"""OSC 1.0 address-pattern matching, written from the specification text
("OSC Message Dispatching and Pattern Matching",
https://opensoundcontrol.stanford.edu/spec-1_0.html), NOT from sc3.

The sentences this file implements (quoted from the specification):

 (P)  "The parts of an OSC Address or an OSC Address Pattern are the substrings
      between adjacent pairs of forward slash characters and the substring
      after the last forward slash character."
 (M)  "An OSC Address Pattern matches an OSC Address if
        1. The OSC Address and the OSC Address Pattern contain the same number
           of parts; and
        2. Each part of the OSC Address Pattern matches the corresponding part
           of the OSC Address."
 (W)  "A part of an OSC Address Pattern matches a part of an OSC Address if
      every consecutive character in the OSC Address Pattern matches the next
      consecutive substring of the OSC Address and every character in the OSC
      Address is matched by something in the OSC Address Pattern."
 (R1) "'?' in the OSC Address Pattern matches any single character"
 (R2) "'*' in the OSC Address Pattern matches any sequence of zero or more
      characters"
 (R3) "A string of characters in square brackets (e.g., "[string]") in the OSC
      Address Pattern matches any character in the string. Inside square
      brackets, the minus sign (-) and exclamation point (!) have special
      meanings:
       - two characters separated by a minus sign indicate the range of
         characters between the given two in ASCII collating sequence. (A minus
         sign at the end of the string has no special meaning.)
       - An exclamation point at the beginning of a bracketed string negates
         the sense of the list, meaning that the list matches any character not
         in the list. (An exclamation point anywhere besides the first
         character after the open bracket has no special meaning.)"
 (R4) "A comma-separated list of strings enclosed in curly braces (e.g.,
      "{foo,bar}") in the OSC Address Pattern matches any of the strings in
      the list."
 (R5) "Any other character in an OSC Address Pattern can match only the same
      character."

Consequences used below:

 * (P)+(M): the '/' characters are taken out *before* any wildcard is looked
   at, so no wildcard, bracket set (negated or not) or brace list can ever
   match a '/', and the match is over the whole length of the address (W).
 * (R3) names '-' and '!' as the *only* characters that are special inside
   square brackets: '*', '?', '{', '}', ',' and '[' inside brackets are
   ordinary list members.
 * (R4)/(R5): a ',' is a separator only inside curly braces; elsewhere it is
   "any other character" and matches only itself.

Where the specification is silent the pattern is declared *not well formed*
(`wellformed_pattern` is False, `osc_match` raises ValueError) so that callers
do not compare implementations on it:

 * an unclosed '[' or '{', or a ']' / '}' without an opening partner (a
   bracket or brace cannot span a '/', because of (P));
 * an empty bracket list: '[]' and '[!]';
 * inside brackets: a '-' that is neither first, nor last, nor standing between
   two list characters that are not themselves '-' or part of another range
   ('[a--]', '[--a]', '[a-b-c]'), and a descending range ('[b-a]': "the range
   of characters between the given two" does not say which way);
 * inside braces: any of '[', ']', '{', '?', '*' (the specification speaks of a
   "list of strings" and does not say whether wildcards are allowed there).
   Empty alternatives ('{,a}', '{}') are strings and are accepted.

The matcher is a plain backtracking one; it does not use `re`.
"""

__all__ = ['osc_match', 'wellformed_pattern', 'parse_part', 'match_part']


def _parse_bracket(body):
    """body: the characters between '[' and the first following ']'.
    Returns (negated, singles:set, ranges:list[(lo,hi)]) or None."""
    negated = False
    if body[:1] == '!':
        negated = True
        body = body[1:]
    if not body:
        return None                      # '[]' / '[!]'
    singles = set()
    ranges = []
    n = len(body)
    i = 0
    while i < n:
        c = body[i]
        if c == '-':
            # a list member only at the very beginning or the very end
            if i == 0 or i == n - 1:
                if i + 1 < n and body[i + 1] == '-':
                    return None          # '[--a]', '[--]'
                singles.add('-')
                i += 1
                continue
            return None                  # '-' after a completed range, or '--'
        # c is an ordinary character; is it the start of a range "c-d"?
        if i + 2 < n and body[i + 1] == '-':
            d = body[i + 2]
            if d == '-':
                return None              # '[a--...]'
            if ord(c) > ord(d):
                return None              # descending range
            ranges.append((c, d))
            i += 3
            # a '-' directly after a range is only defined when it is last
            if i < n and body[i] == '-' and i != n - 1:
                return None              # '[a-b-c]'
            continue
        singles.add(c)
        i += 1
    return (negated, singles, ranges)


def parse_part(part):
    """Tokenise one part (no '/') of an address pattern.
    Returns a list of tokens or None when the part is not well formed.
    Tokens: ('lit', c) | ('one',) | ('star',) | ('set', neg, singles, ranges)
            | ('alt', (s1, s2, ...))"""
    toks = []
    i = 0
    n = len(part)
    while i < n:
        c = part[i]
        if c == '?':
            toks.append(('one',))
            i += 1
        elif c == '*':
            toks.append(('star',))
            i += 1
        elif c == '[':
            j = part.find(']', i + 1)
            if j < 0:
                return None
            st = _parse_bracket(part[i + 1:j])
            if st is None:
                return None
            toks.append(('set',) + st)
            i = j + 1
        elif c == '{':
            j = part.find('}', i + 1)
            if j < 0:
                return None
            body = part[i + 1:j]
            for x in body:
                if x in '[]{?*':
                    return None
            toks.append(('alt', tuple(body.split(','))))
            i = j + 1
        elif c == ']' or c == '}':
            return None
        else:
            toks.append(('lit', c))      # includes ',', '!', '-'
            i += 1
    return toks


def wellformed_pattern(p):
    """True iff every part of `p` parses (see the module docstring)."""
    if not isinstance(p, str):
        return False
    for part in p.split('/'):
        if parse_part(part) is None:
            return False
    return True


def _in_set(ch, neg, singles, ranges):
    inside = ch in singles
    if not inside:
        o = ord(ch)
        for lo, hi in ranges:
            if ord(lo) <= o <= ord(hi):
                inside = True
                break
    return inside != neg


def match_part(toks, s):
    """Does the token list match the *whole* string s (a part, no '/')?"""
    nt = len(toks)
    ns = len(s)

    def m(ti, si):
        while ti < nt:
            t = toks[ti]
            k = t[0]
            if k == 'lit':
                if si < ns and s[si] == t[1]:
                    ti += 1
                    si += 1
                    continue
                return False
            if k == 'one':
                if si < ns:
                    ti += 1
                    si += 1
                    continue
                return False
            if k == 'set':
                if si < ns and _in_set(s[si], t[1], t[2], t[3]):
                    ti += 1
                    si += 1
                    continue
                return False
            if k == 'star':
                # zero or more characters: try every split point
                for e in range(si, ns + 1):
                    if m(ti + 1, e):
                        return True
                return False
            if k == 'alt':
                for a in t[1]:
                    if s.startswith(a, si) and m(ti + 1, si + len(a)):
                        return True
                return False
            raise AssertionError(k)
        return si == ns

    return m(0, 0)


def osc_match(pattern, address):
    """True iff `pattern` (an OSC 1.0 address pattern) matches `address`.
    Raises ValueError when the pattern is not well formed."""
    pparts = pattern.split('/')
    aparts = address.split('/')
    ptoks = []
    for p in pparts:
        t = parse_part(p)
        if t is None:
            raise ValueError('not a well-formed OSC 1.0 pattern: %r' % (pattern,))
        ptoks.append(t)
    if len(pparts) != len(aparts):
        return False
    for t, a in zip(ptoks, aparts):
        if not match_part(t, a):
            return False
    return True
