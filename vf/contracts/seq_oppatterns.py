"""Contracts for the operator patterns (C15, C13): Punop / Pbinop / Pnarop in sc3/seq/pattern.py.

"next(s op t) = op(next(s), next(t))", every time the composed pattern is evaluated:

  __stream__   a NEW stream of every operand is made by this very call (stm.stream(operand)) and handed,
               with the selector, to the operator stream class - operands first-to-last, nothing cached
               in the pattern
  __embed__    (Punop, Pnarop) new operand streams are made by this call; every pass draws ONE value from
               each operand stream, in order, each with the pass's input value, and yields
               selector(first, *others) of exactly those values; the first exhausted operand ends the
               embedding quietly with the current input value
  __init__     stores the operands as given (no conversion: a stream made at construction time would be
               shared by every evaluation)

Two further operands (type case) stand for the argument tuple of Pnarop.  stm.stream / stream.next /
the selector / the stream classes are ghost calls.
"""
import z3
from vf.pyvc.spec import contract, Loop
from vf.pyvc.values import *
from vf.pyvc import values as VV
from vf.pyvc.engine import Raised, Unsupported

F = 'sc3/seq/pattern.py'
ST = 'sc3/base/stream.py'


def stream_pol(eng, selfv, args, kwargs, st, node):
    s = V('obj', oid='stream!%d' % next(eng.counter), extra={'of': args[0]})
    st.trace.append(('make-stream', args[0], s))
    return [(st, s)]


def h_getattr(eng, obj, name, st, node):
    if obj.k == 'obj' and obj.extra and 'of' in obj.extra and name == 'next':
        def nxt(eng, args, kwargs, st, node, _o=obj):
            ok, bad = st, st.fork()
            v = V('obj', oid='drawn!%d' % next(eng.counter))
            ok.trace.append(('draw', _o, v, args[0] if args else None))
            bad.trace.append(('exhausted', _o))
            return [(ok, v), (bad, Raised(eng.make_exc('StopStream', node=node)))]
        return [(st, V('func', py=('spec', nxt)))]
    if obj.k == 'module' and name in ('StopStream', 'UnopStream', 'BinopStream', 'NaropStream'):
        return [(st, V('class', py=name))]
    return None


def h_call(eng, f, args, kwargs, st, node):
    if f.k == 'obj' and f.oid == 'self.selector':
        r = V('obj', oid='applied!%d' % next(eng.counter))
        st.trace.append(('apply', tuple(args), r))
        return [(st, r)]
    return None


def h_construct(eng, f, args, kwargs, st, node):
    if f.k == 'class' and f.py in ('UnopStream', 'BinopStream', 'NaropStream'):
        r = V('obj', oid='op-stream', extra={'cls': f.py, 'args': tuple(args)})
        st.trace.append(('op-stream', f.py, tuple(args)))
        return [(st, r)]
    return None


def args_kind(eng, name):
    return vtuple([V('obj', oid='self.args[0]'), V('obj', oid='self.args[1]')])


OPERANDS = {'Punop': ['self.a'], 'Pbinop': ['self.a', 'self.b'], 'Pnarop': ['self.a', 'self.args[0]', 'self.args[1]']}
FIELDS = {'Punop': {'selector': 'obj', 'a': 'obj'}, 'Pbinop': {'selector': 'obj', 'a': 'obj', 'b': 'obj'},
          'Pnarop': {'selector': 'obj', 'a': 'obj', 'args': args_kind}}
HOOKS = {'getattr': h_getattr, 'call': h_call, 'construct': h_construct}


def fresh_streams(c, cls):
    """one stm.stream(operand) per operand, made in this call: -> ([stream of operand i ...], ok)"""
    made = [e for e in c.trace if e[0] == 'make-stream']
    by = {}
    for e in made:
        by.setdefault(e[1].oid if e[1].k == 'obj' else None, []).append(e)
    ok = len(made) == len(OPERANDS[cls]) and all(len(by.get(o, [])) == 1 for o in OPERANDS[cls])
    return ([by[o][0] for o in OPERANDS[cls]] if ok else []), ok


def stream_post(cls):
    def post(c):
        made, ok = fresh_streams(c, cls)
        ops = [e for e in c.trace if e[0] == 'op-stream']
        want = {'Punop': 'UnopStream', 'Pbinop': 'BinopStream', 'Pnarop': 'NaropStream'}[cls]
        if not ok or len(ops) != 1 or ops[0][1] != want:
            return z3.BoolVal(False)
        a = ops[0][2]
        ok = (len(a) == 1 + len(made) and a[0].k == 'obj' and a[0].oid == 'self.selector'
              and all(a[1 + i] is made[i][2] for i in range(len(made)))          # the streams made just now, in order
              and c.resultv.k == 'obj' and c.resultv.oid == 'op-stream')
        return z3.BoolVal(bool(ok))
    return post


for cls in ('Punop', 'Pbinop', 'Pnarop'):
    contract(F, cls + '.__stream__', props=('C15', 'C13'), params={'self': 'self'},
             ensures=[('new-operand-streams-made-by-this-call-and-handed-to-the-operator-stream', stream_post(cls))],
             modifies=[], fields=FIELDS, hooks=HOOKS, policies={ST + '::stream': stream_pol},
             class_modules={cls: F}, native=False)


def since_head(trace):
    idx = -1
    for i, e in enumerate(trace):
        if e[0] == 'loop-head':
            idx = i
    return trace[idx + 1:] if idx >= 0 else None


def remember_inval(eng, st):
    st.ghost = dict(st.ghost)
    st.ghost['inval_at_head'] = st.env.get('inval')


def embed_pass(cls):
    def inv(c, L):
        made, ok = fresh_streams(c, cls)
        if not ok:
            return z3.BoolVal(False)                              # streams made before the loop, by this call
        ev = since_head(c.trace)
        if not ev:
            return z3.BoolVal(True)
        ev = [e for e in ev if e[0] in ('draw', 'apply', 'yield', 'make-stream', 'exhausted')]
        n = len(made)
        if [e[0] for e in ev] != ['draw'] * n + ['apply', 'yield']:
            return z3.BoolVal(False)
        head = c.st.ghost.get('inval_at_head')
        draws, app, y = ev[:n], ev[n], ev[n + 1]
        ok = (all(draws[i][1] is made[i][2] and draws[i][3] is head for i in range(n))   # one value per operand, in order
              and len(app[1]) == n and all(app[1][i] is draws[i][2] for i in range(n))   # the selector on exactly those
              and y[1] is app[2])                                                        # and that result is yielded
        return z3.BoolVal(bool(ok))
    return inv


def embed_post(c):
    ev = [e for e in c.trace if e[0] in ('yield', 'exhausted')]
    quiet = True
    for k, e in enumerate(ev):
        if e[0] == 'exhausted':
            quiet = all(x[0] != 'yield' for x in ev[k:])
            break
    return z3.BoolVal(bool(quiet) and c.resultv is c.st.env.get('inval'))


for cls in ('Punop', 'Pnarop'):
    contract(F, cls + '.__embed__', props=('C15', 'C13'), params={'self': 'self', 'inval': 'obj'},
             ensures=[('ends-quietly-with-the-current-input-value', embed_post)],
             loops={0: Loop(inv=embed_pass(cls), kinds={'inval': 'obj', 'a': (lambda eng, n: V('obj', oid='havoc')),
                                                        'args': (lambda eng, n: V('obj', oid='havoc')),
                                                        'x': (lambda eng, n: V('obj', oid='havoc'))},
                            havoc_hook=remember_inval)},
             modifies=[], fields=FIELDS, hooks=HOOKS, policies={ST + '::stream': stream_pol},
             class_modules={cls: F}, opts={'generator_trace': True}, native=False)


def init_post(cls, names):
    def post(c):
        me = c.post.self
        ok = all(me.v(n) is c._params[n] for n in names if n in c._params)
        if cls == 'Pnarop':
            a = me.v('args')
            ok = ok and a.k == 'tuple' and len(a.items) == 2 and a.items[0] is c._params['args'].items[0] \
                and a.items[1] is c._params['args'].items[1]
        ev = me.v('_is_event_pattern')
        not_event = ev.k == 'bool' and z3.is_false(z3.simplify(ev.z))                       # operands are not event patterns
        return z3.BoolVal(bool(ok) and bool(not_event)
                          and not [e for e in c.trace if e[0] == 'make-stream'])             # no stream made at construction
    return post


def ctor_args_kind(eng, name):
    return vtuple([V('obj', oid='arg0'), V('obj', oid='arg1')])


def isinstance_false(eng, name, args, kwargs, st, node):
    if name in ('isinstance', 'any'):
        return [(st, vbool(False))]          # operands that are not event patterns (the value-pattern case)
    return None


for cls, params in (('Punop', {'self': 'self', 'selector': 'obj', 'a': 'obj'}),
                    ('Pbinop', {'self': 'self', 'selector': 'obj', 'a': 'obj', 'b': 'obj'}),
                    ('Pnarop', {'self': 'self', 'selector': 'obj', 'a': 'obj', 'args': ctor_args_kind})):
    flds = dict(FIELDS[cls], _is_event_pattern='bool')
    contract(F, cls + '.__init__', props=('C15', 'C13'), params=params,
             ensures=[('operands-stored-as-given', init_post(cls, ['selector', 'a', 'b']))],
             fields={cls: flds}, hooks=dict(HOOKS, builtin_first=isinstance_false),
             policies={ST + '::stream': stream_pol}, class_modules={cls: F}, native=False,
             note='operands that are not event patterns')
