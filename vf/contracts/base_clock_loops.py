"""Contracts for the real-time clock loops in sc3/base/clock.py (C05, C08):
sequential (monitor) obligations under the lock. The queue is used through the
TaskQueue contract proved under C09, abstracted to a ghost head:

    empty()      -> ghost boolean, stable until the queue is mutated
    peek()       -> (head time, head task), stable until the queue is mutated
    pop()        -> the head; the head is then unknown again
    add(t, k)    -> new head time = t if the queue was empty else min(old head, t)
    Condition.wait releases the lock: afterwards everything about the queue and
                    the run flag is unknown again

A task's __awake__ is a call with the outcomes: a non-bool number, a bool,
None/other value, StopStream, any other Exception.
"""
import ast
import z3
from vf.pyvc.spec import contract, Loop
from vf.pyvc.values import *
from vf.pyvc.engine import Raised, Unsupported
from ._common import MAIN_FIELDS, TT_FIELDS

F = 'sc3/base/clock.py'
AWAKE = ['int', 'real', 'bool', 'none', 'StopStream', 'ValueError']


def Q(st):
    return st.objs.setdefault('__queue', {})


def fresh_head(eng, st):
    q = Q(st)
    n = next(eng.counter)
    q['empty'] = z3.Bool('q.empty!%d' % n)
    q['time'] = z3.Real('q.head_time!%d' % n)
    q['task'] = V('obj', oid='q.head_task!%d' % n)


def head(eng, st):
    q = Q(st)
    if 'empty' not in q:
        fresh_head(eng, st)
    return q


def queue_method(name):
    def f(eng, args, kwargs, st, node):
        q = head(eng, st)
        if name == 'empty':
            return [(st, vbool(q['empty']))]
        if name == 'peek':
            outs = []
            for st1, e in eng.branch(st, q['empty'], node):
                if e:
                    outs.append((st1, Raised(eng.make_exc('KeyError', node=node))))
                else:
                    q1 = head(eng, st1)
                    outs.append((st1, vtuple([vreal(q1['time']), q1['task']])))
            return outs
        if name == 'pop':
            outs = []
            for st1, e in eng.branch(st, q['empty'], node):
                if e:
                    outs.append((st1, Raised(eng.make_exc('KeyError', node=node))))
                else:
                    q1 = head(eng, st1)
                    t, k = q1['time'], q1['task']
                    st1.trace.append(('pop', t, k))
                    st1.objs['__queue'] = {}
                    outs.append((st1, vtuple([vreal(t), k])))
            return outs
        if name == 'add':
            t, k = to_real(args[0]), args[1]
            st.trace.append(('add', t, k))
            was_empty, old = q['empty'], q['time']
            n = next(eng.counter)
            nt = z3.Real('q.head_time!%d' % n)
            st.pc.append(nt == z3.If(was_empty, t, z3.If(t < old, t, old)))
            st.objs['__queue'] = {'empty': z3.BoolVal(False), 'time': nt,
                                  'task': V('obj', oid='q.head_task!%d' % n)}
            return [(st, NONE)]
        if name == 'clear':
            st.trace.append(('clear',))
            st.objs['__queue'] = {'empty': z3.BoolVal(True), 'time': z3.Real('q.none'),
                                  'task': V('obj', oid='q.none')}
            return [(st, NONE)]
        raise Unsupported(node, 'queue method %s' % name)
    return f


def awake_call(task):
    def f(eng, args, kwargs, st, node):
        outs = []
        for kind in AWAKE:
            st1 = st.fork()
            n = next(eng.counter)
            if kind == 'int':
                val = vint(z3.Int('delta!%d' % n))
            elif kind == 'real':
                val = vreal(z3.Real('delta!%d' % n))
            elif kind == 'bool':
                val = vbool(z3.Bool('delta!%d' % n))
            elif kind == 'none':
                val = NONE
            else:
                val = None
            flag = st1.objs.get('main', {}).get('_in_awake_call')
            st1.trace.append(('awake', task, kind, val, flag))
            # a task may schedule things itself (same thread, lock held)
            st1.objs['__queue'] = {}
            if val is not None:
                outs.append((st1, val))
            else:
                outs.append((st1, Raised(eng.make_exc(kind, node=node))))
        return outs
    return f


def h_getattr(eng, obj, name, st, node):
    if obj.k == 'obj' and obj.oid and str(obj.oid).endswith('_task_queue') and \
            name in ('empty', 'peek', 'pop', 'add', 'clear'):
        return [(st, V('func', py=('spec', queue_method(name))))]
    if obj.k == 'obj' and name == '__awake__':
        return [(st, V('func', py=('spec', awake_call(obj))))]
    if obj.k == 'ref' and obj.oid == 'main' and name == '_update_logical_time':
        def ult(eng, args, kwargs, st, node):
            st.trace.append(('logical-time', to_real(args[0])))
            return [(st, NONE)]
        return [(st, V('func', py=('spec', ult)))]
    if obj.k == 'ref' and obj.oid == 'main' and name == 'elapsed_time':
        def now(eng, args, kwargs, st, node):
            v = eng.fresh_val('real', 'elapsed')
            floor = st.objs.setdefault('main', {}).get('__clockfloor')
            fz = floor.z if floor is not None else z3.Real('main.__clockfloor')
            st.pc.append(v.z >= fz)          # physical time is monotone
            st.objs['main']['__clockfloor'] = vreal(v.z)
            st.trace.append(('time', v.z))
            return [(st, v)]
        return [(st, V('func', py=('spec', now)))]
    if obj.k == 'module' and name == 'StopStream':
        return [(st, V('class', py='StopStream'))]
    return None


def h_effect(eng, oid, name, args, kwargs, st, node):
    if name == 'wait':
        q0 = head(eng, st)
        st.ghost = dict(st.ghost)
        st.ghost['head_at_wait'] = (q0['empty'], q0['time'])
        # the lock is released while waiting: other threads may do anything
        st.objs['__queue'] = {}
        for o in ('cls:SystemClock', 'self'):
            if o in st.objs:
                st.objs[o].pop('_run_sched', None)
                st.objs[o]['_run_sched'] = vbool(z3.Bool('run_sched!%d' % next(eng.counter)))
        # the queue head as the thread knows it when it goes to sleep
        st.trace.append(('wait', to_real(args[0]) if args else None,
                         st.ghost.get('head_at_wait')))
    return None


HOOKS = {'getattr': h_getattr, 'effect': h_effect}

SC = {'_run_sched': 'bool', '_task_queue': 'obj', '_sched_cond': 'obj', '_thread': 'obj'}
TC = {'_run_sched': 'bool', '_task_queue': 'obj', '_sched_cond': 'obj', '_thread': 'obj',
      '_beats': 'real', '_tempo': 'real', '_beat_dur': 'real', '_base_seconds': 'real',
      '_base_beats': 'real'}
FIELDS = {'SystemClock': SC, 'TempoClock': TC,
          'Main': dict(MAIN_FIELDS, __clockfloor='real'), 'TimeThread': TT_FIELDS}


def since(trace, ordinal):
    idx = -1
    for i, e in enumerate(trace):
        if e[0] == 'loop-head' and e[1] == ordinal:
            idx = i
    return trace[idx + 1:] if idx >= 0 else None


def clockfloor(c):
    return c.post.main.__getattr__('__clockfloor')


def perform_iteration(timebase, sched_name):
    """postcondition of ONE iteration of the 'perform all events that are ready'
    loop, read off the ghost trace of that iteration"""
    def inv(c, L):
        now = getattr(L, 'now', None)
        if now is None:
            now = getattr(L, 'elapsed_beats', None)
        now = z3.ToReal(now) if z3.is_int(now) else now
        # `now` never runs ahead of a physical-time reading already made
        base = now <= timebase(c, clockfloor(c))
        ev = since(c.trace, 3)
        if not ev:
            return base                    # loop entry / loop head
        pops = [e for e in ev if e[0] == 'pop']
        awakes = [e for e in ev if e[0] == 'awake']
        adds = [e for e in ev if e[0] == 'call' and e[1] == sched_name]
        lts = [e for e in ev if e[0] == 'logical-time']
        if len(pops) != 1 or len(awakes) != 1 or len(lts) != 1:
            return z3.BoolVal(False)
        t0, task = pops[0][1], pops[0][2]
        kind, val = awakes[0][2], awakes[0][3]
        order = ev.index(lts[0]) < ev.index(awakes[0])
        flag = awakes[0][4] if len(awakes[0]) > 4 else None
        clauses = [base, z3.BoolVal(order),
                   # the task runs with the awake flag SET (scheduling from inside a task relies on it)
                   flag.z if flag is not None and flag.k == 'bool' else z3.BoolVal(False),
                   # never early: the popped time is not after the time base reading
                   t0 <= now,
                   # the awake flag is cleared on every outcome
                   z3.Not(c.post.main._in_awake_call),
                   # the task that is awakened is the popped one
                   z3.BoolVal(awakes[0][1].oid == task.oid)]
        if kind in ('int', 'real'):
            if len(adds) != 1:
                return z3.BoolVal(False)
            at, ak = adds[0][2][0], adds[0][2][1]
            clauses += [to_real(at) == t0 + to_real(val),        # scheduled time + delta, exactly
                        z3.BoolVal(ak.k == 'obj' and ak.oid == task.oid)]
        else:
            clauses.append(z3.BoolVal(len(adds) == 0))
        return z3.And(*clauses)
    return inv


def fresh_deadline(conv, now_of=None):
    """per-iteration obligation of the 'wait until an event is ready' loop: a
    timed wait sleeps exactly until the CURRENT earliest entry (read after the
    previous wait, not a stale one) measured from a time reading of this
    iteration; and the loop's notion of "now" (what decides which entries are
    due) is a time reading of THIS pass, converted by the clock's current map"""
    def inv(c, L):
        ev = since(c.trace, 2)
        if not ev:
            return z3.BoolVal(True)
        waits = [e for e in ev if e[0] == 'wait']
        times = [e for e in ev if e[0] == 'time']
        if getattr(L, 'phase', None) == 'after' and now_of is not None:
            if not times:
                return z3.BoolVal(False)
            n = now_of(c, L)
            if isinstance(n, tuple):
                _, eb, s_ = n
                eb = z3.ToReal(eb) if z3.is_int(eb) else eb
                fresh = eb == (times[0][1] - s_._base_seconds) * s_._tempo + s_._base_beats
            else:
                n = z3.ToReal(n) if z3.is_int(n) else n
                fresh = n == times[0][1]
            rest = inv_rest(c, L, ev, waits, times)
            return z3.And(fresh, rest)
        return inv_rest(c, L, ev, waits, times)

    def inv_rest(c, L, ev, waits, times):
        if not waits:
            # a pass that goes round again without sleeping would spin with the lock held
            return z3.BoolVal(getattr(L, 'phase', None) != 'after')
        if len(waits) != 1 or not times or waits[0][1] is None or waits[0][2] is None:
            return z3.BoolVal(False)
        if ev.index(times[-1]) > ev.index(waits[0]):
            return z3.BoolVal(False)
        empty_at_wait, head_time = waits[0][2]
        return z3.And(z3.Not(empty_at_wait),
                      waits[0][1] == conv(c, head_time) - times[-1][1])
    return inv


def sleeps_once(ordinal, owner):
    """'wait until there is something in scheduler': the loop is entered with the run flag set (else the thread
    would leave at once), and every pass that goes round again has slept on the condition (untimed) - a pass without a wait would spin with the lock held and nothing could ever be scheduled"""
    def inv(c, L):
        base = clockfloor(c) >= 0 if owner == 'cls' else z3.BoolVal(True)
        if L.phase == 'entry' and ordinal == 0:
            o = c.post.cls('SystemClock') if owner == 'cls' else c.post.self
            return z3.And(base, o._run_sched)
        if L.phase != 'after' or ordinal == 0:
            return base
        ev = since(c.trace, ordinal) or []
        waits = [e for e in ev if e[0] == 'wait']
        return z3.And(base, z3.BoolVal(len(waits) >= 1 and all(w[1] is None for w in waits)))
    return inv


def secs_identity(c, x):
    return x


def logical_secs_sys(c, t0):
    return t0


def forget_queue(eng, st):
    st.objs['__queue'] = {}


LOOPS_SYS = {
    0: Loop(early_exit=True, inv=sleeps_once(0, 'cls'), havoc_fields=[('main', '__clockfloor'), ('cls:SystemClock', '_run_sched')],
            kinds={'now': 'real'}, havoc_hook=forget_queue),
    1: Loop(early_exit=True, inv=sleeps_once(1, 'cls'), havoc_fields=[('main', '__clockfloor'), ('cls:SystemClock', '_run_sched')],
            havoc_hook=forget_queue),
    2: Loop(early_exit=True, inv=lambda c, L: z3.And(clockfloor(c) >= 0, L.now <= clockfloor(c),
                                    fresh_deadline(secs_identity, lambda c, L: L.now)(c, L)),
            havoc_fields=[('main', '__clockfloor'), ('cls:SystemClock', '_run_sched')], kinds={'now': 'real'},
            havoc_hook=forget_queue),
    3: Loop(inv=perform_iteration(secs_identity, 'SystemClock._sched_add'),
            havoc_fields=[('main', '_in_awake_call')], kinds={'now': 'real'}, havoc_hook=forget_queue),
}


def logical_time_is_scheduled_time(c):
    return z3.BoolVal(True)


contract(F, 'SystemClock._run', props=('C05', 'C08'),
         params={'cls': 'cls'},
         requires=lambda c: c.pre.main.__getattr__('__clockfloor') >= 0,
         ensures=[('returns-only-when-stopped', lambda c: z3.Not(c.post.cls('SystemClock')._run_sched))],
         loops=LOOPS_SYS, hooks=HOOKS, fields=FIELDS, class_modules={'SystemClock': F},
         policies={'SystemClock._sched_add': 'opaque'}, native=False,
         opts={'exceptions_stay_inside': True},      # C08: "An exception raised by one task ... affects neither the other tasks nor the clock"
         note='per-iteration obligations of the perform loop are its loop invariant '
              '(checked at the end of the body on the ghost trace of that iteration)')


# logical time handed to the task = scheduled time: the argument of
# _update_logical_time in the iteration is the popped time (part of the order clause)
def lt_arg(c, L):
    ev = since(c.trace, 3)
    if not ev:
        return z3.BoolVal(True)
    pops = [e for e in ev if e[0] == 'pop']
    lts = [e for e in ev if e[0] == 'logical-time']
    if len(pops) != 1 or len(lts) != 1:
        return z3.BoolVal(False)
    return lts[0][1] == pops[0][1]


_inv3 = LOOPS_SYS[3].inv
LOOPS_SYS[3].inv = lambda c, L: z3.And(_inv3(c, L), lt_arg(c, L))


# ---- _sched_add: a task that becomes the earliest always produces a notification
def notified(c):
    return z3.BoolVal(any(e[0] == 'call' and e[2] in ('notify', 'notify_all') for e in c.trace))


def sched_add_post(c):
    q0 = c.st.ghost.get('q0')
    t = c.secs if 'secs' in c.kinds else c.beats
    becomes_head = z3.Or(q0['empty'], t < q0['time'])
    return z3.Implies(becomes_head, notified(c))


def sched_add_setup(eng, st, params):
    fresh_head(eng, st)
    st.ghost['q0'] = dict(Q(st))


for cls_, tname in (('SystemClock', 'secs'), ('TempoClock', 'beats')):
    par = {'cls': 'cls', 'secs': 'real', 'task': 'obj'} if cls_ == 'SystemClock' else \
        {'self': 'self', 'beats': 'real', 'task': 'obj'}
    contract(F, cls_ + '._sched_add', props=('C08',),
             params=par,
             requires=lambda c: (c.secs if 'secs' in c.kinds else c.beats) > -10000000000,
             ensures=[('new-earliest-task-notifies-the-sleeping-thread', sched_add_post),
                      ('added-exactly-once', lambda c: z3.BoolVal(
                          len([e for e in c.trace if e[0] == 'add']) == 1))],
             setup=sched_add_setup, hooks=HOOKS, fields=FIELDS,
             class_modules={'SystemClock': F, 'TempoClock': F}, native=False)


# ---- TempoClock._run ------------------------------------------------------------
from ._common import ghost_bool


def tperform(c, L):
    eb = getattr(L, 'elapsed_beats', None)
    eb = z3.ToReal(eb) if z3.is_int(eb) else eb
    ev = since(c.trace, 3)
    if not ev:
        return z3.BoolVal(True)
    pops = [e for e in ev if e[0] == 'pop']
    awakes = [e for e in ev if e[0] == 'awake']
    adds = [e for e in ev if e[0] == 'call' and e[1] == 'TempoClock._sched_add']
    lts = [e for e in ev if e[0] == 'logical-time']
    if len(pops) != 1 or len(awakes) != 1 or len(lts) != 1:
        return z3.BoolVal(False)
    t0, task = pops[0][1], pops[0][2]
    kind, val = awakes[0][2], awakes[0][3]
    s = c.pre.self           # the map in force when the task is awakened (no wait in between)
    flag = awakes[0][4] if len(awakes[0]) > 4 else None
    clauses = [z3.BoolVal(ev.index(lts[0]) < ev.index(awakes[0])),
               flag.z if flag is not None and flag.k == 'bool' else z3.BoolVal(False),   # the task runs with the awake flag set
               t0 <= eb,                                     # never early (in beats)
               z3.Not(c.post.main._in_awake_call),
               z3.BoolVal(awakes[0][1].oid == task.oid),
               c.post.self._beats == t0]
    if kind in ('int', 'real'):
        if len(adds) != 1:
            return z3.BoolVal(False)
        at, ak = adds[0][2][0], adds[0][2][1]
        clauses += [to_real(at) == t0 + to_real(val),
                    z3.BoolVal(ak.k == 'obj' and ak.oid == task.oid)]
    else:
        clauses.append(z3.BoolVal(len(adds) == 0))
    return z3.And(*clauses)


def tlt(c, L):
    """logical time given to the task = beats2secs(scheduled beats) on the
    clock's map at that moment"""
    ev = since(c.trace, 3)
    if not ev:
        return z3.BoolVal(True)
    pops = [e for e in ev if e[0] == 'pop']
    lts = [e for e in ev if e[0] == 'logical-time']
    if len(pops) != 1 or len(lts) != 1:
        return z3.BoolVal(False)
    m = c.st.ghost.get('map_at_head')
    if m is None:
        return z3.BoolVal(False)
    bd, bs, bb = m
    return lts[0][1] == (pops[0][1] - bb) * bd + bs


def remember_map(eng, st):
    forget_queue(eng, st)
    f = st.objs.get('self', {})

    def fld(n):
        v = f.get(n)
        return v.z if v is not None else z3.Real('self.' + n)
    st.ghost = dict(st.ghost)
    st.ghost['map_at_head'] = (fld('_beat_dur'), fld('_base_seconds'), fld('_base_beats'))


def beats_to_secs_now(c, beats):
    s = c.post.self          # no field changes between the peek and the wait
    return (beats - s._base_beats) * s._beat_dur + s._base_seconds


def now_in_secs(c, L):
    # elapsed_beats = secs2beats(time reading) under the map in force  <=>  the reading, solved for seconds
    # (stated multiplied out: no division)
    s = c.post.self
    return ('beats', L.elapsed_beats, s)


TFIELDS = [('self', '_run_sched'), ('self', '_tempo'), ('self', '_beat_dur'),
           ('self', '_base_seconds'), ('self', '_base_beats'), ('self', '_beats'),
           ('main', '__clockfloor')]
LOOPS_T = {
    0: Loop(early_exit=True, inv=sleeps_once(0, 'self'), havoc_fields=TFIELDS, kinds={'elapsed_beats': 'real'},
            havoc_hook=forget_queue),
    1: Loop(early_exit=True, inv=sleeps_once(1, 'self'), havoc_fields=TFIELDS, havoc_hook=forget_queue),
    2: Loop(early_exit=True, inv=lambda c, L: fresh_deadline(beats_to_secs_now, now_in_secs)(c, L), havoc_fields=TFIELDS,
            kinds={'elapsed_beats': 'real'}, havoc_hook=forget_queue),
    3: Loop(inv=lambda c, L: z3.And(tperform(c, L), tlt(c, L)),
            havoc_fields=[('main', '_in_awake_call'), ('self', '_beats'), ('self', '_tempo'),
                          ('self', '_beat_dur'), ('self', '_base_seconds'), ('self', '_base_beats')],
            kinds={'elapsed_beats': 'real'}, havoc_hook=remember_map),
}

contract(F, 'TempoClock._run', props=('C05', 'C08'),
         params={'self': 'self'},
         requires=lambda c: z3.Bool('self.__running'),
         ensures=[('returns-only-when-stopped', lambda c: z3.Not(c.post.self._run_sched))],
         loops=LOOPS_T, hooks=HOOKS, fields=FIELDS, class_modules={'TempoClock': F},
         policies={'TempoClock._sched_add': 'opaque', 'TempoClock.running': ghost_bool('__running')},
         inline=('TempoClock.elapsed_beats', 'TempoClock.beats2secs', 'TempoClock.secs2beats'),
         opts={'exceptions_stay_inside': True}, native=False)
