"""Shared by the pattern contracts (C13): how often `for _ in bi.counter(x)` runs.

counter(x) is a ghost call; its number of passes is the uninterpreted COUNT(x), so that a loop contract can say
WHICH count a loop runs over (`over=counts('repeats')`: as many passes as the pattern's own `repeats` says,
pass k carrying k) instead of "some number of passes"."""
import z3
from vf.pyvc.values import *
from vf.pyvc import values as VV

COUNT = z3.Function('count_of', VV.Any, z3.IntSort())


def counter_pol(eng, selfv, args, kwargs, st, node):
    a = args[0] if args else None
    if a is not None and a.k in ('obj', 'any') and a.z is not None:
        n = COUNT(a.z)
    elif a is not None and a.k == 'int':
        n = z3.If(a.z > 0, a.z, 0)
    else:
        n = eng.fresh('count', z3.IntSort())
    st.pc.append(n >= 0)
    return [(st, V('seq', extra={'len': n, 'get': (lambda eng, i, st_: vint(i))}))]


def counts(field):
    def over(c, sq, k, elem):
        f = c.pre.self.v(field)
        if f.z is None or elem.k != 'int':
            return z3.BoolVal(False), z3.BoolVal(False)
        return sq.extra['len'] == COUNT(f.z), elem.z == k
    return over
