"""Contracts for sc3/base/clock.py — TempoClock arithmetic and quantisation
(C12), OSC time conversion (C07)."""
import z3
from vf.pyvc.spec import contract
from vf.pyvc.values import *
from ._common import MAIN_FIELDS, TT_FIELDS, ghost_bool, ghost_int
from . import base_builtins    # mod / roundup contracts are used at call sites

F = 'sc3/base/clock.py'
L = '@lemmas/clock_lemmas.py'

TC = {
    '_tempo': 'real', '_beat_dur': 'real', '_base_seconds': 'real',
    '_base_beats': 'real', '_beats': 'real', '_beats_per_bar': 'real',
    '_bars_per_beat': 'real', '_base_bar_beat': 'real', '_base_bar': 'real',
    'permanent': 'bool', '_pure_nrt': 'bool', '_sched_cond': 'obj',
    '_task_queue': 'obj', '_thread': 'obj', '_all': 'obj', '_run_sched': 'bool',
}
FIELDS = {'TempoClock': TC, 'Main': MAIN_FIELDS, 'TimeThread': TT_FIELDS,
          'Routine': {'_clock': 'obj'}}
CM = {'TempoClock': F, 'Routine': 'sc3/base/stream.py', 'Quant': F}

POL = {
    'TempoClock.running': ghost_bool('__running'),
    'TempoClock.mode': ghost_int('__mode', 0, 1),
    'NotificationCenter.notify': 'opaque',
    'TempoClock._sched_add': 'opaque',
}
INL = ('TempoClock.beats', 'TempoClock.secs2beats', 'TempoClock.beats2secs',
       'TempoClock.tempo', 'TempoClock.tempo@setter', 'TempoClock.beats@setter',
       'TempoClock.etempo', 'TempoClock.beats2bars', 'TempoClock.bars2beats',
       'TempoClock.next_bar', 'TempoClock.beats_per_bar', 'TempoClock.bar',
       'TempoClock.play', 'TempoClock.sched_abs', 'TempoClock._sched_add_nrt',
       'TempoClock.time_to_next_beat', 'TempoClock.next_time_on_grid',
       'Quant.as_quant', 'floor', 'ceil')
OPTS = {'opaque_construct': ('ClockTask', 'Function')}


def inv(v):
    """class invariant of the beat/second map"""
    return z3.And(v._beat_dur * v._tempo == 1, v._tempo > 0)


def meter_inv(v):
    return z3.And(v._bars_per_beat * v._beats_per_bar == 1, v._beats_per_bar > 0)


def running(c, who='self'):
    return z3.Bool('%s.__running' % who)


common = dict(fields=FIELDS, class_modules=CM, policies=POL, inline=INL, opts=OPTS)


def wakes_clock_thread_in_rt(c):
    """a change of the beat/second map re-times what is pending: in real time the sleeping clock thread is
    woken (once) so that it recomputes its deadline; in non-real time there is no thread to wake"""
    n = [e for e in c.trace if e[0] == 'call' and e[2] == 'notify' and str(e[1]).endswith('_sched_cond')]
    nrt = z3.Int('self.__mode') == 0
    return z3.And(z3.BoolVal(len(n) <= 1), z3.BoolVal(len(n) == 1) == z3.Not(nrt))


def notifies(what):
    def f(c):
        n = [e for e in c.trace if e[0] == 'call' and e[1] == 'NotificationCenter.notify']
        ok = (len(n) == 1 and len(n[0][2]) == 2 and n[0][2][0].k == 'ref' and n[0][2][0].oid == 'self'
              and n[0][2][1].k == 'str' and n[0][2][1].py == what)
        return z3.BoolVal(bool(ok))
    return f

def init_post(c):
    v = c.post.self
    now = c.pre.main.current_tt._seconds
    secs = now if c.kinds['seconds'] == 'none' else z3.If(c.seconds == 0, now, c.seconds)      # `seconds or now`
    beats = 0 if c.kinds['beats'] == 'none' else c.beats
    t = c.trace
    reg = [e for e in t if e[0] == 'call' and e[1] == 'cls:TempoClock._all' and e[2] == 'add']
    threads = [e for e in t if e[0] == 'ext' and e[1] == 'threading.Thread']
    starts = [e for e in t if e[0] == 'call' and e[2] == 'start' and 'threading.Thread' in str(e[1])]
    conds = [e for e in t if e[0] == 'ext' and e[1] == 'threading.Condition']
    queues = [e for e in t if e[0] == 'new' and e[1] == 'TaskQueue']
    atexit = [e for e in t if e[0] == 'call' and e[1] == 'main._atexitq' and e[2] == 'add']
    rt = z3.Bool('main.__is_rt')
    n_rt = (len(threads), len(starts), len(conds), len(queues))
    registered = True          # (registration in the class's clock set and the exit handler are not demanded: no property needs them)
    cond_ok = (not conds) or (len(conds[0][2]) == 1 and conds[0][2][0].k == 'obj' and conds[0][2][0].oid == 'main._main_lock')
    return z3.And(v._base_seconds == secs, v._base_beats == beats, v._beats == 0,
                  v._beats_per_bar == 4, v._bars_per_beat * 4 == 1, v._base_bar_beat == 0, v._base_bar == 0,
                  z3.BoolVal(bool(registered)),
                  v._pure_nrt == z3.Not(rt),
                  # in real time: its own queue, a condition on the ONE library lock and a thread that is started;
                  # otherwise none of these
                  z3.BoolVal(n_rt == (1, 1, 1, 1)) == rt, z3.BoolVal(n_rt == (0, 0, 0, 0)) == z3.Not(rt),
                  z3.BoolVal(bool(cond_ok)))


# ---- the real methods: invariants established and preserved ------------------
contract(F, 'TempoClock.__init__', props=('C12',),
         params={'self': 'self', 'tempo': ['none', 'int', 'real'],
                 'beats': ['none', 'real'], 'seconds': ['none', 'real']},
         raises={'ValueError': lambda c: (c.tempo < 0) if c.kinds['tempo'] != 'none' else z3.BoolVal(False)},
         ensures=[('establishes-map-invariant', lambda c: inv(c.post.self)),
                  ('establishes-meter-invariant', lambda c: meter_inv(c.post.self)),
                  ('tempo-as-given', lambda c: c.post.self._tempo ==
                   (1 if c.kinds['tempo'] == 'none' else z3.If(c.tempo == 0, 1, c.tempo))),
                  ('a-new-clock:origin,meter,and-in-real-time-its-own-queue,condition-on-the-library-lock,running-thread', init_post)],
         **dict(common, opts=dict(OPTS, opaque_construct=('ClockTask', 'Function', 'TaskQueue'),
                                  opaque_ext=('threading.Condition', 'threading.Thread'))))

contract(F, 'TempoClock.tempo@setter', props=('C12',),
         params={'self': 'self', 'value': 'num'},
         requires=lambda c: inv(c.pre.self),
         raises={'ValueError': lambda c: c.value <= 0,
                 'ClockNotRunning': lambda c: z3.Not(running(c))},
         ensures=[('preserves-map-invariant', lambda c: inv(c.post.self)),
                  ('sets-tempo', lambda c: c.post.self._tempo == c.value),
                  ('notifies-dependants', lambda c: any(
                      e[0] == 'call' and e[1] == 'NotificationCenter.notify' for e in c.trace))],
         modifies=[('self', '_tempo'), ('self', '_beat_dur'), ('self', '_base_seconds'),
                   ('self', '_base_beats')],
         **common)

contract(F, 'TempoClock.etempo', props=('C12',),
         params={'self': 'self', 'value': 'num'},
         requires=lambda c: z3.And(c.pre.self._beat_dur * c.pre.self._tempo == 1),
         raises={'ValueError': lambda c: c.value == 0,
                 'ClockNotRunning': lambda c: z3.Not(running(c))},
         ensures=[('preserves-reciprocal', lambda c: c.post.self._beat_dur * c.post.self._tempo == 1),
                  ('sets-tempo', lambda c: c.post.self._tempo == c.value)],
         modifies=[('self', '_tempo'), ('self', '_beat_dur'), ('self', '_base_seconds'),
                   ('self', '_base_beats')],
         **common)

contract(F, 'TempoClock.beats@setter', props=('C12',),
         params={'self': 'self', 'value': 'num'},
         requires=lambda c: inv(c.pre.self),
         raises={'ClockNotRunning': lambda c: z3.Not(running(c))},
         ensures=[('preserves-map-invariant', lambda c: inv(c.post.self)),
                  ('keeps-tempo', lambda c: c.post.self._tempo == c.pre.self._tempo)],
         modifies=[('self', '_beat_dur'), ('self', '_base_seconds'), ('self', '_base_beats')],
         **common)


def on_own_clock(c):
    # the setter refuses calls from a thread whose clock is not this clock;
    # identity of the opaque clock object with self is a ghost boolean
    return z3.Bool('main.current_tt._clock.is_self')


def bpb_hooks():
    def compare(eng, op, a, b, st, node):
        import ast
        if isinstance(op, (ast.Is, ast.IsNot)):
            for p, q in ((a, b), (b, a)):
                if p.k == 'obj' and p.oid == 'main.current_tt._clock' and q.k == 'ref' and q.oid == 'self':
                    r = z3.Bool('main.current_tt._clock.is_self')
                    return z3.Not(r) if isinstance(op, ast.IsNot) else r
        return None
    return {'compare': compare}


contract(F, 'TempoClock.beats_per_bar@setter', props=('C12',),
         params={'self': 'self', 'value': 'num'},
         requires=lambda c: z3.And(inv(c.pre.self), meter_inv(c.pre.self), c.value > 0,
                                   running(c)),
         raises={'ClockError': lambda c: z3.Not(on_own_clock(c))},
         ensures=[('preserves-meter-invariant', lambda c: meter_inv(c.post.self)),
                  ('sets-meter', lambda c: c.post.self._beats_per_bar == c.value),
                  ('current-beat-is-a-bar-line', lambda c: z3.And(
                      z3.IsInt(c.post.self._base_bar),
                      # the new base bar beat is the current beat
                      c.post.self._base_bar_beat ==
                      (c.pre.main.current_tt._seconds - c.pre.self._base_seconds) * c.pre.self._tempo
                      + c.pre.self._base_beats))],
         modifies=[('self', '_base_bar'), ('self', '_base_bar_beat'),
                   ('self', '_beats_per_bar'), ('self', '_bars_per_beat')],
         hooks=bpb_hooks(),
         **dict(common, inline=INL + ('round', 'div')))

# ---- quantisation -----------------------------------------------------------
def ntog_pre(c):
    return z3.And(c.quant >= 0, z3.Implies(c.quant > 0, z3.And(-c.quant < c.phase, c.phase < c.quant)))


def ntog_post_range(c):
    return z3.Implies(c.quant > 0, z3.And(c.result >= c.refbeat, c.result < c.refbeat + c.quant))


def ntog_post_cong(c):
    bbb = c.pre.self._base_bar_beat
    q = z3.ToReal(c.quant) if z3.is_int(c.quant) else c.quant
    return z3.Implies(c.quant > 0, c.exists_int(
        lambda k: c.result - bbb == c.phase + k * c.quant,
        exact=z3.IsInt((c.result - bbb - c.phase) / q)))


contract(F, 'TempoClock.next_time_on_grid', props=('C12',),
         params={'self': 'self', 'quant': 'num', 'phase': 'num', 'refbeat': 'real'},
         requires=lambda c: z3.Implies(c.quant > 0, z3.And(-c.quant < c.phase, c.phase < c.quant)),
         raises={'ValueError': lambda c: c.quant < 0},
         returns='real',
         ensures=[('not-before-reference', ntog_post_range),
                  ('congruent-to-phase-from-last-meter-change', ntog_post_cong),
                  ('no-quantisation-when-zero', lambda c: z3.Implies(
                      c.quant == 0, c.result == c.refbeat + c.phase))],
         modifies=[],
         **dict(common, inline=('mod', 'roundup', 'div', 'floor', 'ceil')))

# without a reference beat the grid is looked up from the clock's CURRENT logical beat
def ntog_now(c):
    s = c.pre.self
    return (c.pre.main.current_tt._seconds - s._base_seconds) * s._tempo + s._base_beats


def ntog_none_range(c):
    return z3.Implies(c.quant > 0, z3.And(c.result >= ntog_now(c), c.result < ntog_now(c) + c.quant))


from vf.pyvc.spec import REGISTRY
_ntog = REGISTRY.pop('%s::TempoClock.next_time_on_grid' % F)
contract(F, 'TempoClock.next_time_on_grid', props=('C12',),
         params={'self': 'self', 'quant': 'num', 'phase': 'num', 'refbeat': 'none'},
         requires=lambda c: z3.And(running(c), z3.Implies(c.quant > 0, z3.And(-c.quant < c.phase, c.phase < c.quant))),
         raises={'ValueError': lambda c: c.quant < 0},
         returns='real',
         ensures=[('not-before-the-current-beat', ntog_none_range),
                  ('no-quantisation-when-zero', lambda c: z3.Implies(c.quant == 0, c.result == ntog_now(c) + c.phase))],
         modifies=[],
         **dict(common, inline=INL + ('mod', 'roundup', 'div', 'floor', 'ceil')))
_k = '%s::TempoClock.next_time_on_grid#from-the-current-beat' % F
REGISTRY[_k] = REGISTRY.pop('%s::TempoClock.next_time_on_grid' % F)
REGISTRY[_k].key = _k
REGISTRY['%s::TempoClock.next_time_on_grid' % F] = _ntog

# ---- relational theorems over the real bodies (ghost lemma functions) --------
contract(L, 'beats_secs_roundtrip', props=('C12',),
         params={'clock': 'ref:TempoClock', 'b': 'real'},
         requires=lambda c: z3.And(inv(c.pre.clock), running(c, 'clock')),
         ensures=[('identity', lambda c: c.result)], **common)
contract(L, 'secs_beats_roundtrip', props=('C12',),
         params={'clock': 'ref:TempoClock', 's': 'real'},
         requires=lambda c: z3.And(inv(c.pre.clock), running(c, 'clock')),
         ensures=[('identity', lambda c: c.result)], **common)
contract(L, 'tempo_change_is_continuous', props=('C12',),
         params={'clock': 'ref:TempoClock', 'value': 'num', 's2': 'real'},
         requires=lambda c: z3.And(inv(c.pre.clock), running(c, 'clock'), c.value > 0),
         ensures=[('continuous-and-advances-at-new-tempo', lambda c: c.result)], **common)
contract(L, 'etempo_change_is_continuous', props=('C12',),
         params={'clock': 'ref:TempoClock', 'value': 'num', 's2': 'real'},
         requires=lambda c: z3.And(inv(c.pre.clock), running(c, 'clock'), c.value != 0),
         ensures=[('continuous-and-advances-at-new-tempo', lambda c: c.result)], native=False,
         note='the instant of the change is a physical-time reading (free in the proof): a native replay cannot '
              'choose it, so counter-models are not replayed', **common)
contract(L, 'beats_change_is_continuous', props=('C12',),
         params={'clock': 'ref:TempoClock', 'value': 'num', 's2': 'real'},
         requires=lambda c: z3.And(inv(c.pre.clock), running(c, 'clock')),
         ensures=[('continuous-and-advances-at-tempo', lambda c: c.result)], **common)
contract(L, 'bars_beats_roundtrip', props=('C12',),
         params={'clock': 'ref:TempoClock', 'x': 'real'},
         requires=lambda c: meter_inv(c.pre.clock),
         ensures=[('identity', lambda c: c.result)], **common)
contract(L, 'next_bar_not_before', props=('C12',),
         params={'clock': 'ref:TempoClock', 'beat': 'real'},
         requires=lambda c: meter_inv(c.pre.clock),
         ensures=[('not-before-and-within-one-bar', lambda c: c.result)], **common)
contract(L, 'next_bar_is_bar_line', props=('C12',),
         params={'clock': 'ref:TempoClock', 'beat': 'real'},
         requires=lambda c: z3.And(meter_inv(c.pre.clock), z3.IsInt(c.pre.clock._base_bar)),
         ensures=[('integral-bar-number', lambda c: c.exists_int(lambda k: c.result == k,
                                                                  exact=z3.IsInt(c.result)))], **common)


def play_trace(c):
    ev = [e for e in c.trace
          if (e[0] == 'call' and e[1] == 'TempoClock._sched_add') or
          (e[0] == 'new' and e[1] == 'ClockTask')]
    if len(ev) != 1:
        return z3.BoolVal(False)
    args = ev[0][2]
    beat = args[0]
    return to_real(beat) == c.result


contract(L, 'play_schedules_on_grid', props=('C12',),
         params={'clock': 'ref:TempoClock', 'task': 'ref:Routine', 'q': 'num', 'phase': 'num'},
         requires=lambda c: z3.And(inv(c.pre.clock), running(c, 'clock'), c.q >= 0,
                                   z3.Implies(c.q > 0, z3.And(-c.q < c.phase, c.phase < c.q))),
         ensures=[('exactly-one-scheduling-at-next-time-on-grid', play_trace)],
         **dict(common, inline=INL + ('mod', 'roundup', 'div')))
contract(L, 'time_to_next_beat_nonneg', props=('C12',),
         params={'clock': 'ref:TempoClock', 'q': 'num'},
         requires=lambda c: z3.And(inv(c.pre.clock), running(c, 'clock'), c.q > 0),
         ensures=[('non-negative', lambda c: c.result >= 0),
                  ('below-quantum', lambda c: c.result < c.q)],
         **dict(common, inline=INL + ('mod', 'roundup', 'div')))
