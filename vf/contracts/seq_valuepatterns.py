"""Contracts for the series generators in sc3/seq/patterns/valuepatterns.py
(C13): `yield v` is a ghost trace event, the step/grow stream is a call that
returns a number or raises StopStream. Per-iteration obligation (the inductive
step of the denotation): each pass draws the step exactly once, yields exactly
the current value, and the next value is current (+|*) step; the first value is
`start`; exhaustion of the step stream ends the series without an exception."""
import z3
from vf.pyvc.spec import contract, Loop
from vf.pyvc.values import *
from vf.pyvc.engine import Raised

F = 'sc3/seq/patterns/valuepatterns.py'


def h_getattr(eng, obj, name, st, node):
    if obj.k == 'obj' and obj.oid == 'param-stream' and name == 'next':
        def nxt(eng, args, kwargs, st, node):
            ok = st
            bad = st.fork()
            v = eng.fresh_val('real', 'drawn')
            ok.trace.append(('draw', v.z))
            bad.trace.append(('draw-exhausted',))
            return [(ok, v), (bad, Raised(eng.make_exc('StopStream', node=node)))]
        return [(st, V('func', py=('spec', nxt)))]
    if obj.k == 'module' and name == 'StopStream':
        return [(st, V('class', py='StopStream'))]
    return None


def stream_pol(eng, selfv, args, kwargs, st, node):
    return [(st, V('obj', oid='param-stream'))]


from vf.contracts.seq_common import counter_pol, counts, COUNT


def since(trace):
    idx = -1
    for i, e in enumerate(trace):
        if e[0] == 'loop-head':
            idx = i
    return trace[idx + 1:] if idx >= 0 else None


def remember(eng, st):
    st.ghost = dict(st.ghost)
    st.ghost['cur_at_head'] = st.env['cur'].z


def step_inv(op):
    def inv(c, L):
        ev = since(c.trace)
        if L.phase == 'entry':               # loop entry: the first value is `start`
            return L.cur == c.pre.self.start
        if not ev:
            return z3.BoolVal(True)          # loop head (assumed)
        ev = [e for e in ev if e[0] in ('draw', 'yield', 'draw-exhausted')]
        if len(ev) != 2 or ev[0][0] != 'draw' or ev[1][0] != 'yield':
            return z3.BoolVal(False)
        cur0 = c.st.ghost['cur_at_head']
        y = ev[1][1]
        if not is_num(y) or not is_num(ev[0][1] if isinstance(ev[0][1], V) else vreal(ev[0][1])):
            return z3.BoolVal(False)         # what is yielded is the running value: a number
        return z3.And(to_real(y) == cur0, L.cur == op(cur0, ev[0][1]))
    return inv


def no_yield_after_exhaustion(c):
    ev = [e for e in c.trace if e[0] in ('yield', 'draw-exhausted')]
    if any(e[0] == 'draw-exhausted' for e in ev):
        i = [k for k, e in enumerate(ev) if e[0] == 'draw-exhausted'][0]
        return z3.BoolVal(all(e[0] != 'yield' for e in ev[i:]))
    return z3.BoolVal(True)


for cls, par, op in (('Pseries', 'step', lambda a, b: a + b), ('Pgeom', 'grow', lambda a, b: a * b)):
    contract(F, cls + '.__embed__', props=('C13',),
             params={'self': 'self', 'inval': 'obj'},
             ensures=[('ends-quietly-when-the-parameter-stream-ends', no_yield_after_exhaustion)],
             fields={cls: {'start': 'real', par: 'obj', 'length': 'obj'}},
             loops={0: Loop(inv=step_inv(op), over=counts('length'), kinds={'cur': 'real', 'inval': 'obj', 'outval': 'real',
                                                    'stepval': 'real', 'growval': 'real', '_': 'int'},
                            havoc_hook=remember)},
             hooks={'getattr': h_getattr},
             policies={'stream': stream_pol, 'counter': counter_pol},
             opts={'generator_trace': True}, class_modules={cls: F}, native=False,
             note='generator body under contract: yield = ghost trace event')
