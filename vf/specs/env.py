"""Reference for envelope specifications (property C19), written from the
SuperCollider documentation (Env / EnvGen help files, "Env.shapeNames") and
the property statement -- not from sc3's implementation.

Server format of one (single channel) envelope, as EnvGen expects it::

    [ level0, numSegments, releaseNode | -99, loopNode | -99 ]
    ++ for each segment i:  [ level[i+1], time[i], shapeNumber, curveValue ]

``times`` and ``curves`` are cyclically extended ("wrapped") to the number of
segments ``len(levels) - 1``.  Shape numbers (Env help, "curve"):

    step 0, lin/linear 1, exp/exponential 2, sin/sine 3, wel/welch 4,
    <a number> 5 (curveValue = the number), sqr/squared 6, cub/cubed 7, hold 8

For every named shape the curve value is 0.

If some levels are themselves lists the specification is multichannel: channel
``c`` is the same layout with every list valued item replaced by
``item[c % len(item)]`` and there are ``max(len(item))`` channels.

The evaluator part states only what the property statement says: the value at
the breakpoints, betweenness inside a segment and the value held outside.
"""

ABSENT = -99

SHAPE_NUMBERS = {
    'step': 0,
    'lin': 1, 'linear': 1,
    'exp': 2, 'exponential': 2,
    'sin': 3, 'sine': 3,
    'wel': 4, 'welch': 4,
    'sqr': 6, 'squared': 6,
    'cub': 7, 'cubed': 7,
    'hold': 8,
}
CURVE_SHAPE = 5  # a number as curve: shape 5, curve value = the number


def is_number(x):
    return isinstance(x, (int, float)) and not isinstance(x, bool)


def shape_number(curve):
    """Shape number of one curve item; ValueError for an unknown name."""
    if is_number(curve):
        return CURVE_SHAPE
    if isinstance(curve, str) and curve in SHAPE_NUMBERS:
        return SHAPE_NUMBERS[curve]
    raise ValueError('unknown envelope shape %r' % (curve,))


def curve_value(curve):
    return curve if is_number(curve) else 0


def as_items(x):
    """A scalar (number or name) stands for a one element list."""
    if isinstance(x, (list, tuple)):
        return list(x)
    return [x]


def wrapped(items, n):
    """Cyclic extension (or truncation) of items to n elements."""
    items = as_items(items)
    if not items:
        raise ValueError('cannot wrap an empty list')
    return [items[i % len(items)] for i in range(n)]


def segments(levels, times, curves):
    """(n, times wrapped to n, curves wrapped to n) for n = len(levels) - 1."""
    n = len(levels) - 1
    if n < 1:
        raise ValueError('an envelope needs at least two levels')
    return n, wrapped(times, n), wrapped(curves, n)


def server_array(levels, times, curves='lin', release_node=None,
                 loop_node=None):
    """The single channel EnvGen array (all levels/times scalars)."""
    n, tms, crv = segments(levels, times, curves)
    out = [levels[0], n,
           ABSENT if release_node is None else release_node,
           ABSENT if loop_node is None else loop_node]
    for i in range(n):
        out += [levels[i + 1], tms[i], shape_number(crv[i]),
                curve_value(crv[i])]
    return out


def server_arrays(levels, times, curves='lin', release_node=None,
                  loop_node=None):
    """List of per channel arrays; a level, a segment's time or a segment's
    curve may itself be a list (multichannel): channel c takes element c modulo
    its length of every such list, the channel count is the longest of them."""
    n, tms, crv = segments(levels, times, curves)
    chans = 1
    for x in list(levels) + tms + crv:
        if isinstance(x, (list, tuple)):
            if not x:
                raise ValueError('empty channel list')
            chans = max(chans, len(x))

    def pick(x, c):
        return x[c % len(x)] if isinstance(x, (list, tuple)) else x
    out = []
    for c in range(chans):
        out.append(server_array([pick(x, c) for x in levels], [pick(x, c) for x in tms],
                                [pick(x, c) for x in crv], release_node, loop_node))
    return out


# ---------------------------------------------------------------------------
# Standard constructors: documented breakpoints.  Each returns a dict with
# levels, times, curves, release_node, loop_node, offset.  Parameter names
# follow the SuperCollider help (attackTime, decayTime, ...) in sc3 spelling.
# ---------------------------------------------------------------------------

def _spec(levels, times, curves='lin', release_node=None, loop_node=None,
          offset=0):
    return {'levels': list(levels), 'times': list(times), 'curves': curves,
            'release_node': release_node, 'loop_node': loop_node,
            'offset': offset}


def triangle(dur=1.0, level=1.0):
    return _spec([0, level, 0], [dur * 0.5, dur * 0.5], 'lin')


def sine(dur=1.0, level=1.0):
    return _spec([0, level, 0], [dur * 0.5, dur * 0.5], 'sine')


def perc(attack_time=0.01, release_time=1.0, level=1.0, curve=-4.0):
    return _spec([0, level, 0], [attack_time, release_time], curve)


def linen(attack_time=0.01, sustain_time=1.0, release_time=1.0, level=1.0,
          curve='lin'):
    return _spec([0, level, level, 0],
                 [attack_time, sustain_time, release_time], curve)


def cutoff(release_time=0.1, level=1.0, curve='lin'):
    # "has no attack segment, sustains at the peak level until released";
    # an exponential segment cannot reach zero: it ends at -100 dB.
    end = 10.0 ** (-100 / 20.0) if shape_number(curve) == 2 else 0
    return _spec([level, end], [release_time], curve, 0)


def asr(attack_time=0.01, sustain_level=1.0, release_time=1.0, curve=-4.0):
    return _spec([0, sustain_level, 0], [attack_time, release_time], curve, 1)


def adsr(attack_time=0.01, decay_time=0.3, sustain_level=0.5,
         release_time=1.0, peak_level=1.0, curve=-4.0, bias=0.0):
    lv = [0, peak_level, peak_level * sustain_level, 0]
    return _spec([x + bias for x in lv],
                 [attack_time, decay_time, release_time], curve, 2)


def dadsr(delay_time=0.1, attack_time=0.01, decay_time=0.3, sustain_level=0.5,
          release_time=1.0, peak_level=1.0, curve=-4.0, bias=0.0):
    lv = [0, 0, peak_level, peak_level * sustain_level, 0]
    return _spec([x + bias for x in lv],
                 [delay_time, attack_time, decay_time, release_time], curve, 3)


def step(levels=(0, 1), times=(1, 1), offset=0):
    """n levels for n times: every segment is a horizontal line at its level
    (first level repeated as the initial level, 'step' shape).  The mapping of
    a release/loop *level index* to a node is not fixed here (see driver)."""
    levels = list(levels)
    times = list(times)
    if len(levels) != len(times):
        raise ValueError('levels and times must have the same length')
    return _spec([levels[0]] + levels, times, 'step', None, None, offset)


def xyc(points):
    """[time, level, curve] control points, sorted by time; the curve of the
    last point is ignored; the first time is the offset."""
    pts = sorted((list(p) for p in points), key=lambda p: p[0])
    ts = [p[0] for p in pts]
    return _spec([p[1] for p in pts],
                 [b - a for a, b in zip(ts, ts[1:])],
                 [p[2] for p in pts][:-1], offset=ts[0])


def pairs(points, curves=None):
    """[time, level] control points with one curve for all (default 'lin') or
    one curve per point."""
    if curves is None:
        curves = 'lin'
    if isinstance(curves, (list, tuple)):
        if len(curves) != len(points):
            raise ValueError('one curve per point')
        return xyc([[p[0], p[1], c] for p, c in zip(points, curves)])
    return xyc([[p[0], p[1], curves] for p in points])


CONSTRUCTORS = {
    'triangle': triangle, 'sine': sine, 'perc': perc, 'linen': linen,
    'cutoff': cutoff, 'asr': asr, 'adsr': adsr, 'dadsr': dadsr,
    'step': step, 'xyc': xyc, 'pairs': pairs,
}


# ---------------------------------------------------------------------------
# Evaluation, as far as the statement goes
# ---------------------------------------------------------------------------

def breakpoint_times(times):
    """Cumulative times [0, t0, t0+t1, ...] (left to right sums)."""
    out = [0.0]
    acc = 0.0
    for t in times:
        acc += t
        out.append(acc)
    return out


def value_at_breakpoint(levels, curves, k):
    """Level the envelope has at breakpoint k (0 <= k <= n).  At the last
    breakpoint it is the last level.  Otherwise the segment *starting* there
    decides: 'step' jumps immediately to its target, every other shape starts
    from the level at the breakpoint ('hold' keeps it until its end)."""
    n = len(levels) - 1
    if k >= n:
        return levels[n]
    crv = wrapped(curves, n)
    if shape_number(crv[k]) == 0:
        return levels[k + 1]
    return levels[k]


def segment_index(times, t):
    """Index of the segment containing time t (bp[i] <= t < bp[i+1]) or None
    after the end; t < 0 counts as 0."""
    bp = breakpoint_times(times)
    t = max(t, 0.0)
    for i in range(len(times)):
        if bp[i] <= t < bp[i + 1]:
            return i
    return None


def between_bounds(levels, times, t):
    """(lo, hi): the closed interval of the neighbouring levels at time t;
    after the end both are the last level."""
    i = segment_index(times, t)
    if i is None:
        return levels[-1], levels[-1]
    a, b = levels[i], levels[i + 1]
    return (a, b) if a <= b else (b, a)
