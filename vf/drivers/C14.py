"""C14 - events resolve their keys and play as correctly timed server commands.

NRT mode only (``sc3.init('nrt')``); the score (``main.process().list``) is the
observation point, event lookups ``evt(key)`` the other.

Sub-checks (``--only``):

keys     ``event(**keys)(k)`` for k in midinote/note/freq/amp/delta/sustain
         equals vf/specs/events.resolve (1e-9 relative) for all subsets of the
         main pitch keys x amplitude keys x duration keys with 3 values each, 3
         scales, modifiers together with their main key.
play     a note event played from a routine at logical time t sends exactly
         one ``/s_new`` bundle at t + latency with instrument, a fresh node id,
         add action number, target group and one pair per control the event
         defines (none for other keys), and - iff the SynthDesc has a gate -
         exactly one ``/n_set id gate 0`` bundle at t + latency + sustain.
player   Pbind/Pmono/Ppar/Pchain/Pdur/Pdelta/Pseq compositions of depth <= 2:
         message k at start + sum of the preceding deltas (+ latency), rests
         send nothing, Ppar keeps each child's timeline, Pdur clips to the
         requested total (the score ends at start + total).
"""

import json
import itertools
import logging
import math

from vf.common import Report, driver_main, wants
from vf.specs import events as es
from vf.specs.events import REST

INSTR = {
    'c14g': {'controls': ['freq', 'amp', 'gate', 'pan'], 'gate': True},
    'c14n': {'controls': ['freq', 'amp', 'foo', 'sustain'], 'gate': False},
    'c14p': {'controls': ['freq', 'out', 'dur', 'legato'], 'gate': False},
}

SCALES = {
    'major12': ([0, 2, 4, 5, 7, 9, 11], 12),
    'penta12': ([0, 3, 5, 7, 10], 12),
    'seven19': ([0, 3, 6, 8, 11, 14, 17], 19),
}

VALUES = {
    'degree': [1, 9, -3], 'note': [0, 7, -5], 'midinote': [60, 72.5, 43],
    'freq': [440, 100.0, 1234.5],
    'db': [-6, 0, -40], 'amp': [0.5, 0.0, 1.0], 'velocity': [64, 127, 1],
    'dur': [0.5, 1, 2], 'stretch': [0.5, 1, 2], 'legato': [0.5, 1, 1.5],
    'sustain': [0.125, 1, 3], 'delta': [0.25, 1, 0],
}
MODS = {
    'octave': [4, 6], 'root': [2, -1], 'gtranspose': [1, -2],
    'mtranspose': [1, -3], 'ctranspose': [0.5, -12], 'harmonic': [2, 0.5],
    'detune': [3, -1.5],
}
PITCH = ['degree', 'note', 'midinote', 'freq']
AMP = ['db', 'amp', 'velocity']
DUR = ['dur', 'stretch', 'legato', 'sustain', 'delta']


def enc(x):
    return repr(x)


def dec(text):
    return eval(text, {'__builtins__': {}}, {'inf': float('inf')})


class _Capture(logging.Handler):
    def __init__(self):
        super().__init__(level=logging.ERROR)
        self.records = []

    def emit(self, record):
        text = record.getMessage()
        if record.exc_info and record.exc_info[1] is not None:
            text += ' | %s: %s' % (type(record.exc_info[1]).__name__,
                                   record.exc_info[1])
        self.records.append(text)

    def take(self):
        out, self.records = self.records, []
        return out


CAP = _Capture()
_READY = False


def setup():
    global _READY
    if _READY:
        return
    import warnings
    warnings.simplefilter('ignore')
    root = logging.getLogger()
    root.addHandler(CAP)
    logging.disable(logging.WARNING)
    import sc3
    sc3.init('nrt')
    for lg in [root] + [logging.getLogger(n) for n in
                        list(logging.root.manager.loggerDict)]:
        if hasattr(lg, 'handlers'):
            for h in list(lg.handlers):
                if h is not CAP:
                    lg.removeHandler(h)
    from sc3.synth.synthdef import SynthDef
    from sc3.synth.synthdesc import SynthDescLib
    from sc3.synth.ugens import SinOsc, Out, EnvGen
    from sc3.synth.envelope import Env

    def c14g(freq=440, amp=0.1, gate=1, pan=0):
        env = EnvGen.kr(Env.asr(), gate, done_action=2)
        Out.ar(0, SinOsc.ar(freq) * amp * env * (1 - pan))

    def c14n(freq=440, amp=0.1, foo=3, sustain=1):
        Out.ar(0, SinOsc.ar(freq + foo) * amp * sustain)

    def c14p(freq=440, out=0, dur=1, legato=1):
        Out.ar(out, SinOsc.ar(freq) * dur * legato)

    for f in (c14g, c14n, c14p):
        SynthDef(f.__name__, f).add()
    for name, info in INSTR.items():
        desc = SynthDescLib.default.at(name)
        if desc is None:
            raise RuntimeError('no SynthDesc for ' + name)
        if list(desc.control_names) != info['controls'] \
                or bool(desc.has_gate) != info['gate']:
            raise RuntimeError('unexpected SynthDesc %s: %r gate=%r' % (
                name, desc.control_names, desc.has_gate))
    _READY = True


def sc3_scale(name):
    from sc3.seq.scale import Scale, Tuning
    degrees, steps = SCALES[name]
    if steps == 12:
        return Scale(degrees)
    return Scale(degrees, Tuning.et(steps))


def ref_scale(name):
    degrees, steps = SCALES[name]
    return es.Scale(degrees, steps, name)


# ---------------------------------------------------------------------------
# (i) key resolution
# ---------------------------------------------------------------------------

SCALE_MODE = {'direct': True}      # False once an explicit Scale key failed


def make_event(keys, scale_name, direct=None):
    """The real event for explicit `keys`; non-default scales are given as the
    'scale' key (directly, or as a function-valued key when the tree cannot
    take a Scale object directly)."""
    from sc3.seq.event import event
    kw = dict(keys)
    if scale_name != 'major12':
        sc = sc3_scale(scale_name)
        if SCALE_MODE['direct'] if direct is None else direct:
            kw['scale'] = sc
        else:
            kw['scale'] = lambda self: sc
    return event(**kw)


def assignments(names, values=VALUES):
    """All value assignments of all subsets of `names`."""
    for r in range(len(names) + 1):
        for sub in itertools.combinations(names, r):
            for vals in itertools.product(*[values[k] for k in sub]):
                yield dict(zip(sub, vals))


def key_cases(rng, rounds=1):
    """(tag, keys, scale_name)"""
    for sname in SCALES:
        for keys in assignments(PITCH):
            yield 'pitch', keys, sname
    mods = [{m: v} for m, vs in MODS.items() for v in vs]
    mods += [{m: vs[i] for m, vs in MODS.items()} for i in (0, 1)]
    nonempty = [k for k in assignments(PITCH) if k]
    for sname in SCALES:
        for keys in nonempty:
            for m in mods:
                yield 'pitch+mod', dict(keys, **m), sname
    for keys in assignments(AMP):
        yield 'amp', keys, 'major12'
    for keys in assignments(DUR):
        yield 'dur', keys, 'major12'
    for sname in list(SCALES) * rounds:
        for ps_ in powerset(PITCH):
            for as_ in powerset(AMP):
                for ds_ in powerset(DUR):
                    keys = {k: rng.choice(VALUES[k])
                            for k in ps_ + as_ + ds_}
                    if ps_ and rng.random() < 0.5:
                        for m in rng.sample(list(MODS), rng.randint(1, 3)):
                            keys[m] = rng.choice(MODS[m])
                    yield 'cross', keys, sname
    # modifier-only events: recorded, never a violation
    for m in mods:
        yield 'mod-only', dict(m), 'major12'


def powerset(names):
    return [c for r in range(len(names) + 1)
            for c in itertools.combinations(names, r)]


def top_key(keys):
    for k in es.MAIN_PITCH:
        if k in keys:
            return k
    return 'none'


def key_class(k, keys):
    if k in ('freq', 'midinote', 'note'):
        return '%s<-%s' % (k, top_key(keys))
    if k == 'amp':
        return 'amp<-%s' % next((x for x in ('amp', 'db', 'velocity')
                                 if x in keys), 'default')
    return '%s<-%s' % (k, 'explicit' if k in keys else 'dur*stretch'
                       + ('*legato' if k == 'sustain' else ''))


def check_keys_case(keys, sname):
    """Returns (problems, n_open); problems = [(key, what, observed, expected)]"""
    vals, unspec = es.resolve(keys, ref_scale(sname))
    problems = []
    try:
        ev = make_event(keys, sname)
    except Exception as e:
        return [('event', 'event(**keys) raised %s: %s'
                 % (type(e).__name__, e), repr(e), 'an event')], len(unspec)
    wanted = []
    if 'pitch' not in unspec:
        for k in ('note', 'midinote'):
            if k in vals:
                wanted.append((k, vals[k]))
        if 'harmonic' not in keys and 'detune' not in keys \
                and ('freq' in keys or top_key(keys) != 'none'):
            wanted.append(('freq', vals['freq']))
        if top_key(keys) == 'none' and not any(m in keys for m in MODS):
            wanted.append(('freq', vals['freq']))
    if 'amp' not in unspec:
        wanted.append(('amp', vals['amp']))
    wanted.append(('delta', vals['delta']))
    wanted.append(('sustain', vals['sustain']))
    for k, want in wanted:
        try:
            got = ev(k)
        except Exception as e:
            problems.append((k, "event(...)('%s') raised %s: %s"
                             % (k, type(e).__name__, e), repr(e), want))
            continue
        if isinstance(got, bool) or not isinstance(got, (int, float)) \
                or not es.close(got, want):
            problems.append((k, "event(...)('%s') = %r, chain gives %r"
                             % (k, got, want), got, want))
    return problems, len(unspec)


def check_keys(rep):
    n = 0
    n_open = 0
    distinct = set()
    samples = []
    scale_reported = False
    for tag, keys, sname in key_cases(rep.rng, 6 if rep.tier == 'thorough' else 1):
        if tag == 'mod-only':
            n_open += 1
            continue
        n += 1
        problems, nopen = check_keys_case(keys, sname)
        n_open += 1 if nopen else 0
        if problems and sname != 'major12' and SCALE_MODE['direct']:
            # does the failure come from giving a Scale object as a key?
            SCALE_MODE['direct'] = False
            again, _ = check_keys_case(keys, sname)
            if len(again) < len(problems):
                if not scale_reported:
                    scale_reported = True
                    p = problems[0]
                    rep.violation(
                        obligation='C14.keys.scale',
                        what='event(%s, scale=Scale(%r, et%d)): %s' % (
                            ', '.join('%s=%r' % kv for kv in keys.items()),
                            SCALES[sname][0], SCALES[sname][1], p[1]),
                        input={'keys': keys, 'scale': sname},
                        observed=p[2], expected=p[3],
                        key='C14.keys:explicit-scale-object',
                        replay={'func': 'keys', 'args': enc((keys, sname)),
                                'direct': True})
                    rep.note('C14 keys: a Scale object given as the scale key '
                             'cannot be used on this tree; the remaining '
                             'scale cases pass the same Scale through a '
                             'function-valued key (public feature of event '
                             'keys) so that the chains are still checked.')
                problems = again
            else:
                SCALE_MODE['direct'] = True
        if problems:
            for k, what, obs, exp in problems:
                rep.violation(
                    obligation='C14.keys.' + k,
                    what='%r scale=%s: %s' % (keys, sname, what),
                    input={'keys': keys, 'scale': sname}, observed=obs,
                    expected=exp, key='C14.keys:' + key_class(k, keys),
                    replay={'func': 'keys', 'args': enc((keys, sname))})
        else:
            distinct.add(enc((sorted(keys), sname)))
            if len(samples) < 4 and tag == 'cross' and len(keys) > 5 \
                    and n % 7 == 0:
                vals, _ = es.resolve(keys, ref_scale(sname))
                samples.append({'keys': keys, 'scale': sname,
                                'resolved': vals})
    rep.note('C14 keys left unspecified (recorded, never a violation): '
             + '; '.join(es.OPEN))
    rep.bounded(
        name='keys', function='sc3.seq.event.event(**keys)(key)',
        bound='all value assignments of all subsets of %r (x3 scales), of %r, '
              'of %r, 3 values each; every non-empty pitch assignment x 16 '
              'modifier sets x 3 scales; all 4096 key subsets x 3 scales with '
              'seeded values/modifiers (x6 rounds in the thorough tier)' % (PITCH, AMP, DUR),
        evaluations=n, distinct_nontrivial=len(distinct),
        rule='distinct = key-name set x scale that resolved as documented; '
             'parts of a case the documentation leaves open are skipped',
        samples=samples, exhaustive=True,
        extra={'cases_with_an_unspecified_part': n_open})


# ---------------------------------------------------------------------------
# NRT runs
# ---------------------------------------------------------------------------

def nrt_run(fn, latency):
    from sc3.base.main import main
    from sc3.synth.server import Server
    main.reset()
    Server.default.latency = latency
    CAP.take()
    try:
        fn()
        score = main.process()
        lst = score.list
    finally:
        errors = CAP.take()
        main.reset()
        Server.default.latency = 0
    bundles = []
    end = None
    for b in lst:
        t, msgs = b[0], b[1:]
        for m in msgs:
            if m[0] in ('/g_new', '/d_recv'):
                continue
            if m[0] == '/c_set' and list(m[1:]) == [0, 0]:
                end = t
                continue
            bundles.append((t, len(msgs), list(m)))
    return bundles, end, errors


def pairs_of(msg, start):
    rest = msg[start:]
    if len(rest) % 2:
        return None
    return list(zip(rest[0::2], rest[1::2]))


def check_pairs(pairs, keys, instr, sname, problems, what='/s_new'):
    must, may = es.control_pairs(keys, INSTR[instr]['controls'],
                                 ref_scale(sname))
    if pairs is None:
        problems.append(('pairs', what + ' has an odd number of control '
                         'arguments'))
        return
    seen = set()
    for k, v in pairs:
        if k in seen:
            problems.append(('pairs', '%s repeats control %r' % (what, k)))
        seen.add(k)
        if k in must:
            want = must[k]
        elif k in may:
            want = may[k]
        else:
            problems.append(('pairs', '%s carries %r=%r which is not a '
                             'control of %s that the event defines'
                             % (what, k, v, instr)))
            continue
        if want is None:
            continue
        if isinstance(v, bool) or not isinstance(v, (int, float)) \
                or not es.close(v, want):
            problems.append(('value:' + k, '%s carries %s=%r, the event '
                             'resolves it to %r' % (what, k, v, want)))
    for k in must:
        if k not in seen:
            problems.append(('pairs', '%s lacks the pair for control %r that '
                             'the event defines (%r)' % (what, k, must[k])))


# ---------------------------------------------------------------------------
# (ii) one note event
# ---------------------------------------------------------------------------

SPACING = 8.0


def play_cases(rng, every=3):
    """(keys, instrument, scale_name, server_keys)"""
    i = 0
    for sname in SCALES:
        for keys in assignments(PITCH):
            yield keys, 'c14g', sname, {}
    mods = [{m: v} for m, vs in MODS.items() for v in vs]
    mods += [{m: vs[j] for m, vs in MODS.items()} for j in (0, 1)]
    for sname in SCALES:
        for keys in assignments(PITCH):
            if not keys:
                continue
            i += 1
            yield dict(keys, **mods[i % len(mods)]), 'c14n', sname, {}
    for keys in assignments(AMP):
        for ins in INSTR:
            yield dict(keys, degree=2), ins, 'major12', {}
    for keys in assignments(DUR):
        i += 1
        yield dict(keys, freq=300 + i), 'c14g', 'major12', {}
        if i % 4 == 0:
            yield dict(keys, freq=300 + i), 'c14p', 'major12', {}
            yield dict(keys, freq=300 + i), 'c14n', 'major12', {}
    extras = [{'pan': -0.5}, {'foo': 7}, {'out': 2}, {'pan': 1, 'foo': 1,
                                                     'out': 1, 'zzz': 5}]
    servers = [{}, {'add_action': 'addToTail'}, {'group': 7},
               {'add_action': 'addToHead', 'group': 1},
               {'add_action': 'addToTail', 'group': 12}]
    for sname in SCALES:
        for ps_ in powerset(PITCH):
            for as_ in powerset(AMP):
                for ds_ in powerset(DUR):
                    i += 1
                    if i % every:
                        continue
                    keys = {k: rng.choice(VALUES[k]) for k in ps_ + as_ + ds_}
                    if ps_ and rng.random() < 0.5:
                        for m in rng.sample(list(MODS), rng.randint(1, 3)):
                            keys[m] = rng.choice(MODS[m])
                    keys.update(rng.choice(extras))
                    yield (keys, rng.choice(list(INSTR)), sname,
                           rng.choice(servers))


def run_play_batch(batch, latency):
    """batch: list of (keys, instr, sname, server_keys).  Returns per case the
    logical play time and the bundles observed in its window."""
    from sc3.base.stream import routine
    raised = {}

    def fn():
        @routine
        def r():
            for k, (keys, instr, sname, skeys) in enumerate(batch):
                yield 0.25 if k == 0 else SPACING
                kw = dict(keys, instrument=instr, **skeys)
                try:
                    make_event(kw, sname).play()
                except Exception as e:
                    raised[k] = '%s: %s' % (type(e).__name__, e)
        r.play()

    bundles, end, errors = nrt_run(fn, latency)
    out = []
    for k in range(len(batch)):
        t = 0.25 + SPACING * k
        mine = [b for b in bundles if t - 0.125 <= b[0] < t + SPACING - 0.125]
        out.append((t, mine, raised.get(k)))
    return out


def check_play_case(case, t, bundles, raised, latency, used_ids):
    keys, instr, sname, skeys = case
    problems = []
    if raised:
        return [('exception', 'event(...).play() raised ' + raised)]
    vals, unspec = es.resolve(keys, ref_scale(sname))
    snew = [b for b in bundles if b[2][0] == '/s_new']
    nset = [b for b in bundles if b[2][0] == '/n_set']
    other = [b for b in bundles if b[2][0] not in ('/s_new', '/n_set')]
    if other:
        problems.append(('count', 'unexpected command %r' % (other[0][2],)))
    if len(snew) != 1:
        problems.append(('count', '%d /s_new bundles instead of one'
                         % len(snew)))
        return problems
    bt, nmsgs, msg = snew[0]
    if nmsgs != 1:
        problems.append(('count', 'the /s_new bundle carries %d commands'
                         % nmsgs))
    if not es.close(bt, t + latency):
        problems.append(('time', '/s_new stamped %r, logical time %r + '
                         'latency %r = %r' % (bt, t, latency, t + latency)))
    if len(msg) < 5:
        return problems + [('header', 'short /s_new %r' % (msg,))]
    node_id = msg[2]
    want_head = [instr, es.ADD_ACTIONS[skeys.get('add_action', 'addToHead')],
                 skeys.get('group', 1)]
    if [msg[1], msg[3], msg[4]] != want_head:
        problems.append(('header', '/s_new %r: instrument/add action/group '
                         'should be %r' % (msg[:5], want_head)))
    if isinstance(node_id, bool) or not isinstance(node_id, int) \
            or node_id in used_ids:
        problems.append(('node-id', 'node id %r is not a fresh integer id'
                         % (node_id,)))
    used_ids.add(node_id)
    check_pairs(pairs_of(msg, 5), keys, instr, sname, problems)
    if INSTR[instr]['gate']:
        want = ['/n_set', node_id, 'gate', 0]
        if len(nset) != 1 or nset[0][2] != want:
            problems.append(('gate-off', 'gate-off bundles %r, expected one %r'
                             % ([b[2] for b in nset], want)))
        else:
            gt = nset[0][0]
            wt = t + latency + vals['sustain']
            if not es.close(gt, wt):
                problems.append(('gate-off', 'gate-off stamped %r, expected '
                                 't + latency + sustain = %r + %r + %r = %r'
                                 % (gt, t, latency, vals['sustain'], wt)))
    elif nset:
        problems.append(('gate-off', '%s has no gate but %r was sent'
                         % (instr, nset[0][2])))
    return problems


def check_play(rep, only_case=None):
    cases = list(play_cases(rep.rng, 1 if rep.tier == 'thorough' else 3)) \
        if only_case is None else [only_case[0]]
    n = 0
    distinct = set()
    samples = []
    used_ids = set()
    size = 400
    lats = [0.2, 0.0, 0.05]
    for bi_, start in enumerate(range(0, len(cases), size)):
        batch = cases[start:start + size]
        latency = lats[bi_ % len(lats)] if only_case is None else only_case[1]
        results = run_play_batch(batch, latency)
        for case, (t, bundles, raised) in zip(batch, results):
            n += 1
            keys, instr, sname, skeys = case
            problems = check_play_case(case, t, bundles, raised, latency,
                                       used_ids)
            if problems and sname != 'major12' and SCALE_MODE['direct'] \
                    and any(p[0] == 'exception' for p in problems):
                # known from `keys`: Scale object as key; retry the
                # function-valued way, report nothing new here
                SCALE_MODE['direct'] = False
                r2 = run_play_batch([case], latency)[0]
                problems = check_play_case(case, r2[0], r2[1], r2[2],
                                           latency, used_ids)
                rep.note('C14 play: Scale objects are passed through a '
                         'function-valued scale key (see keys).')
            for aspect, what in problems:
                rep.violation(
                    obligation='C14.play.' + aspect.split(':')[0],
                    what='%s on %s %r (latency %r): %s' % (
                        keys, instr, skeys, latency, what),
                    input={'keys': keys, 'instrument': instr, 'scale': sname,
                           'server_keys': skeys, 'latency': latency},
                    observed=[[b[0], b[2]] for b in bundles], expected=what,
                    key='C14.play:' + aspect,
                    replay={'func': 'play', 'args': enc((case, latency))})
            if not problems:
                distinct.add(enc((sorted(keys), instr, sname, sorted(skeys))))
                if len(samples) < 4 and n % 611 == 0:
                    samples.append({'keys': keys, 'instrument': instr,
                                    'at': t, 'latency': latency,
                                    'bundles': [[b[0], b[2]] for b in bundles]})
    if only_case is None:
        rep.bounded(
            name='play', function='sc3.seq.event.NoteEvent.play (NRT score)',
            bound='every pitch assignment x 3 scales on a gated instrument; '
                  'every non-empty pitch assignment x 3 scales with a rotating '
                  'modifier set; all amp assignments x 3 instruments; all 1024 '
                  'duration assignments on the gated instrument (gate-off '
                  'time) and a quarter on two others; a third (thorough: all) of the 4096x3 '
                  'key subsets with seeded values, extra keys, add actions and '
                  'groups; latencies 0.2/0/0.05',
            evaluations=n, distinct_nontrivial=len(distinct),
            rule='each event is played alone from a routine (8 s apart); '
                 'distinct = key-name set x instrument x scale x server keys '
                 'that met the contract', samples=samples, exhaustive=True)


# ---------------------------------------------------------------------------
# (iii) event stream players
# ---------------------------------------------------------------------------

LEAVES = {
    'A': ('Pbind', {'instrument': 'c14n', 'freq': [100, 200, 300],
                    'dur': [0.5, 0.25, 1]}),
    'B': ('Pbind', {'instrument': 'c14g', 'midinote': [60, 62, 64, 65],
                    'dur': 0.5, 'legato': 0.5}),
    'C': ('Pbind', {'instrument': 'c14n', 'freq': [110, REST(1), 330, 440],
                    'dur': 0.25}),
    'D': ('Pbind', {'instrument': 'c14n', 'degree': [0, 1, 2],
                    'delta': [0.125, 0.5, 0.25], 'dur': 2}),
    'E': ('Pbind', {'instrument': 'c14g', 'note': [1, 6], 'dur': [1, 0.5],
                    'stretch': 0.5, 'db': -6}),
    'F': ('Pbind', {'instrument': 'c14p', 'freq': [500, 600, 700],
                    'dur': 0.75, 'out': [0, 1, 2], 'legato': 2, 'zzz': 3}),
    'G': ('Pbind', {'instrument': 'c14n', 'midinote': [70, 71, 72, 73, 74],
                    'dur': ('pat', ('Pconst', 1.25,
                                    ('Pseq', [0.5, 0.5, 0.5, 0.5], 1, 0))),
                    'sustain': ('pat', ('Pseries', 0.25, 0.25, 4)),
                    'amp': 0.25}),
    'M': ('Pmono', 'c14g', {'freq': [150, 250, 350], 'dur': 0.5,
                            'amp': [0.1, 0.2, 0.3]}),
    'N': ('Pmono', 'c14n', {'freq': [160, 260], 'dur': [0.25, 0.5]}),
}
REST_DUR = ('Pbind', {'instrument': 'c14n', 'freq': [120, 220, 320],
                      'dur': [0.5, REST(0.25), 1]})
REST_TYPE = ('Pbind', {'instrument': 'c14p', 'type': ['note', 'rest', 'note'],
                       'freq': [510, 610, 710], 'dur': 0.75, 'out': [0, 1, 2]})
DURS = ('Pbind', {'dur': [0.125, 0.375, 0.25, 1]})
DVALS = [0.5, 1.0, 1.25, 10]
TVALS = [0.5, 0]


def is_mono(e):
    return e[0] == 'Pmono'


def has_mono(e):
    if e[0] == 'Pmono':
        return True
    if e[0] in ('Pdur', 'Pdelta'):
        return has_mono(e[2])
    if e[0] == 'Pn':
        return has_mono(e[1])
    if e[0] in ('Pseq', 'Ppar'):
        return any(has_mono(x) for x in e[1])
    if e[0] == 'Pchain':
        return has_mono(e[1]) or has_mono(e[2])
    return False


def scenarios(leaves):
    L = list(leaves.values())
    binds = [x for x in L if not is_mono(x)]
    out = []
    for x in L:
        out.append(x)
        for d in DVALS:
            out.append(('Pdur', d, x))
        for t in TVALS:
            out.append(('Pdelta', t, x))
        out.append(('Pseq', [x], 2))
        out.append(('Pn', x, 2))
    for x in binds:
        out.append(('Pchain', DURS, x))
        out.append(('Pchain', ('Pbind', {'stretch': [2, 0.5],
                                         'foo': [5, 6]}), x))
    for x in L:
        for y in L:
            out.append(('Ppar', [x, y]))
            out.append(('Pseq', [x, y], 1))
    depth1 = len(out)
    # depth 2
    for x in L:
        for d in DVALS[:3]:
            for t in TVALS[:1]:
                out.append(('Pdelta', t, ('Pdur', d, x)))
                out.append(('Pdur', d, ('Pdelta', t, x)))
            out.append(('Pdur', d, ('Pn', x, 2)))
            out.append(('Pn', ('Pdur', d, x), 2))
        for y in L:
            for d in DVALS[:3]:
                out.append(('Pdur', d, ('Ppar', [x, y])))
                out.append(('Ppar', [('Pdur', d, x), y]))
                out.append(('Pseq', [('Pdur', d, x), y], 1))
                out.append(('Pdur', d, ('Pseq', [x, y], 2)))
            out.append(('Ppar', [('Pdelta', 0.5, x), y]))
            out.append(('Ppar', [('Pdelta', 0.375, x), ('Pdelta', 1, y)]))
            out.append(('Pdelta', 0.5, ('Ppar', [x, y])))
            out.append(('Pseq', [('Pdelta', 0.25, x), y], 2))
            out.append(('Pn', ('Ppar', [x, y]), 2))
            for z in L[::3]:
                out.append(('Ppar', [('Ppar', [x, y]), z]))
                out.append(('Pseq', [('Ppar', [x, y]), z], 1))
                out.append(('Ppar', [('Pseq', [x, y], 1), z]))
    # three and four parallel voices of different lengths: a voice that ends
    # while no other voice has an event makes Ppar insert a rest, after which
    # at least two voices must still keep their own timelines
    import itertools as _it
    for trio in _it.combinations(L, 3):
        out.append(('Ppar', list(trio)))
    for quad in list(_it.combinations(L, 4))[::7]:
        out.append(('Ppar', list(quad)))
    t1 = ('Pbind', {'instrument': 'c14n', 'freq': [101, 102], 'dur': 0.5})
    t2 = ('Pbind', {'instrument': 'c14n', 'freq': [201, 202, 203, 204], 'dur': 0.75})
    t3 = ('Pbind', {'instrument': 'c14n', 'freq': [301, 302, 303, 304], 'dur': 0.8})
    out.append(('Ppar', [t1, t2, t3]))
    out.append(('Ppar', [t3, t1, t2]))
    out.append(('Pdur', 3.0, ('Ppar', [t1, t2, t3])))
    for x in binds:
        for y in L:
            out.append(('Ppar', [('Pchain', DURS, x), y]))
            out.append(('Pseq', [('Pchain', DURS, x), y], 1))
        for d in DVALS[:3]:
            out.append(('Pdur', d, ('Pchain', DURS, x)))
        out.append(('Pdelta', 0.5, ('Pchain', DURS, x)))
    return out, depth1


def build_events(expr):
    from sc3.seq.patterns import listpatterns as lp
    from sc3.seq.patterns import filterpatterns as fp
    from sc3.seq.patterns import eventpatterns as ep
    from sc3.seq.event import Rest

    def val(v):
        if isinstance(v, tuple) and v and v[0] == 'Rest':
            return Rest(v[1])
        if isinstance(v, tuple) and v and v[0] == 'pat':
            from vf.specs import patterns
            return patterns.build(v[1])
        return v

    def mapping(m):
        return {k: (lp.Pseq([val(x) for x in v], 1) if isinstance(v, list)
                    else val(v)) for k, v in m.items()}

    name = expr[0]
    if name == 'Pbind':
        return ep.Pbind(mapping(expr[1]))
    if name == 'Pmono':
        return ep.Pmono(expr[1], mapping(expr[2]))
    if name == 'Pdur':
        return fp.Pdur(expr[1], build_events(expr[2]))
    if name == 'Pdelta':
        return fp.Pdelta(expr[1], build_events(expr[2]))
    if name == 'Pseq':
        return lp.Pseq([build_events(x) for x in expr[1]], expr[2])
    if name == 'Pn':
        return fp.Pn(build_events(expr[1]), expr[2])
    if name == 'Ppar':
        return ep.Ppar(*[build_events(x) for x in expr[1]])
    if name == 'Pchain':
        return ep.Pchain(build_events(expr[1]), build_events(expr[2]))
    raise ValueError(name)


def run_player(expr, ctx):
    """ctx = (t0, clock, latency, proto).  Returns bundles, end, errors."""
    from sc3.base.stream import routine
    from sc3.base.clock import TempoClock
    from sc3.seq.event import event
    t0, clock, latency, proto = ctx
    raised = []

    def start():
        p = build_events(expr)
        kw = {}
        if clock == 'tempo':
            kw['clock'] = TempoClock(1)
        if proto:
            kw['proto'] = event(c14proto=1)
        try:
            p.play(**kw)
        except Exception as e:
            raised.append('%s: %s' % (type(e).__name__, e))

    def fn():
        if t0 == 0:
            start()
        else:
            @routine
            def r():
                yield t0
                start()
            r.play()

    bundles, end, errors = nrt_run(fn, latency)
    return bundles, end, raised + errors


def check_player_case(expr, ctx):
    """[(aspect, what)]"""
    t0, clock, latency, proto = ctx
    items, total = es.timeline(expr, t0)
    bundles, end, errors = run_player(expr, ctx)
    problems = []
    if errors:
        problems.append(('exception', 'playing raised/logged: '
                         + errors[0][:300]))
    exp_new = [(t, ev, kind) for t, ev, kind in items
               if kind in ('note', 'mono_on')]
    exp_set = [(t, ev, kind) for t, ev, kind in items if kind == 'mono_set']
    snew = [b for b in bundles if b[2][0] == '/s_new']
    nset = [b for b in bundles if b[2][0] == '/n_set']
    nfree = [b for b in bundles if b[2][0] == '/n_free']
    other = [b for b in bundles
             if b[2][0] not in ('/s_new', '/n_set', '/n_free')]
    if other:
        problems.append(('count', 'unexpected command %r' % (other[0][2],)))

    def played(ev):
        keys = {k: es._num(v) for k, v in ev.items()
                if k not in ('instrument', 'type')}
        return es.resolve(keys)[0], keys

    def okey(b):
        pr = dict(pairs_of(b[2], 5) or [])
        return (round(b[0], 7), b[2][1], pr.get('freq', -1.0))

    def ekey(x):
        vals, _ = played(x[1])
        return (round(x[0] + latency, 7), x[1]['instrument'], vals['played'])

    if len(snew) != len(exp_new):
        problems.append(('count', '%d /s_new commands, the pattern has %d '
                         'sounding events; times %r vs %r' % (
                             len(snew), len(exp_new),
                             [b[0] for b in snew],
                             [t + latency for t, _, _ in exp_new])))
        return problems
    ids = set()
    mono_ids = {}
    gated = []
    born = {}
    for b, x in zip(sorted(snew, key=okey), sorted(exp_new, key=ekey)):
        t, ev, kind = x
        vals, keys = played(ev)
        instr = ev['instrument']
        msg = b[2]
        if not es.close(b[0], t + latency):
            problems.append(('time', '/s_new %r stamped %r, expected start + '
                             'sum of deltas + latency = %r' % (
                                 msg[1:3], b[0], t + latency)))
        if msg[1] != instr or msg[3] != 0 or msg[4] != 1:
            problems.append(('header', '/s_new %r, expected instrument %r, '
                             'add action 0, group 1' % (msg[:5], instr)))
        if msg[2] in ids:
            problems.append(('node-id', 'node id %r used twice' % (msg[2],)))
        ids.add(msg[2])
        check_pairs(pairs_of(msg, 5), keys, instr, 'major12', problems)
        if kind == 'mono_on':
            mono_ids[msg[2]] = instr
        elif INSTR[instr]['gate']:
            gated.append((t + latency, t + latency + vals['sustain']))
            born[msg[2]] = b[0]
    # gate-offs of note events
    offs = [b for b in nset if b[2][2:] == ['gate', 0]
            and b[2][1] not in mono_ids]
    want_offs = sorted(gated)
    got_offs = sorted((born.get(b[2][1], -1.0), b[0]) for b in offs)
    if len(want_offs) != len(got_offs) or any(
            not es.close(a[0], b[0]) or not es.close(a[1], b[1])
            for a, b in zip(want_offs, got_offs)) \
            or len(set(b[2][1] for b in offs)) != len(offs):
        problems.append(('gate-off', 'gate-off commands (/s_new time, gate-off '
                         'time) %r, expected one per gated note at + sustain: '
                         '%r' % (got_offs, want_offs)))
    # Pmono updates
    sets = [b for b in nset if b not in offs and not (
        b[2][1] in mono_ids and b[2][2:] == ['gate', 0])]
    if len(sets) != len(exp_set):
        problems.append(('count', '%d /n_set updates, Pmono has %d '
                         'continuation events' % (len(sets), len(exp_set))))
    else:
        for b, x in zip(sorted(sets, key=lambda b: (round(b[0], 7),
                                                   dict(pairs_of(b[2], 2) or []).get('freq', -1))),
                        sorted(exp_set, key=lambda x: (round(x[0] + latency, 7),
                                                       played(x[1])[0]['played']))):
            t, ev, _ = x
            vals, keys = played(ev)
            if not es.close(b[0], t + latency):
                problems.append(('time', 'Pmono /n_set stamped %r, expected '
                                 '%r' % (b[0], t + latency)))
            if b[2][1] not in mono_ids:
                problems.append(('node-id', 'Pmono /n_set addresses node %r, '
                                 'not the synth it created' % (b[2][1],)))
            check_pairs(pairs_of(b[2], 2), keys, ev['instrument'], 'major12',
                        problems, 'Pmono /n_set')
    # every mono synth is released once, not before its last event
    for nid, instr in mono_ids.items():
        rel = [b for b in nset if b[2][1] == nid and b[2][2:] == ['gate', 0]]
        rel += [b for b in nfree if b[2][1:] == [nid]]
        if len(rel) != 1:
            problems.append(('release', 'Pmono synth %r released %d times'
                             % (nid, len(rel))))
    stray = [b for b in nfree if b[2][1] not in mono_ids]
    if stray:
        problems.append(('count', 'unexpected %r' % (stray[0][2],)))
    if end is None or not es.close(end, total):
        problems.append(('total', 'the player ended at %r, start + total '
                         'duration = %r' % (end, total)))
    return problems


def outer_inner(expr):
    def inner(e):
        if e[0] in ('Pdur', 'Pdelta'):
            return e[2][0]
        if e[0] == 'Pn':
            return e[1][0]
        if e[0] in ('Pseq', 'Ppar'):
            return '+'.join(sorted(set(x[0] for x in e[1])))
        if e[0] == 'Pchain':
            return e[2][0]
        return ''
    i = inner(expr)
    return expr[0] + ('/' + i if i else '')


# aspects whose failing site is the composition (timing/number of events);
# the others (pairs, values, header, node ids, gate-off) belong to the event
COMPOSITIONAL = ('time', 'count', 'total', 'exception', 'release')
CONTEXTS = [(0, 'default', 0.0), (1.5, 'tempo', 0.2), (0, 'tempo', 0.2),
            (1.5, 'default', 0.0)]


def check_player(rep):
    n = 0
    distinct = set()
    samples = []
    proto = False
    leaves = dict(LEAVES)

    def report(expr, ctx, problems, key=None):
        for aspect, what in problems:
            rep.violation(
                obligation='C14.player.' + aspect.split(':')[0],
                what='%s played at %r on the %s clock, latency %r%s: %s' % (
                    enc(expr), ctx[0], ctx[1], ctx[2],
                    ' (proto event)' if ctx[3] else '', what),
                input={'pattern': enc(expr), 'start': ctx[0], 'clock': ctx[1],
                       'latency': ctx[2], 'proto': ctx[3]},
                observed=what, expected='see vf/specs/events.timeline',
                key=key or ('C14.player:%s:%s' % (outer_inner(expr), aspect)
                            if aspect.split(':')[0] in COMPOSITIONAL
                            else 'C14.player:' + aspect),
                replay={'func': 'player', 'args': enc((expr, ctx))})

    # canaries: defects that would otherwise mask everything below them
    canary = ('Pdur', 1.25, LEAVES['A'])
    ctx = (0, 'default', 0.0, False)
    n += 1
    problems = check_player_case(canary, ctx)
    if problems:
        again = check_player_case(canary, (0, 'default', 0.0, True))
        if not again:
            report(canary, ctx, problems[:1],
                   key='C14.player:Pdur-over-Pbind-default-proto')
            proto = True
            rep.note('C14 player: Pdur over a Pbind fails when played with '
                     'the default (dict) prototype event on this tree; all '
                     'player scenarios are therefore played with '
                     'proto=event(c14proto=1) (a public parameter of '
                     'Pattern.play) so that timing and clipping are still '
                     'checked.')
        else:
            report(canary, ctx, problems)
    n += 1
    ctx = (0, 'default', 0.0, proto)
    problems = check_player_case(REST_DUR, ctx)
    if problems:
        report(REST_DUR, ctx, problems[:1],
               key='C14.player:Rest-as-dur-stops-player')
        rep.note('C14 player: a Rest given as dur stops the player on this '
                 'tree; the other scenarios use rests in non-duration keys '
                 "and type='rest' only.")
    else:
        leaves['R'] = REST_DUR
    n += 1
    problems = check_player_case(REST_TYPE, ctx)
    if problems:
        report(REST_TYPE, ctx, problems[:1],
               key='C14.player:type-rest-stops-player')
        rep.note("C14 player: an event of type 'rest' stops the player on "
                 'this tree; the other scenarios use Rest values in '
                 'non-duration keys only.')
    else:
        leaves['T'] = REST_TYPE
    exprs, depth1 = scenarios(leaves)
    for i, expr in enumerate(exprs):
        try:
            es.timeline(expr)
        except es.Unspecified:
            continue
        if i < depth1 or rep.tier == 'thorough':
            ctxs = CONTEXTS
        else:
            ctxs = [CONTEXTS[i % len(CONTEXTS)]]
        for t0, clock, latency in ctxs:
            ctx = (t0, clock, latency, proto)
            n += 1
            problems = check_player_case(expr, ctx)
            if problems:
                report(expr, ctx, problems)
            else:
                distinct.add(enc(expr))
                if len(samples) < 4 and i % 397 == 5:
                    items, total = es.timeline(expr, t0)
                    samples.append({'pattern': enc(expr), 'start': t0,
                                    'times': [t for t, _, _ in items],
                                    'total': total})
    rep.bounded(
        name='player',
        function='sc3.seq.eventstream.EventStreamPlayer over Pbind/Pmono/Ppar/'
                 'Pchain/Pdur/Pdelta/Pseq/Pn (NRT score)',
        bound='%d leaves (Pbind with dur/delta/stretch/legato/rests, Pmono with '
              'and without gate); all depth-1 compositions x 4 start contexts '
              '(time 0 / 1.5, default clock / TempoClock(1), latency 0 / 0.2); '
              'depth-2 compositions over all leaf pairs (triples sampled) '
              'x 1 rotating context (all 4 in the thorough tier)' % len(leaves),
        evaluations=n, distinct_nontrivial=len(distinct),
        rule='distinct = pattern expressions whose score met the timeline of '
             'vf/specs/events.timeline in every context tried',
        samples=samples, exhaustive=True,
        extra={'played_with_proto_event': proto})


# ---------------------------------------------------------------------------

def main(rep):
    setup()
    if wants(rep, 'keys'):
        check_keys(rep)
    if wants(rep, 'play'):
        check_play(rep)
        check_replayed_events(rep)
    if wants(rep, 'player'):
        check_player(rep)


def check_replayed_events(rep):
    """The SAME event object played several times, with explicitly given control
    keys changed (or added) in between: every play sends one /s_new carrying the
    values the event has at that play."""
    from sc3.base.stream import routine
    from sc3.seq.event import event
    n = 0
    distinct = set()
    for instr, spec in INSTR.items():
        ctl = [c for c in spec['controls'] if c not in ('gate', 'dur', 'legato', 'sustain')]
        for rounds in ([{'freq': 440.0, ctl[1]: 0.25}, {'freq': 660.0, ctl[1]: 0.5}],
                       [{'freq': 220.0}, {'freq': 220.0, ctl[1]: 0.125}, {'freq': 330.0, ctl[1]: 0.75}],
                       [{ctl[1]: 0.5, 'freq': 100.0}, {ctl[1]: 0.5, 'freq': 100.0, ctl[-1]: 0.375}]):
            n += 1
            distinct.add((instr, json.dumps(rounds)))

            def fn(instr=instr, rounds=rounds):
                @routine
                def r():
                    ev = event(dict(rounds[0], instrument=instr, dur=1.0))
                    for k, keys in enumerate(rounds):
                        if k:
                            for name, val in keys.items():
                                ev[name] = val
                        ev.play()
                        yield 2.0
                r.play()
            bundles, end, errors = nrt_run(fn, 0.0)
            snew = [b for b in bundles if b[2][0] == '/s_new']
            bad = None
            if len(snew) != len(rounds):
                bad = '%d /s_new bundles for %d plays' % (len(snew), len(rounds))
            else:
                for k, (keys, b) in enumerate(zip(rounds, snew)):
                    got = dict(pairs_of(b[2], 5) or [])
                    for name, val in keys.items():
                        if name in spec['controls'] and (name not in got or not es.close(got[name], val)):
                            bad = 'play %d of the same event object: /s_new carries %s=%r, the event has %r' % (
                                k + 1, name, got.get(name), val)
                            break
                    if bad:
                        break
            if bad:
                rep.violation(obligation='C14.play.replayed-event',
                              what='%s on %s with keys %r: %s' % ('event played %d times' % len(rounds), instr, rounds, bad),
                              input={'instrument': instr, 'rounds': rounds},
                              key='C14.play:replayed-event-stale-values')
    rep.bounded(name='replayed-events', function='sc3.seq.event (ServerKeys._get_msg_params, play)',
                bound='3 instruments x 3 key-change histories of the same event object',
                evaluations=n, distinct_nontrivial=len(distinct),
                rule='explicit control keys changed or added between plays of one event object',
                samples=[{'instrument': 'c14g', 'rounds': [{'freq': 440.0, 'amp': 0.25}, {'freq': 660.0, 'amp': 0.5}]}],
                exhaustive=True)


def replay(case, rep):
    setup()
    r = case.get('replay') or {}
    func = r.get('func')
    if func == 'keys':
        keys, sname = dec(r['args'])
        if r.get('direct') is not None:
            SCALE_MODE['direct'] = bool(r['direct'])
        problems, _ = check_keys_case(keys, sname)
        for k, what, obs, exp in problems:
            rep.violation(obligation='C14.keys.' + k, what=what,
                          input=case.get('input'), observed=obs, expected=exp,
                          key=case.get('key'))
    elif func == 'play':
        c, latency = dec(r['args'])
        sub = Report('C14', 'quick', 0)
        sub.only = None
        check_play(sub, only_case=(tuple(c), latency))
        rep.violations.extend(sub.violations)
    elif func == 'player':
        expr, ctx = dec(r['args'])
        for aspect, what in check_player_case(expr, tuple(ctx)):
            rep.violation(obligation='C14.player.' + aspect, what=what,
                          input=case.get('input'), key=case.get('key'))
    return not rep.violations


if __name__ == '__main__':
    driver_main('C14', main, replay)
