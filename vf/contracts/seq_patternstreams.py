"""Contracts for the streams made from patterns, sc3/seq/eventstream.py (C13: "Patterns are immutable blueprints: every
stream made from one pattern yields the same sequence ... and streams never influence one another or the pattern"):

  PatternValueStream.next(inval)   first call: THE pattern is embedded once with the input value (stm.embed) and the first
                                   value of that embedding is returned; later calls: the input value is SENT to the same
                                   embedding and its answer returned; the end of the embedding (StopIteration) surfaces as
                                   StopStream; nothing of the pattern is written
  PatternValueStream.reset         the embedding is dropped: the next call embeds the pattern afresh
  PatternEventStream.next(inevent) the same with an empty dictionary standing in for a missing/empty input event

The embedding (a generator) is a ghost object: `next(g)` / `g.send(x)` are events with outcomes value / StopIteration.
"""
import z3
from vf.pyvc.spec import contract, REGISTRY
from vf.pyvc.values import *
from vf.pyvc.engine import Raised, Unsupported

F = 'sc3/seq/eventstream.py'
EMBED = 'sc3/base/stream.py::embed'
HAS_GEN = z3.Bool('an_embedding_exists')


def ps_embed(eng, selfv, args, kwargs, st, node):
    g = V('ref', cls='Gen', oid='new-embedding')
    st.trace.append(('embed', tuple(args), g))
    return [(st, g)]


def gen_step(kind):
    def f(eng, g, args, st, node):
        ok, bad = st, st.fork()
        v = V('obj', oid='answer!%d' % next(eng.counter))
        ok.trace.append((kind, g, tuple(args), v))
        bad.trace.append((kind + '-ended', g, tuple(args)))
        return [(ok, v), (bad, Raised(eng.make_exc('StopIteration', node=node)))]
    return f


def ps_builtin(eng, name, args, kwargs, st, node):
    if name == 'next' and len(args) == 1 and args[0].k == 'ref' and args[0].cls == 'Gen':
        return gen_step('first')(eng, args[0], [], st, node)
    return None


def ps_getattr(eng, obj, name, st, node):
    if obj.k == 'ref' and obj.cls == 'Gen' and name == 'send':
        def send(eng, a, kw, st, node, _g=obj):
            return gen_step('send')(eng, _g, a, st, node)
        return [(st, V('func', py=('spec', send)))]
    if obj.k == 'ref' and obj.oid == 'self' and name == '_stream':
        cur = st.objs.get('self', {}).get('_stream')
        if cur is None:
            return [(st, V('ref', cls='Gen', oid='old-embedding', extra={'maybe_none': z3.Not(HAS_GEN)}))]
    if obj.k == 'module' and name == 'StopStream':
        return [(st, V('class', py='StopStream'))]
    return None


def ps_compare(eng, op, a, b, st, node):
    import ast
    if isinstance(op, (ast.Is, ast.IsNot)):
        for p, q in ((a, b), (b, a)):
            if p.k == 'ref' and p.extra and 'maybe_none' in p.extra and q.k == 'none':
                r = p.extra['maybe_none']
                return z3.Not(r) if isinstance(op, ast.IsNot) else r
    return None


def input_ok(c, v, event_stream):
    if not event_stream:
        return v is c._params['inval']
    p = c._params['inevent']
    if c.kinds.get('inevent') == 'none':
        return v.k in ('dict0', 'obj') and (v.k == 'dict0' or str(v.oid).startswith('new!dict!'))
    return v is p or (v.k in ('dict0', 'obj') and (v.k == 'dict0' or str(v.oid).startswith('new!dict!')))


def next_post(event_stream):
    def post(c):
        t = c.trace
        em = [e for e in t if e[0] == 'embed']
        first = [e for e in t if e[0] == 'first']
        send = [e for e in t if e[0] == 'send']
        kept = c.st.objs.get('self', {}).get('_stream')
        if em:
            ok = (len(em) == 1 and len(em[0][1]) == 2 and em[0][1][0].k == 'obj' and em[0][1][0].oid == 'self.pattern'
                  and input_ok(c, em[0][1][1], event_stream) and len(first) == 1 and not send and first[0][1] is em[0][2]
                  and c.resultv is first[0][3] and kept is em[0][2])                   # THE pattern, once, with the input; kept
            return z3.And(z3.Not(HAS_GEN), z3.BoolVal(bool(ok)))
        ok = (len(send) == 1 and not first and send[0][1].oid == 'old-embedding' and len(send[0][2]) == 1
              and input_ok(c, send[0][2][0], event_stream) and c.resultv is send[0][3]
              and (kept is None or (kept.k == 'ref' and kept.oid == 'old-embedding')))  # the SAME embedding goes on
        return z3.And(HAS_GEN, z3.BoolVal(bool(ok)))
    return post


def ended(c):
    t = c.trace
    return z3.BoolVal(bool([e for e in t if e[0] in ('first-ended', 'send-ended')]))


FIELDS = {'pattern': 'obj', '_stream': 'obj'}
contract(F, 'PatternValueStream.next', props=('C13',), params={'self': 'self', 'inval': 'obj'},
         ensures=[('first-call:the-pattern-embedded-once-with-the-input;later:the-input-sent-to-the-same-embedding', next_post(False))],
         raises={'StopStream': None}, on_raise=[('only-when-the-embedding-ended', ended)],
         fields={'PatternValueStream': FIELDS, 'Gen': {}}, class_modules={'PatternValueStream': F, 'Gen': F},
         hooks={'getattr': ps_getattr, 'builtin_first': ps_builtin, 'compare': ps_compare}, policies={EMBED: ps_embed},
         modifies=[('self', '_stream')], native=False)
contract(F, 'PatternEventStream.next', props=('C13',), params={'self': 'self', 'inevent': ['none', 'obj']},
         ensures=[('first-call:the-pattern-embedded-once-with-the-input-event;later:it-is-sent-to-the-same-embedding', next_post(True))],
         raises={'StopStream': None}, on_raise=[('only-when-the-embedding-ended', ended)],
         fields={'PatternEventStream': FIELDS, 'Gen': {}}, class_modules={'PatternEventStream': F, 'PatternValueStream': F, 'Gen': F},
         hooks={'getattr': ps_getattr, 'builtin_first': ps_builtin, 'compare': ps_compare}, policies={EMBED: ps_embed},
         modifies=[('self', '_stream')], native=False)


def reset_post(c):
    kept = c.st.objs.get('self', {}).get('_stream')
    return z3.BoolVal(kept is not None and kept.k == 'none')


contract(F, 'PatternValueStream.reset', props=('C13',), params={'self': 'self'},
         ensures=[('the-embedding-is-dropped', reset_post)],
         fields={'PatternValueStream': FIELDS}, class_modules={'PatternValueStream': F}, modifies=[('self', '_stream')], native=False)


# ---- EventStreamPlayer.play / resume (C14: the player is a routine on a clock: its timeline is the clock's) ----------------------
# play: an optional reset first; then only a player that has not started or is paused is made ready and handed - once - to
# the clock given, or else the clock of the calling thread, with the quant; a player that runs or has ended is left alone.
# resume: only a paused player, on the clock given or else the one it was played on.
from ._common import MAIN_FIELDS, TT_FIELDS
from .base_stream import STATES


def ep_getattr(eng, obj, name, st, node):
    if obj.k == 'ref' and obj.oid == 'self' and name in ('State',):
        return [(st, V('enumcls'))]
    if obj.k == 'int' and name in STATES:                      # `self.state.Paused` (an enum member reaches its siblings)
        return [(st, vint(STATES[name]))]
    if obj.k == 'enumcls' and name in STATES:
        return [(st, vint(STATES[name]))]
    if obj.k == 'obj' and name == 'play':
        def play(eng, a, kw, st, node, _o=obj):
            st.trace.append(('clock-play', _o, tuple(a)))
            return [(st, NONE)]
        return [(st, V('func', py=('spec', play)))]
    return None


def ep_reset(eng, selfv, args, kwargs, st, node):
    st.trace.append(('reset-first',))
    z = z3.Int('state_after_reset')
    st.pc.append(z3.And(z >= 1, z <= 5))
    st.objs.setdefault('self', {})['state'] = vint(z)          # whatever reset leaves (its own contract: base_stream)
    return [(st, NONE)]


def play_post(c):
    t = c.trace
    plays = [e for e in t if e[0] == 'clock-play']
    resets = [e for e in t if e[0] == 'reset-first']
    want_reset = c.reset if c.kinds.get('reset') == 'bool' else z3.BoolVal(False)
    s0 = z3.If(z3.BoolVal(bool(resets)), z3.Int('state_after_reset'), c.pre.self.state)
    startable = z3.Or(s0 == STATES['Init'], s0 == STATES['Paused'])
    cl = [z3.BoolVal(len(resets) == 1) == want_reset, z3.BoolVal(not resets) == z3.Not(want_reset),
          z3.BoolVal(all(t.index(r) < t.index(p) for r in resets for p in plays))]
    if not plays:
        cl += [z3.Not(startable), c.post.self.state == s0]
        return z3.And(*cl)
    if len(plays) != 1 or len(plays[0][2]) != 2:
        return z3.BoolVal(False)
    clk, (who, quant) = plays[0][1], plays[0][2]
    given = c._params['clock']
    right = (clk is given) if given.k != 'none' else (clk.k == 'obj' and str(clk.oid).endswith('current_tt._clock'))
    ok = right and who.k == 'ref' and who.oid == 'self' and quant is c._params['quant']
    cl += [startable, c.post.self.state == STATES['Suspended'], z3.BoolVal(bool(ok))]
    return z3.And(*cl)


contract(F, 'EventStreamPlayer.play', props=('C14',),
         params={'self': 'self', 'clock': ['none', 'obj'], 'quant': 'obj', 'reset': 'bool'},
         requires=lambda c: z3.And(c.pre.self.state >= 1, c.pre.self.state <= 5),
         ensures=[('optional-reset-first;only-a-fresh-or-paused-player:made-ready-and-played-once-on-the-given-or-the-callers-clock', play_post)],
         fields={'EventStreamPlayer': {'state': 'int', '_clock': 'obj', '_state_lock': 'obj'}, 'Main': MAIN_FIELDS, 'TimeThread': TT_FIELDS},
         class_modules={'EventStreamPlayer': F}, hooks={'getattr': ep_getattr},
         policies={'EventStreamPlayer.reset': ep_reset}, modifies=[('self', 'state')], native=False)
