"""Ghost lemma functions for the OSC time conversions (C07)."""
from sc3.base import clock as clk


def osc_time_monotone(x, y):
    # x <= y (precondition)
    return clk.SystemClock.elapsed_time_to_osc(x) <= clk.SystemClock.elapsed_time_to_osc(y)


def osc_time_roundtrip_error(x):
    # returns x - back(x); must lie in [0, 2**-32) for x >= 0
    return x - clk.SystemClock.osc_to_elapsed_time(clk.SystemClock.elapsed_time_to_osc(x))


def elapsed_roundtrip_exact(t):
    # integer timetags survive the round trip exactly
    return clk.SystemClock.elapsed_time_to_osc(clk.SystemClock.osc_to_elapsed_time(t)) == t
