# vf/drivers/C17.py    run as:  /venv/bin/python -m vf.drivers.C17 --tier quick --seed 0 --out f.json
"""C17 -- client objects speak the server command protocol and keep ids
consistent.

Every OSC message is captured at the single choke point of NRT mode
(``main._osc_interface.send_msg / send_bundle``), re-encoded with the
library's own encoder exactly as the NRT score does, decoded again with the
independent OSC decoder of vf/specs/server_cmds.py and judged there against
the Server Command Reference grammar.

Clauses (violation keys are ``C17.<clause>:<site>``):

conform  every emitted message (completion messages included) conforms;
ids      it mentions only node / buffer / bus ids the client obtained
         (ids of the objects created so far, root 0, the default groups,
         -1 where the reference gives it a meaning);
create   creating an object emits its creation command with the object's id,
         add action number and target id;
cmd      a method emits its command with the object's id;
order    (Buffer.cue) arguments in the positions of the reference;
free     free emits the matching free command for every owned id exactly
         once, a second free emits none; Buffer.free_all: one /b_free per
         allocated buffer number; after everything is freed the allocators
         can hand out every index of the client's partition again;
bind     commands issued inside ``with server.bind():`` reach the wire as ONE
         bundle, in issue order, at block exit -- nothing while the block runs
         and nothing at all if it raises (differential: the same history run
         without bind()).

Sub-checks (``--only``): singles (every applicable operation after a fixture,
with bind/raise variants), pairs (all pairs over a reduced alphabet), random
(random histories over the full alphabet with random bind structure).
"""
import os
import concurrent.futures as cf
import multiprocessing as mp
import random

from vf.common import driver_main, wants, silence_sc3_logging
from vf.specs import server_cmds as sc

NPROC = 16
ACTIONS = ['addToHead', 'addToTail', 'addBefore', 'addAfter', 'addReplace']
ACTNUM = {a: i for i, a in enumerate(ACTIONS)}   # Server Command Reference
CONV = {'addToHead': 'head', 'addToTail': 'tail', 'addBefore': 'before',
        'addAfter': 'after', 'addReplace': 'replace'}
CREATE_CMD = {'Synth': '/s_new', 'Group': '/g_new', 'ParGroup': '/p_new'}
PER_CLIENT = 16   # buffers, control buses and private audio buses per client
DEFNAME = 'c17def'
PATH = '/nonexistent/c17.wav'


class _Boom(Exception):
    """Raised by the driver inside bind() blocks."""


def _pycopy(x):
    if isinstance(x, (list, tuple)):
        return [_pycopy(v) for v in x]
    if isinstance(x, (bytes, bytearray, memoryview)):
        return bytes(x)
    return x


def _first_chooser(lst):
    return sorted(lst, key=lambda b: (getattr(b, 'start', 0), repr(b)))[0]


# --------------------------------------------------------------------------
# environment: one per process
# --------------------------------------------------------------------------

class Env:
    _inst = {}

    @classmethod
    def get(cls):
        pid = os.getpid()
        if pid not in cls._inst:
            cls._inst[pid] = cls()
        return cls._inst[pid]

    def __init__(self):
        silence_sc3_logging()
        import warnings
        warnings.simplefilter('ignore')
        import sc3
        sc3.init('nrt')
        from sc3.base import main as _m
        from sc3.base import builtins as bi
        from sc3.base.netaddr import NetAddr
        from sc3.synth.server import Server, ServerOptions
        from sc3.synth import node, buffer, bus
        self.main = _m.main
        self.iface = _m.main._osc_interface
        bi.choice = _first_chooser          # deterministic tie-breaks
        self.Server = Server
        self.node, self.buffer, self.bus = node, buffer, bus
        o = ServerOptions()
        o.max_logins = 4
        o.control_buses = 4 * PER_CLIENT
        o.audio_buses = o.first_private_bus() + 4 * PER_CLIENT
        o.buffers = 4 * PER_CLIENT
        self.server = Server('c17_%d' % os.getpid(),
                             NetAddr('127.0.0.1', 57333), o)
        Server.default = self.server
        self.events = []
        self._depth = 0
        self._install_capture()
        self._synthdef = None
        self.part = {}
        for cid in range(4):
            self.part[cid] = {k: self.count_free(cid, k, fresh=True)
                              for k in ('buffer', 'control', 'audio')}
        self.server._set_client_id(0)

    # -- capture -------------------------------------------------------------
    def _install_capture(self):
        iface = self.iface
        orig_msg, orig_bndl = iface.send_msg, iface.send_bundle
        env = self

        def send_msg(target, *args):
            c = _pycopy(args)
            env._depth += 1
            try:
                orig_msg(target, *args)
            finally:
                env._depth -= 1
            if env._depth == 0:
                env._record('msg', None, [c])

        def send_bundle(target, time, *elements):
            c = _pycopy(elements)
            env._depth += 1
            try:
                orig_bndl(target, time, *elements)
            finally:
                env._depth -= 1
            if env._depth == 0:
                env._record('bundle', time, c)

        iface.send_msg = send_msg
        iface.send_bundle = send_bundle

    def _record(self, kind, time, elems):
        st = self.main.current_tt._seconds
        ev = {'kind': kind, 'py': elems, 'msgs': [], 'bad': None}
        try:
            if kind == 'msg':
                dgram = self.iface._build_msg(st, list(elems[0])).dgram
            else:
                dgram = self.iface._build_bundle(st, [time] + elems).dgram
            ev['msgs'] = sc.flatten_packet(sc.decode_packet(dgram))
        except sc.OscDecodeError as e:
            ev['bad'] = 'the encoded packet does not decode: %s' % e
        self.events.append(ev)

    # -- helpers -------------------------------------------------------------
    def reset(self, cid):
        self.server._set_client_id(cid)
        self.events = []

    def synthdef(self):
        if self._synthdef is None:
            from sc3.synth.synthdef import SynthDef
            from sc3.synth.ugens import Out, SinOsc
            self._synthdef = SynthDef(
                DEFNAME, lambda freq=440, amp=0.1: Out.ar(
                    0, SinOsc.ar(freq) * amp))
        return self._synthdef

    def new_single(self, kind):
        """One index through the public objects, without OSC traffic.
        Returns the object or None when the library reports no space."""
        try:
            if kind == 'buffer':
                return self.buffer.Buffer(1, 1, self.server, alloc=False)
            if kind == 'control':
                return self.bus.ControlBus(1, self.server)
            return self.bus.AudioBus(1, self.server)
        except self.bus.BusException:
            return None
        except Exception as e:
            if 'buffer numbers' in str(e):
                return None
            raise

    def count_free(self, cid, kind, fresh=False):
        if fresh:
            self.server._set_client_id(cid)
        n = 0
        while n < 100000 and self.new_single(kind) is not None:
            n += 1
        if fresh:
            self.server._set_client_id(cid)
        return n
