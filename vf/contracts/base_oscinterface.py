"""Contracts for bundle time stamping (C07): sc3/base/_oscinterface.py and the
SystemClock OSC time conversions in sc3/base/clock.py."""
import z3
from vf.pyvc.spec import contract
from vf.pyvc.values import *
from ._common import MAIN_FIELDS, TT_FIELDS

CF = 'sc3/base/clock.py'
OF = 'sc3/base/_oscinterface.py'
L = '@lemmas/osc_time_lemmas.py'
TWO32 = 2 ** 32

SC = {'_elapsed_osc_offset': 'int'}
FIELDS = {'SystemClock': SC, 'Main': dict(MAIN_FIELDS, main_tt='aref:TimeThread',
                                          current_tt='aref:TimeThread'),
          'TimeThread': TT_FIELDS}
CM = {'SystemClock': CF}


def off(c):
    return c.pre.cls('SystemClock')._elapsed_osc_offset


def trunc(x):
    return z3.If(x >= 0, z3.ToInt(x), -z3.ToInt(-x))


contract(CF, 'SystemClock.elapsed_time_to_osc', props=('C07',),
         params={'cls': 'cls', 'elapsed': 'num'},
         returns='int',
         ensures=[('timetag-of-elapsed', lambda c: c.result == trunc(
             (z3.ToReal(c.elapsed) if z3.is_int(c.elapsed) else c.elapsed) * TWO32) + off(c))],
         modifies=[], fields=FIELDS, class_modules=CM)

contract(CF, 'SystemClock.osc_to_elapsed_time', props=('C07',),
         params={'cls': 'cls', 'osctime': 'int'},
         returns='real',
         ensures=[('elapsed-of-timetag', lambda c: c.result * TWO32 == z3.ToReal(c.osctime - off(c)))],
         modifies=[], fields=FIELDS, class_modules=CM)

INL = ('SystemClock.elapsed_time_to_osc', 'SystemClock.osc_to_elapsed_time')
contract(L, 'osc_time_monotone', props=('C07',),
         params={'x': 'real', 'y': 'real'}, requires=lambda c: c.x <= c.y,
         ensures=[('monotone', lambda c: c.result)], fields=FIELDS, class_modules=CM, inline=INL)
contract(L, 'osc_time_roundtrip_error', props=('C07',),
         params={'x': 'real'}, requires=lambda c: c.x >= 0,
         ensures=[('within-timetag-resolution', lambda c: z3.And(c.result >= 0, c.result * TWO32 < 1))],
         fields=FIELDS, class_modules=CM, inline=INL)
contract(L, 'elapsed_roundtrip_exact', props=('C07',),
         params={'t': 'int'},
         ensures=[('exact', lambda c: c.result)], fields=FIELDS, class_modules=CM, inline=INL)


# ---- real-time stamping ------------------------------------------------------------
def rt_timetag(c):
    if c.kinds['time'] == 'none':
        return c.result == 1
    t = z3.ToReal(c.time) if z3.is_int(c.time) else c.time
    return c.result == z3.If(t < 0, 1, trunc((t + c.send_time) * TWO32) + off(c))


contract(OF, 'OscInterface._get_timetag', props=('C07',),
         params={'send_time': 'real', 'time': ['none', 'int', 'real']},
         returns='int',
         ensures=[('logical-time-plus-latency-or-immediately', rt_timetag)],
         modifies=[], fields=FIELDS, class_modules=CM,
         note='IMMEDIATELY is the OSC timetag 1; send_time is the logical time read once by the caller')


def subtime_refused(c):
    if c.kinds['time'] == 'none':
        return z3.BoolVal(False)
    if c.kinds['subtime'] == 'none':
        return z3.BoolVal(True)
    return c.time > c.subtime


contract(OF, 'OscInterface._check_subtime', props=('C07',),
         params={'time': ['none', 'int', 'real'], 'subtime': ['none', 'int', 'real']},
         raises={'ValueError': subtime_refused},
         ensures=[], modifies=[], fields=FIELDS, class_modules=CM,
         note='a nested bundle may not precede its parent; None under a timed parent is refused')


# ---- non-real-time stamping ------------------------------------------------------
def nrt_timetag(c):
    in_routine = z3.Const('main.current_tt#id', Any) != z3.Const('main.main_tt#id', Any)
    if c.kinds['time'] == 'none':
        t = z3.RealVal(0)
    else:
        t0 = z3.ToReal(c.time) if z3.is_int(c.time) else c.time
        t = z3.If(t0 < 0, 0, t0)
    return c.result == trunc(z3.If(in_routine, t + c.send_time, t) * TWO32)


contract(OF, 'OscNrtInterface._get_timetag', props=('C07',),
         params={'send_time': 'real', 'time': ['none', 'int', 'real']},
         requires=lambda c: c.send_time >= 0,
         returns='int',
         ensures=[('relative-in-routines-absolute-outside', nrt_timetag)],
         modifies=[], fields=FIELDS, class_modules=CM)


# the score's own copy of the NRT stamping rule (the source says the two must stay in sync)
def score_time(c):
    in_routine = z3.Const('main.current_tt#id', Any) != z3.Const('main.main_tt#id', Any)
    if c.kinds['time'] == 'none':
        t = z3.RealVal(0)
    else:
        t0 = z3.ToReal(c.time) if z3.is_int(c.time) else c.time
        t = z3.If(t0 < 0, 0, t0)
    return c.result == z3.If(in_routine, t + c.send_time, t)


contract(OF, 'OscScore._get_logical_time', props=('C07', 'C10'),
         params={'self': 'self', 'send_time': 'real', 'time': ['none', 'int', 'real']},
         requires=lambda c: c.send_time >= 0,
         returns='real',
         ensures=[('same-rule-as-the-nrt-timetag', score_time)],
         modifies=[], fields=FIELDS, class_modules=dict(CM, OscScore=OF))


# ---- OscScore.add / finish (C07: "scores are ordered", C10: NRT output) ---------------------------
# add(): refused after finish() without any effect; otherwise the bundle is encoded at the current
# logical time and queued ONCE, with priority = the processed bundle's own time, as an entry that
# carries the processed bundle and the 4-byte size prefix + datagram.  The order of the score is
# then the queue's (TaskQueue: proved stable priority order, C09).
# finish(): idempotent; one dummy command at the tail time (made absolute when called from the main
# thread); then every queue entry, in queue order, contributes its bundle to the list and its bytes
# to the raw score; finished is set.
import z3 as _z3
from vf.pyvc.spec import Loop as _Loop


def sc_getattr(eng, obj, name, st, node):
    if obj.k == 'obj' and obj.oid == 'self._scoreq' and name == 'add':
        def qadd(eng, args, kwargs, st, node):
            st.trace.append(('queue-add', tuple(args)))
            return [(st, NONE)]
        return [(st, V('func', py=('spec', qadd)))]
    if obj.k == 'class' and name == '_Entry':
        return [(st, V('class', py='_Entry'))]
    if obj.k == 'ref' and obj.oid == 'main' and name == '_osc_interface':
        return [(st, V('obj', oid='iface'))]
    if obj.k == 'obj' and obj.oid == 'iface' and name == '_build_bundle':
        def bb(eng, args, kwargs, st, node):
            st.trace.append(('build', tuple(args)))
            return [(st, V('obj', oid='built'))]
        return [(st, V('func', py=('spec', bb)))]
    if obj.k == 'obj' and obj.oid == 'built':
        if name == 'size':
            return [(st, V('obj', oid='built.size'))]
        if name == 'dgram':
            return [(st, V('obj', oid='built.dgram'))]
    if obj.k == 'obj' and obj.oid == 'built.size' and name == 'to_bytes':
        def tb(eng, args, kwargs, st, node):
            ok = len(args) == 2 and args[0].k == 'int' and _z3.simplify(args[0].z).as_long() == 4 \
                and args[1].k == 'str' and args[1].py == 'big'
            return [(st, V('obj', oid='size-prefix' if ok else 'bad-prefix'))]
        return [(st, V('func', py=('spec', tb)))]
    if obj.k == 'list' and name == 'append':
        def app(eng, args, kwargs, st, node):
            st.trace.append(('list-append', args[0]))
            return [(st, NONE)]
        return [(st, V('func', py=('spec', app)))]
    if obj.k == 'obj' and obj.oid == 'self._raw_score' and name == 'extend':
        def ext(eng, args, kwargs, st, node):
            st.trace.append(('raw-extend', args[0]))
            return [(st, NONE)]
        return [(st, V('func', py=('spec', ext)))]
    if obj.k == 'obj' and obj.oid == 'self._lst_score' and name == 'append':
        def app2(eng, args, kwargs, st, node):
            st.trace.append(('list-append', args[0]))
            return [(st, NONE)]
        return [(st, V('func', py=('spec', app2)))]
    return None


def sc_binop(eng, op, a, b, st, node):
    import ast as _ast
    if isinstance(op, _ast.Add) and a.k == 'obj' and b.k == 'obj' and a.oid in ('size-prefix', 'bad-prefix'):
        return [(st, V('obj', oid='prefixed', extra={'parts': (a.oid, b.oid)}))]
    return None


def sc_construct(eng, f, args, kwargs, st, node):
    if f.k == 'class' and f.py in ('_Entry', 'OscScore._Entry'):
        return [(st, V('obj', oid='entry!%d' % next(eng.counter), extra={'args': tuple(args)}))]
    return None


def process_time(eng, selfv, args, kwargs, st, node):
    t = V('any', _z3.Const('processed.time', VV_any()))
    r = vlist([t, V('obj', oid='processed.rest')])
    st.trace.append(('process', tuple(args), r))
    return [(st, r)]


def VV_any():
    from vf.pyvc import values as _VV
    return _VV.Any


def score_add_post(c):
    t = [e for e in c.trace if e[0] in ('build', 'process', 'queue-add')]
    if sorted(e[0] for e in t) != ['build', 'process', 'queue-add'] or t[-1][0] != 'queue-add':
        return _z3.BoolVal(False)
    build = [e for e in t if e[0] == 'build'][0]
    proc = [e for e in t if e[0] == 'process'][0]
    qadd = t[-1]
    now = _z3.Real('main.current_tt._seconds')
    b = c._params['bndl']
    ok = (len(build[1]) == 2 and build[1][0].k == 'real' and build[1][1] is b
          and len(proc[1]) == 2 and proc[1][0].k == 'real' and proc[1][1] is b
          and len(qadd[1]) == 2 and qadd[1][0] is proc[2].items[0]             # priority = the processed bundle's time
          and qadd[1][1].k == 'obj' and bool(qadd[1][1].extra) and len(qadd[1][1].extra['args']) == 2
          and qadd[1][1].extra['args'][0] is proc[2]                           # the entry carries the processed bundle
          and qadd[1][1].extra['args'][1].k == 'obj' and qadd[1][1].extra['args'][1].oid == 'prefixed'
          and qadd[1][1].extra['args'][1].extra['parts'] == ('size-prefix', 'built.dgram'))   # 4-byte size + datagram
    if not ok:
        return _z3.BoolVal(False)
    return _z3.And(build[1][0].z == now, proc[1][0].z == now)                 # both at the current logical time


SCORE_FIELDS = {'OscScore': {'_finished': 'bool', '_scoreq': 'obj', '_lst_score': 'obj', '_raw_score': 'obj'},
                'Main': dict(MAIN_FIELDS, main_tt='aref:TimeThread', current_tt='aref:TimeThread'),
                'TimeThread': {'_seconds': 'real'}}

contract(OF, 'OscScore.add', props=('C07', 'C10'), params={'self': 'self', 'bndl': 'obj'},
         raises={'Exception': lambda c: c.pre.self._finished},
         ensures=[('encoded-and-queued-once-at-its-own-time-with-size-prefix', score_add_post)],
         on_raise=[('refused-without-effect', lambda c: _z3.BoolVal(
             not [e for e in c.trace if e[0] in ('build', 'process', 'queue-add')]))],
         modifies=[], fields=SCORE_FIELDS,
         hooks={'getattr': sc_getattr, 'binop': sc_binop, 'construct': sc_construct},
         policies={'OscScore._process_bndl_time': process_time},
         class_modules={'OscScore': OF, 'TimeThread': 'sc3/base/stream.py'}, native=False)


# ---- OscScore.finish ---------------------------------------------------------------------------------------------------------
def fin_add(eng, selfv, args, kwargs, st, node):
    st.trace.append(('score-add', tuple(args)))
    return [(st, NONE)]


NENT = _z3.Int('score.entries')


def fin_iterate(eng, obj, st, node):
    if obj.k == 'obj' and obj.oid == 'self._scoreq':
        # the queue iterates in its (stable priority) order: TaskQueue.__iter__, C09
        def get(e_, i, s_):
            return vtuple([V('any', _z3.Const('entry.time', VV_any())), V('obj', oid='entry', extra={'index': i})])
        return V('seq', extra={'len': NENT, 'facts': [NENT >= 0], 'the-score-queue': True, 'get': get})
    return None


def fin_getattr(eng, obj, name, st, node):
    if obj.k == 'obj' and obj.oid == 'entry' and name in ('bndl', 'msg'):
        return [(st, V('obj', oid='entry.' + name, extra={'index': obj.extra['index']}))]
    return sc_getattr(eng, obj, name, st, node)


def fin_since(trace):
    idx = max([i for i, e in enumerate(trace) if e[0] == 'loop-head'] or [-1])
    return trace[idx + 1:] if idx >= 0 else None


def fin_pass(c, L):
    ev = fin_since(c.trace)
    if not ev or L.phase != 'after':
        return _z3.BoolVal(True)
    la = [e for e in ev if e[0] == 'list-append']
    ra = [e for e in ev if e[0] == 'raw-extend']
    if len(la) != 1 or len(ra) != 1 or [e for e in ev if e[0] == 'score-add']:
        return _z3.BoolVal(False)
    b, m = la[0][1], ra[0][1]
    if not (b.k == 'obj' and b.oid == 'entry.bndl' and m.k == 'obj' and m.oid == 'entry.msg'):
        return _z3.BoolVal(False)
    return _z3.And(b.extra['index'] == L.i - 1, m.extra['index'] == L.i - 1)      # entry i: its bundle to the list, its bytes to the raw score


def fin_over(c, seq, k, elem):
    return _z3.BoolVal(bool(seq.k == 'seq' and seq.extra.get('the-score-queue'))), _z3.BoolVal(True)


def finish_post(c):
    t = c.trace
    adds = [e for e in t if e[0] == 'score-add']
    heads = [i for i, e in enumerate(t) if e[0] == 'loop-head']
    was = c.pre.self._finished
    if not adds and not heads:
        return _z3.And(was, c.post.self._finished,
                       _z3.BoolVal(not [e for e in t if e[0] in ('list-append', 'raw-extend')]))       # idempotent
    if len(adds) != 1 or not heads or t.index(adds[0]) > heads[0]:
        return _z3.BoolVal(False)
    a = adds[0][1]
    ok = len(a) == 1 and a[0].k == 'list' and a[0].items is not None and len(a[0].items) == 2
    if not ok:
        return _z3.BoolVal(False)
    when, cmd = a[0].items
    dummy = cmd.k == 'list' and cmd.items is not None and len(cmd.items) >= 1 and cmd.items[0].k == 'str'    # some command (which one is free)
    in_main = _z3.Const('main.current_tt#id', Any) == _z3.Const('main.main_tt#id', Any)
    tail = to_real(c._params['tailtime'])
    now = _z3.Real('main.current_tt._seconds')
    return _z3.And(_z3.Not(was), c.post.self._finished, _z3.BoolVal(bool(dummy)),
                   # ONE closing command at the tail time - absolute when called from outside a routine
                   to_real(when) == _z3.If(in_main, tail + now, tail))


contract(OF, 'OscScore.finish', props=('C07', 'C10'), params={'self': 'self', 'tailtime': 'real'},
         ensures=[('idempotent;one-closing-command-at-the-tail-time,then-every-queue-entry-in-queue-order;finished', finish_post)],
         loops={0: _Loop(inv=fin_pass, over=fin_over, kinds={'_': 'any', 'entry': 'obj'})},
         modifies=[('self', '_finished')], fields=SCORE_FIELDS,
         hooks={'getattr': fin_getattr, 'iterate': fin_iterate}, policies={'OscScore.add': fin_add},
         class_modules={'OscScore': OF, 'TimeThread': 'sc3/base/stream.py'}, native=False)
