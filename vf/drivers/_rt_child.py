"""Subprocess helper for the C05 / C08 / C10 drivers.

    /venv/bin/python -m vf.drivers._rt_child <json-in> <json-out>

One process hosts one sc3 mode, so every real-time scenario (and every *fresh*
non-real-time run) is executed here.  The child only OBSERVES: it runs the
requested jobs against the real library and writes raw records; all verdicts
are taken by the drivers.

json-in::

    {"mode": "rt" | "nrt",
     "seed": 0,
     "jitter_ms": 20,       # rt: extra sleep of 0..jitter_ms after every
                            # Condition.wait() wake-up of a clock thread (the
                            # time base itself, time.time, is NOT distorted)
     "busy": 2,             # rt: number of spinning threads (GIL / CPU load)
     "jobs": [ {"kind": "programs", "progs": [...], "concurrent": bool},
               {"kind": "c08", "scn": {...}} ... ]}

The child exits with os._exit(0) after the results are on disk: RtMain._shutdown()
called explicitly joins the clock threads while holding the main lock.
"""
import itertools
import json
import logging
import os
import random
import struct
import sys
import threading
import time
import traceback

CLOCK_THREAD_PREFIXES = ('SystemClock', 'AppClock', 'TempoClock')


# --------------------------------------------------------------------------
# infrastructure
# --------------------------------------------------------------------------

class LogCapture(logging.Handler):
    def __init__(self):
        super().__init__(level=logging.WARNING)
        self.records = []

    def emit(self, record):
        exc = None
        if record.exc_info and record.exc_info[1] is not None:
            exc = '%s: %s' % (type(record.exc_info[1]).__name__,
                              record.exc_info[1])
        try:
            msg = record.getMessage()
        except Exception:
            msg = str(record.msg)
        self.records.append({'level': record.levelname, 'logger': record.name,
                             'msg': msg, 'exc': exc})


def install_jitter(max_ms, seed):
    """Wake-up jitter for the clock threads: after threading.Condition.wait()
    returns in a clock thread, behave as if the wake-up had come 0..max_ms
    later: release the lock again, sleep, re-acquire (exactly what wait()
    itself does around its own sleep), so that other threads are not blocked
    by the injected latency."""
    if not max_ms:
        return
    rng = random.Random(seed)
    orig = threading.Condition.wait

    def wait(self, timeout=None):
        res = orig(self, timeout)
        if threading.current_thread().name.startswith(CLOCK_THREAD_PREFIXES):
            saved = self._release_save()
            try:
                time.sleep(rng.random() * max_ms / 1000.0)
            finally:
                self._acquire_restore(saved)
        return res

    threading.Condition.wait = wait


class Busy:
    def __init__(self, n):
        self.stop = False
        self.threads = [threading.Thread(target=self._spin, daemon=True,
                                         name='busy%d' % i) for i in range(n)]
        for t in self.threads:
            t.start()

    def _spin(self):
        x = 0
        while not self.stop:
            for _ in range(2000):
                x += 1
            # give up the GIL now and then: load, not starvation
            if x % 50000 == 0:
                time.sleep(0)


def parse_bundle(dgram):
    """Minimal OSC 1.0 reader for the bundles the interpreter sends:
    returns (timetag:int, [ [address, args...] ... ])."""
    if dgram[:8] != b'#bundle\0':
        return None
    tt = struct.unpack('>Q', dgram[8:16])[0]
    pos = 16
    msgs = []
    while pos < len(dgram):
        size = struct.unpack('>i', dgram[pos:pos + 4])[0]
        pos += 4
        el = dgram[pos:pos + size]
        pos += size
        if el[:8] == b'#bundle\0':
            continue

        def rstr(p):
            e = el.index(b'\0', p)
            s = el[p:e].decode('utf-8')
            return s, (e + 4) & ~3
        addr, p = rstr(0)
        tags, p = rstr(p)
        args = []
        for t in tags[1:]:
            if t == 'i':
                args.append(struct.unpack('>i', el[p:p + 4])[0])
                p += 4
            elif t == 'f':
                args.append(struct.unpack('>f', el[p:p + 4])[0])
                p += 4
            elif t == 's':
                s, p = rstr(p)
                args.append(s)
            else:
                break
        msgs.append([addr] + args)
    return tt, msgs


# --------------------------------------------------------------------------
# timeline programs
# --------------------------------------------------------------------------

def run_programs_rt(job, ctx):
    from vf.specs import timeline as tl
    import sc3.base.main as _m
    from sc3.base.clock import SystemClock
    main = _m.main
    progs = job['progs']
    results = []
    groups = [progs] if job.get('concurrent') else [[p] for p in progs]
    for group in groups:
        runs = []
        for prog in group:
            ref = tl.reference(prog)
            obs = []
            nlog = len(ctx['log'].records)
            h = tl.run_program(prog, obs.append)
            runs.append({'prog': prog, 'ref': ref, 'obs': obs, 'h': h,
                         'nlog': nlog})
        t_begin = time.time()
        for run in runs:
            ref = run['ref']
            dur = float(ref['last']) + float(tl.exact(run['prog'].get('start_offset', 0)))
            deadline = t_begin + dur + job.get('slack', 3.0)
            while time.time() < deadline:
                ends = sum(1 for o in list(run['obs']) if o['kind'] == 'end')
                if ends >= ref['ends'] and time.time() >= t_begin + dur:
                    break
                time.sleep(0.01)
        time.sleep(job.get('tail', 0.08))
        for run in runs:
            h = run['h']
            pid = str(run['prog'].get('id', ''))
            start = h.start
            bundles = []
            if start is not None:
                start_tag = SystemClock.elapsed_time_to_osc(start)
                for tt, msgs in list(ctx['bundles']):
                    for m in msgs:
                        if m[0] == '/tl' and m[1] == pid:
                            bundles.append({
                                'r': m[2], 'tag': m[3],
                                'rel': None if tt == 1 else
                                (tt - start_tag) / 4294967296.0})
            for c in h.clocks.values():
                try:
                    c.stop()
                except Exception:
                    pass
            results.append({
                'id': pid, 'start': start, 'obs': list(run['obs']),
                'bundles': bundles,
                'errors': ctx['log'].records[run['nlog']:] if len(group) == 1
                else []})
    return results


def run_programs_nrt(job, ctx):
    from vf.specs import timeline as tl
    import sc3.base.main as _m
    main = _m.main
    results = []
    for prog in job['progs']:
        main.reset()
        obs = []
        nlog = len(ctx['log'].records)
        h = tl.run_program(prog, obs.append)
        score = main.process()
        raw = bytes(score.raw)
        start = h.start
        bundles = []
        pid = str(prog.get('id', ''))
        pos = 0
        start_tag = None if start is None else int(start * 4294967296.0)
        while pos < len(raw):
            size = struct.unpack('>i', raw[pos:pos + 4])[0]
            pos += 4
            parsed = parse_bundle(raw[pos:pos + size])
            pos += size
            if parsed is None or start is None:
                continue
            tt, msgs = parsed
            for m in msgs:
                if m[0] == '/tl' and m[1] == pid:
                    bundles.append({'r': m[2], 'tag': m[3],
                                    'rel': (tt - start_tag) / 4294967296.0})
        results.append({
            'id': pid, 'start': start, 'obs': obs, 'bundles': bundles,
            'raw_hex': raw.hex(), 'elapsed_end': main.elapsed_time(),
            'errors': ctx['log'].records[nlog:]})
    return results


# --------------------------------------------------------------------------
# C08 scenarios: ghost monitors on the real clocks
# --------------------------------------------------------------------------

EXC = {'ValueError': ValueError, 'KeyError': KeyError,
       'RuntimeError': RuntimeError, 'ZeroDivisionError': ZeroDivisionError,
       'TypeError': TypeError, 'OSError': OSError,
       'StopIteration': StopIteration, 'AssertionError': AssertionError}


class Custom(Exception):
    pass


EXC['Custom'] = Custom


class C08:
    """Shared state of one scenario."""

    def __init__(self):
        import sc3.base.main as _m
        from sc3.base.clock import SystemClock, AppClock, TempoClock
        self.main = _m.main
        self.SystemClock = SystemClock
        self.AppClock = AppClock
        self.TempoClock = TempoClock
        self.counter = itertools.count()
        self.clocks = {}
        self.tasks = {}        # id -> record
        self.marks = []

    def seq(self):
        return next(self.counter)

    def clock(self, name):
        if name == 'sys':
            return self.SystemClock
        if name == 'app':
            return self.AppClock
        if name not in self.clocks:
            # "T<k>:<tempo>"
            self.clocks[name] = self.TempoClock(float(name.split(':')[1]))
        return self.clocks[name]

    def make_task(self, spec):
        main = self.main
        rec = {'id': spec['id'], 'clock': spec['clock'], 'from': spec['from'],
               'how': spec['how'], 'delay': spec['delay'],
               'ret': spec.get('ret', []), 'raise': spec.get('raise'),
               'raise_at': spec.get('raise_at', 0),
               'requested': None, 'req_lo': None, 'req_hi': None,
               'sched_error': None, 'sched_seq': None, 'sched_phys': None, 'awakes': []}
        self.tasks[spec['id']] = rec
        clk = self.clock(spec['clock'])
        is_tempo = spec['clock'] not in ('sys', 'app')

        def task():
            n = len(rec['awakes'])
            rec['awakes'].append({
                'seq': self.seq(), 'phys': time.time(),
                'elapsed': main.elapsed_time(), 'logical': clk.seconds,
                'beats': clk.beats if is_tempo else None,
                'thread': threading.current_thread().name})
            if rec['raise'] and n == rec['raise_at']:
                raise EXC[rec['raise']]('c08-task-%s' % rec['id'])
            if n < len(rec['ret']):
                return rec['ret'][n]
            return None
        task.__qualname__ = 'c08_task_%s' % spec['id']
        return task, rec, clk, is_tempo

    def schedule(self, spec, base, in_task_logical=None):
        """Issue one scheduling call.  ``base``: absolute elapsed seconds used
        for 'abs' requests.  ``in_task_logical``: logical seconds of the clock
        task that issues the call (None from a plain thread)."""
        task, rec, clk, is_tempo = self.make_task(spec)
        try:
            self._schedule(spec, base, in_task_logical, task, rec, clk, is_tempo)
        except Exception as e:   # the scheduling call itself failed: recorded
            rec['sched_error'] = '%s: %s' % (type(e).__name__, e)
        rec['sched_seq'] = self.seq()
        rec['sched_phys'] = time.time()

    def _schedule(self, spec, base, in_task_logical, task, rec, clk, is_tempo):
        main = self.main
        d = spec['delay']
        if spec['how'] == 'abs':
            t = base + d
            if is_tempo:
                b = clk.secs2beats(t)
                rec['requested'] = b
                clk.sched_abs(b, task)
            elif spec['clock'] == 'sys':
                rec['requested'] = t
                clk.sched_abs(t, task)
            else:
                raise ValueError('AppClock has no sched_abs')
        else:
            if spec['clock'] == 'app':
                lo = main.elapsed_time()
                clk.sched(d, task)
                hi = main.elapsed_time()
                rec['req_lo'], rec['req_hi'] = lo + d, hi + d
            elif in_task_logical is not None:
                if is_tempo:
                    rec['requested'] = clk.secs2beats(in_task_logical) + d
                else:
                    rec['requested'] = in_task_logical + d
                clk.sched(d, task)
            else:
                lo = main.elapsed_time()
                clk.sched(d, task)
                hi = main.elapsed_time()
                if is_tempo:
                    # beats; the tempo map is monotone
                    rec['req_lo'] = clk.secs2beats(lo) + d
                    rec['req_hi'] = clk.secs2beats(hi) + d
                else:
                    rec['req_lo'], rec['req_hi'] = lo + d, hi + d

    def expected_awakes(self, rec):
        n = len(rec['ret']) + 1
        if rec['raise']:
            n = min(n, rec['raise_at'] + 1)
        return n

    def wait_all(self, limit):
        deadline = time.time() + limit
        while time.time() < deadline:
            if all(len(r['awakes']) >= self.expected_awakes(r)
                   or r['sched_error']
                   for r in list(self.tasks.values())):
                return True
            time.sleep(0.005)
        return False

    def stop_clocks(self):
        for c in self.clocks.values():
            try:
                c.stop()
            except Exception:
                pass


def c08_storm(scn, ctx):
    """Tasks scheduled concurrently from the main thread, a plain thread
    imitating the OSC receive thread, and from tasks running on clock threads."""
    S = C08()
    main = S.main
    nlog = len(ctx['log'].records)
    for cname in scn['clocks']:
        S.clock(cname)
    time.sleep(0.02)
    by_src = {}
    for spec in scn['tasks']:
        by_src.setdefault(spec['from'], []).append(spec)
    base = main.elapsed_time() + scn.get('lead', 0.05)
    threads = []
    launchers = {}
    go = threading.Event()

    def plain(specs):
        go.wait()
        for spec in specs:
            S.schedule(spec, base)

    for src, specs in by_src.items():
        if src in ('main',):
            continue
        if src.startswith('clk:'):
            lclock = S.clock(src[4:])

            def make_launcher(specs, lclock, src):
                def launcher():
                    logical = lclock.seconds
                    launchers[src] = {'logical': logical, 'phys': time.time()}
                    for spec in specs:
                        S.schedule(spec, base, in_task_logical=logical)
                launcher.__qualname__ = 'c08_launcher'
                return launcher
            lclock.sched(0.01, make_launcher(specs, lclock, src))
        else:
            t = threading.Thread(target=plain, args=(specs,), name=src,
                                 daemon=True)
            threads.append(t)
            t.start()
    go.set()
    for spec in by_src.get('main', []):
        S.schedule(spec, base)
    for t in threads:
        t.join()
    horizon = max([s['delay'] + sum(x for x in s.get('ret', []))
                   for s in scn['tasks']] + [0]) * scn.get('slow', 1.0)
    complete = S.wait_all(scn.get('lead', 0.05) + horizon + scn.get('slack', 5.0))
    time.sleep(0.05)
    S.stop_clocks()
    return {'tasks': list(S.tasks.values()), 'complete': complete,
            'launchers': launchers, 'init_time': main._init_time,
            'log': ctx['log'].records[nlog:]}


def c08_cancel(scn, ctx):
    """clear() / stop(): nothing pending fires afterwards; after clear() the
    clock still works."""
    S = C08()
    main = S.main
    clk = S.clock(scn['clock'])
    time.sleep(0.02)
    is_tempo = scn['clock'] not in ('sys', 'app')
    tempo = float(scn['clock'].split(':')[1]) if is_tempo else 1.0
    for i, d in enumerate(scn['delays']):
        S.schedule({'id': 'p%d' % i, 'clock': scn['clock'], 'from': 'main',
                    'how': 'rel', 'delay': d * tempo,
                    'ret': scn.get('ret', [])}, None)
    time.sleep(scn.get('op_at', 0.05))
    op = {'op': scn['op']}

    def do_op():
        op['seq_before'] = S.seq()
        op['phys_before'] = time.time()
        if scn['op'] == 'clear':
            clk.clear()
        else:
            clk.stop()
        op['seq_after'] = S.seq()
        op['phys_after'] = time.time()

    if scn.get('op_from', 'main') == 'main':
        do_op()
    elif scn['op_from'] == 'osc':
        t = threading.Thread(target=do_op, name='osc')
        t.start()
        t.join()
    else:   # from a task on another clock
        ev = threading.Event()

        def f():
            do_op()
            ev.set()
        f.__qualname__ = 'c08_cancel_op'
        S.clock(scn['op_from'][4:]).sched(0, f)
        ev.wait(5)
    probe = None
    if scn['op'] == 'clear':
        S.schedule({'id': 'probe', 'clock': scn['clock'], 'from': 'main',
                    'how': 'rel', 'delay': 0.02 * tempo}, None)
    time.sleep(max(scn['delays']) + scn.get('wait', 0.35))
    if scn['op'] == 'clear':
        probe = S.tasks['probe']
        # give the probe generous time (liveness under load)
        deadline = time.time() + 3.0
        while not probe['awakes'] and time.time() < deadline:
            time.sleep(0.01)
    S.stop_clocks()
    return {'tasks': list(S.tasks.values()), 'op': op,
            'init_time': main._init_time}


def c08_ab(scn, ctx):
    """The discriminating timeliness scenario: A at +2 s, then, while the clock
    thread sleeps, B at +50 ms from another thread."""
    S = C08()
    main = S.main
    clk = S.clock(scn['clock'])
    is_tempo = scn['clock'] not in ('sys', 'app')
    tempo = float(scn['clock'].split(':')[1]) if is_tempo else 1.0
    time.sleep(0.02)
    S.schedule({'id': 'A', 'clock': scn['clock'], 'from': 'main', 'how': 'rel',
                'delay': 2.0 * tempo}, None)
    time.sleep(0.15)           # the clock thread now sleeps until A
    info = {}

    def sched_b():
        info['t_call'] = time.time()
        S.schedule({'id': 'B', 'clock': scn['clock'], 'from': scn['b_from'],
                    'how': 'rel', 'delay': 0.05 * tempo}, None,
                   in_task_logical=info.get('logical'))

    if scn['b_from'].startswith('clk:'):
        other = S.clock(scn['b_from'][4:])

        def f():
            info['logical'] = other.seconds
            sched_b()
        f.__qualname__ = 'c08_ab_launcher'
        other.sched(0, f)
    else:
        t = threading.Thread(target=sched_b, name=scn['b_from'])
        t.start()
        t.join()
    deadline = time.time() + 1.6
    while time.time() < deadline:
        b = S.tasks.get('B')
        if b and b['awakes']:
            break
        time.sleep(0.005)
    res = {'tasks': list(S.tasks.values()), 't_call': info.get('t_call'),
           'init_time': main._init_time}
    try:
        clk.clear()
    except Exception:
        pass
    S.stop_clocks()
    return res


def c08_tempo(scn, ctx):
    """Tempo change while the TempoClock thread sleeps."""
    S = C08()
    main = S.main
    name = 'T0:%s' % scn['tempo0']
    clk = S.clock(name)
    time.sleep(0.02)
    S.schedule({'id': 'X', 'clock': name, 'from': 'main', 'how': 'rel',
                'delay': scn['beat']}, None)
    time.sleep(scn.get('at', 0.05))
    info = {}

    def change():
        # deadline of the pending beat under the map the thread went to sleep with
        info['stale_secs'] = clk.beats2secs(S.tasks['X']['req_hi'])
        clk.tempo = scn['tempo1']
        info['t_change'] = time.time()
        rec = S.tasks['X']
        # expected logical seconds of the pending beat under the NEW map,
        # through the public conversion
        info['expected_secs_lo'] = clk.beats2secs(rec['req_lo'])
        info['expected_secs_hi'] = clk.beats2secs(rec['req_hi'])

    if scn.get('from', 'main') == 'main':
        change()
    else:
        t = threading.Thread(target=change, name='osc')
        t.start()
        t.join()
    limit = scn['beat'] / min(scn['tempo0'], scn['tempo1']) + 3.0
    S.wait_all(limit)
    time.sleep(0.05)
    S.stop_clocks()
    return {'tasks': list(S.tasks.values()), 'info': info,
            'init_time': main._init_time}


C08_KINDS = {'storm': c08_storm, 'cancel': c08_cancel, 'ab': c08_ab,
             'tempo': c08_tempo}


# --------------------------------------------------------------------------

def main(argv):
    with open(argv[1]) as f:
        inp = json.load(f)
    mode = inp['mode']
    out = {'mode': mode, 'results': [], 'error': None}
    t0 = time.time()
    try:
        cap = LogCapture()
        logging.getLogger().addHandler(cap)
        import sc3
        if mode == 'rt':
            # sc3 tries LIB_PORT .. LIB_PORT+LIB_PORT_RANGE-1; many children
            # (and other drivers) run concurrently.
            sc3.LIB_PORT = 21000 + (os.getpid() * 37) % 30000
            sc3.LIB_PORT_RANGE = 4000
        sc3.init(mode, verbosity='ERROR')
        import sc3.base.main as _m
        out['init_s'] = round(time.time() - t0, 3)
        ctx = {'log': cap, 'bundles': []}
        busy = None
        if mode == 'rt':
            out['port'] = _m.main._osc_interface.port

            def capture(msg, target):
                parsed = parse_bundle(bytes(msg.dgram))
                if parsed is not None:
                    ctx['bundles'].append(parsed)
            _m.main._osc_interface._send = capture
            install_jitter(inp.get('jitter_ms', 0), inp.get('seed', 0))
            if inp.get('busy', 0):
                busy = Busy(inp['busy'])
        for job in inp['jobs']:
            if job['kind'] == 'programs':
                if mode == 'rt':
                    res = run_programs_rt(job, ctx)
                else:
                    res = run_programs_nrt(job, ctx)
            elif job['kind'] == 'c08':
                try:
                    res = C08_KINDS[job['scn']['kind']](job['scn'], ctx)
                except Exception:
                    res = {'scenario_error': traceback.format_exc()}
            else:
                raise ValueError('unknown job kind %r' % (job['kind'],))
            out['results'].append(res)
        if busy:
            busy.stop = True
    except Exception:
        out['error'] = traceback.format_exc()
    out['wall_s'] = round(time.time() - t0, 3)
    tmp = argv[2] + '.tmp'
    with open(tmp, 'w') as f:
        json.dump(out, f)
    os.replace(tmp, argv[2])
    sys.stdout.flush()
    os._exit(0)


if __name__ == '__main__':
    main(sys.argv)


# --------------------------------------------------------------------------
# driver side: launching children
# --------------------------------------------------------------------------

def run_children(inputs, max_workers=16, timeout=180):
    """Run one child per element of ``inputs`` (json-in dicts) in parallel.
    Returns the list of json-out dicts; a child that crashed or timed out gives
    {'error': text, 'results': []} (a HARNESS problem, never a verdict)."""
    import shutil
    import subprocess
    import tempfile
    from concurrent.futures import ThreadPoolExecutor
    if not inputs:
        return []
    work = tempfile.mkdtemp(prefix='vf_rt_')

    def one(i):
        fin = os.path.join(work, 'in%d.json' % i)
        fout = os.path.join(work, 'out%d.json' % i)
        ferr = os.path.join(work, 'err%d.txt' % i)
        with open(fin, 'w') as f:
            json.dump(inputs[i], f)
        try:
            with open(ferr, 'w') as err:
                subprocess.run(
                    [sys.executable, '-W', 'ignore', '-m',
                     'vf.drivers._rt_child', fin, fout],
                    stdout=subprocess.DEVNULL, stderr=err, timeout=timeout,
                    env=dict(os.environ, **(inputs[i].get('env') or {})))
        except subprocess.TimeoutExpired:
            return {'error': 'child timed out after %ss' % timeout,
                    'results': []}
        if not os.path.exists(fout):
            with open(ferr) as f:
                tail = f.read()[-2000:]
            return {'error': 'child wrote no result: ' + tail, 'results': []}
        with open(fout) as f:
            return json.load(f)

    try:
        with ThreadPoolExecutor(max_workers=max_workers) as ex:
            return list(ex.map(one, range(len(inputs))))
    finally:
        shutil.rmtree(work, ignore_errors=True)
