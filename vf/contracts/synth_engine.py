"""Contracts for sc3/synth/_engine.py — node ids and block arithmetic (C16)."""
import z3
from vf.pyvc.spec import contract
from vf.pyvc.engine import Unsupported, Raised
from vf.pyvc.values import *
from . import base_builtins

F = 'sc3/synth/_engine.py'
L = '@lemmas/engine_lemmas.py'
MAXID = 0x03FFFFFF
W26 = 2 ** 26

NID = {'user': 'int', '_init_temp': 'int', 'num_ids': 'int', '_mask': 'int',
       '_temp': 'int', '_perm': 'int', '_perm_freed': 'obj'}
CB = {'start': 'int', 'size': 'int', 'used': 'bool'}
FIELDS = {'NodeIDAllocator': NID, 'ContiguousBlock': CB}


def nid_inv(v):
    return z3.And(v.user >= 0, v.user <= 31, v._mask == v.user * W26,
                  v._init_temp >= 0, v._init_temp < MAXID,
                  v._temp >= v._init_temp, v._temp <= MAXID)


contract(F, 'NodeIDAllocator.__init__', props=('C16',),
         params={'self': 'self', 'user': 'int', 'init_temp': 'int'},
         requires=lambda c: z3.And(c.user >= 0, c.init_temp >= 0, c.init_temp < MAXID),
         raises={'Exception': lambda c: c.user > 31},
         ensures=[('establishes-invariant', lambda c: nid_inv(c.post.self)),
                  ('starts-at-init', lambda c: c.post.self._temp == c.init_temp)],
         fields=FIELDS, inline=('NodeIDAllocator.reset',),
         opts={'opaque_construct': ('set',)},
         hooks={})

contract(F, 'NodeIDAllocator.alloc', props=('C16',),
         params={'self': 'self'},
         requires=lambda c: nid_inv(c.pre.self),
         returns='int',
         ensures=[
             ('id-is-counter-in-client-range', lambda c: z3.And(
                 c.result == c.pre.self._temp + c.pre.self.user * W26,
                 c.result >= c.pre.self.user * W26 + c.pre.self._init_temp,
                 c.result <= c.pre.self.user * W26 + MAXID)),
             ('counter-advances-cyclically', lambda c: c.post.self._temp == z3.If(
                 c.pre.self._temp < MAXID, c.pre.self._temp + 1, c.pre.self._init_temp)),
             ('preserves-invariant', lambda c: nid_inv(c.post.self)),
         ],
         modifies=[('self', '_temp')],
         fields=FIELDS, opts={'bitor_disjoint': 26})

# ---- ContiguousBlock -----------------------------------------------------------
def end(v):
    return v.start + v.size


def touches(a, b):
    first_end = z3.If(a.start < b.start, end(a), end(b))
    later_start = z3.If(a.start < b.start, b.start, a.start)
    return z3.And(a.start != b.start, later_start <= first_end)


contract(F, 'ContiguousBlock.adjoins', props=('C16',),
         params={'self': 'self', 'block': 'ref:ContiguousBlock'},
         requires=lambda c: z3.And(c.pre.self.size > 0, c.pre.block.size > 0),
         returns='bool',
         ensures=[('touch-or-overlap', lambda c: c.result == touches(c.pre.self, c.pre.block))],
         modifies=[], fields=FIELDS)


def join_post(c):
    r = c.resultv
    a, b = c.pre.self, c.pre.block
    if r.k == 'none':
        return z3.Not(touches(a, b))
    v = c.result
    mn = z3.If(a.start < b.start, a.start, b.start)
    mx = z3.If(end(a) > end(b), end(a), end(b))
    return z3.And(touches(a, b), v.start == mn, end(v) == mx, z3.Not(v.used))


contract(F, 'ContiguousBlock.join', props=('C16',),
         params={'self': 'self', 'block': 'ref:ContiguousBlock'},
         requires=lambda c: z3.And(c.pre.self.size > 0, c.pre.block.size > 0),
         ensures=[('union-interval-iff-touching', join_post)],
         modifies=[], fields=FIELDS,
         inline=('ContiguousBlock.adjoins', 'ContiguousBlock.__init__', 'min', 'max'),
         opts={'construct': ('ContiguousBlock',)})


def split_post(c):
    r = c.resultv
    s = c.pre.self
    if r.k != 'list' or len(r.items) != 2:
        return z3.BoolVal(False)
    a, b = r.items
    if a.k == 'none' and b.k == 'none':
        return c.span > s.size
    if b.k == 'none':
        return z3.And(c.span == s.size, z3.BoolVal(a.k == 'ref' and a.oid == 'self'))
    if a.k == 'ref' and b.k == 'ref':
        va, vb = c.view(a), c.view(b)
        return z3.And(c.span < s.size, va.start == s.start, va.size == c.span,
                      vb.start == s.start + c.span, vb.size == s.size - c.span)
    return z3.BoolVal(False)


contract(F, 'ContiguousBlock.split', props=('C16',),
         params={'self': 'self', 'span': 'int'},
         requires=lambda c: z3.And(c.pre.self.size > 0, c.span > 0),
         ensures=[('partitions-at-span', split_post)],
         modifies=[], fields=FIELDS, inline=('ContiguousBlock.__init__',),
         opts={'construct': ('ContiguousBlock',)})


# ---- lemma over the alloc contract: ids in a window are pairwise distinct -------
from vf.pyvc.spec import lemma


def _nid_syms():
    t0, init, k, W, u = z3.Ints('t0 init k W u')
    pre = z3.And(init >= 0, init < MAXID, W == MAXID - init + 1, t0 >= init,
                 t0 <= MAXID, k >= 0, u >= 0, u <= 31)

    def succ(t):        # postcondition 'counter-advances-cyclically' of alloc
        return z3.If(t < MAXID, t + 1, init)

    def pos(kk):
        return init + (t0 - init + kk) % W
    return t0, init, k, W, u, pre, succ, pos


def _base():
    t0, init, k, W, u, pre, succ, pos = _nid_syms()
    return [pre], t0 == pos(0)


def _step():
    t0, init, k, W, u, pre, succ, pos = _nid_syms()
    tk = z3.Int('tk')
    return [pre, tk == pos(k)], succ(tk) == pos(k + 1)


def _distinct():
    t0, init, k, W, u, pre, succ, pos = _nid_syms()
    i, j = z3.Ints('i j')
    # id_k = counter_k + user*2^26 (postcondition 'id-is-counter-in-client-range')
    return [pre, 0 <= i, i < j, j < W], pos(i) + u * W26 != pos(j) + u * W26


def _clients_disjoint():
    t0, init, k, W, u, pre, succ, pos = _nid_syms()
    a, b, u2 = z3.Ints('a b u2')
    return [pre, u2 >= 0, u2 <= 31, u != u2, a >= init, a <= MAXID, b >= init, b <= MAXID], \
        a + u * W26 != b + u2 * W26


lemma('node-ids-distinct-within-window', props=('C16',),
      over=('sc3/synth/_engine.py::NodeIDAllocator.alloc',),
      vcs=[('k-th-counter-closed-form.base', _base),
           ('k-th-counter-closed-form.step', _step),
           ('ids-pairwise-distinct-in-window', _distinct),
           ('clients-have-disjoint-id-ranges', _clients_disjoint)],
      note='induction over the alloc contract: k-th counter = init + (t0-init+k) mod W')


# ---- ContiguousBlockAllocator._find_next: the nearest block above an address ----------------------
# (the function repaired by the `fix:` commit "_find_next"; the allocator's coalescing on free
#  relies on it).  The block table is an uninterpreted array slot -> entry, an entry being either
#  None or a block with ghost start/size.
from vf.pyvc.spec import Loop
from vf.pyvc import values as VV

SLOT = z3.Function('cba_slot', z3.IntSort(), VV.Any)            # table entry at relative slot
B_START = z3.Function('cba_block_start', VV.Any, z3.IntSort())
B_SIZE = z3.Function('cba_block_size', VV.Any, z3.IntSort())


def is_free_slot(k):
    return VV.tag_of(SLOT(k)) == TAGS['none']


def cba_getitem(eng, obj, idx, st, node):
    if obj.k == 'obj' and obj.oid == 'self._array' and idx.k == 'int':
        return [(st, V('any', SLOT(idx.z)))]
    return None


def cba_getattr(eng, obj, name, st, node):
    if obj.k == 'any' and name in ('start', 'size'):
        return [(st, vint((B_START if name == 'start' else B_SIZE)(obj.z)))]
    return None


def fn_inv(c, L):
    s = c.pre.self
    k = z3.Int('k')
    # every slot strictly between addr and i is empty
    return z3.And(L.i >= c.addr + 1,
                  z3.ForAll([k], z3.Implies(z3.And(k > c.addr, k < L.i),
                                            z3.And(k <= s.top, is_free_slot(k - s.addr_offset)))))


def fn_post(c):
    s = c.pre.self
    r = c.resultv
    off, top, size = s.addr_offset, s.top, s.size
    here = SLOT(c.addr - off)
    k = z3.Int('k')
    i = c.st.env['i'].z                       # where the search ended
    at_block = VV.tag_of(here) != TAGS['none']
    after_block = i == B_START(here) + B_SIZE(here)
    # the least index above addr that is beyond top or holds an entry
    scanned = z3.And(i > c.addr,
                     z3.ForAll([k], z3.Implies(z3.And(k > c.addr, k < i), z3.And(k <= top, is_free_slot(k - off)))),
                     z3.Or(i > top, z3.Not(is_free_slot(i - off))))
    where = z3.If(at_block, after_block, scanned)
    if r.k == 'none':
        return z3.And(where, i - off >= size)                     # beyond the table: no next block
    if r.k != 'any':
        return z3.BoolVal(False)
    return z3.And(where, i - off < size, r.z == SLOT(i - off))    # the entry right there


contract(F, 'ContiguousBlockAllocator._find_next', props=('C16',),
         params={'self': 'self', 'addr': 'int'},
         ensures=[('entry-after-the-block-at-addr,or-first-non-empty-slot-above-addr-up-to-top', fn_post)],
         loops={0: Loop(inv=fn_inv, variant=lambda c, L: c.pre.self.top - L.i + 1, kinds={'i': 'int'})},
         modifies=[],
         fields={'ContiguousBlockAllocator': {'_array': 'obj', 'addr_offset': 'int', 'top': 'int', 'size': 'int',
                                              'pos': 'int'}},
         hooks={'getitem': cba_getitem, 'getattr': cba_getattr},
         class_modules={'ContiguousBlockAllocator': F}, native=False,
         note='table entries are an uninterpreted array (no bounds: index errors of a malformed table are the '
              'bounded driver\'s); quantified loop invariant "all slots between addr and i are empty"')


# ---- _find_previous: the nearest entry below an address, down to the partition start ---------------
def fp_inv(c, L):
    s = c.pre.self
    k = z3.Int('k')
    # the slots already visited (addr-1 down to addr-i) are all empty
    return z3.ForAll([k], z3.Implies(z3.And(k < c.addr, k >= c.addr - L.i, k >= s.pos),
                                     is_free_slot(k - s.addr_offset)))


def fp_post(c):
    s = c.pre.self
    r = c.resultv
    k, j = z3.Int('k'), z3.Int('j_found')
    if r.k == 'none':
        return z3.ForAll([k], z3.Implies(z3.And(k >= s.pos, k < c.addr), is_free_slot(k - s.addr_offset)))
    if r.k != 'any':
        return z3.BoolVal(False)
    j = c.st.env['i'].z                 # the address it was found at
    return z3.And(j >= s.pos, j < c.addr, r.z == SLOT(j - s.addr_offset), z3.Not(is_free_slot(j - s.addr_offset)),
                  z3.ForAll([k], z3.Implies(z3.And(k > j, k < c.addr), is_free_slot(k - s.addr_offset))))


contract(F, 'ContiguousBlockAllocator._find_previous', props=('C16',),
         params={'self': 'self', 'addr': 'int'},
         ensures=[('nearest-non-empty-slot-below-addr-inside-the-partition,or-None-when-all-are-empty', fp_post)],
         loops={0: Loop(early_exit=True, inv=fp_inv, kinds={'i': 'int'})},
         modifies=[],
         fields={'ContiguousBlockAllocator': {'_array': 'obj', 'addr_offset': 'int', 'top': 'int', 'size': 'int',
                                              'pos': 'int'}},
         hooks={'getitem': cba_getitem, 'getattr': cba_getattr},
         class_modules={'ContiguousBlockAllocator': F}, native=False)


# ---- _split: carve n slots off an available block and book both parts -----------------------------
def sp_getattr(eng, obj, name, st, node):
    return None


def sp_setitem(eng, obj, idx, v, st, node):
    if obj.k == 'obj' and obj.oid == 'self._array' and idx.k == 'int':
        st.trace.append(('slot', idx.z, v))
        return [('next', st)]
    return None


def freed_event(name):
    def pol(eng, selfv, args, kwargs, st, node):
        st.trace.append((name, args[0]))
        return [(st, NONE)]
    return pol


def split_book_post(c):
    r = c.resultv
    s0, s1 = c.pre.self, c.post.self
    av = c.pre.avail_block
    off = s0.addr_offset
    if r.k != 'list' or len(r.items) != 2 or r.items[0].k != 'ref':
        return z3.BoolVal(False)
    new, left = r.items
    nv = c.view(new)
    slots = [e for e in c.trace if e[0] == 'slot']
    adds = [e[1] for e in c.trace if e[0] == 'add-freed']
    rems = [e[1] for e in c.trace if e[0] == 'remove-freed']
    cl = [nv.start == av.start, nv.size == c.n, nv.used == c.used,        # the first n slots of the block, marked
          z3.BoolVal(len(rems) == 1 and rems[0].k == 'ref' and rems[0].oid == 'avail_block'),  # old block unbooked
          z3.BoolVal(len(slots) >= 1 and slots[0][2] is new), slots[0][1] == av.start - off if slots else z3.BoolVal(False)]
    new_added = any(a is new for a in adds)
    cl.append(z3.BoolVal(new_added) == z3.Not(c.used))                    # a part that stays free is booked as free
    if left.k == 'none':
        cl += [c.n == av.size, s1.top == s0.top, z3.BoolVal(len(slots) == 1 and len(adds) == (1 if new_added else 0))]
        return z3.And(*cl)
    lv = c.view(left)
    left_added = any(a is left for a in adds)
    cl += [c.n < av.size, lv.start == av.start + c.n, lv.size == av.size - c.n,     # the rest, right behind
           z3.BoolVal(len(slots) == 2 and slots[1][2] is left), slots[1][1] == av.start + c.n - off if len(slots) == 2 else z3.BoolVal(False),
           s1.top == z3.If(s0.top >= av.start + c.n, s0.top, av.start + c.n),       # high-water mark never below the rest
           # the rest is booked as free unless it is the untouched area at the top
           z3.BoolVal(left_added) == (s1.top > av.start + c.n)]
    return z3.And(*cl)


contract(F, 'ContiguousBlockAllocator._split', props=('C16',),
         params={'self': 'self', 'avail_block': 'ref:ContiguousBlock', 'n': 'int', 'used': 'bool'},
         requires=lambda c: z3.And(c.pre.avail_block.size > 0, c.n > 0, c.n <= c.pre.avail_block.size),
         ensures=[('first-n-slots-and-the-rest-entered-in-table-and-free-lists;top-updated', split_book_post)],
         modifies=[('self', 'top'), ('avail_block', 'used')],
         fields={'ContiguousBlockAllocator': {'_array': 'obj', 'addr_offset': 'int', 'top': 'int', 'size': 'int',
                                              'pos': 'int', '_freed': 'obj'},
                 'ContiguousBlock': CB},
         hooks={'setitem': sp_setitem},
         policies={'ContiguousBlockAllocator._add_to_freed': freed_event('add-freed'),
                   'ContiguousBlockAllocator._remove_from_freed': freed_event('remove-freed')},
         inline=('max', 'ContiguousBlock.split', 'ContiguousBlock.__init__'), opts={'construct': ('ContiguousBlock',)},
         class_modules={'ContiguousBlockAllocator': F, 'ContiguousBlock': F}, native=False,
         note='ContiguousBlock.split executed from its real body; the free lists (dict of sets) are ghost events')


# ---- _find_available(n): where the next allocation of n slots comes from ----------------------------------
# first an exact-size freed block, else any freed block of at least n slots, else the untouched area at the
# high-water mark - unless it is too small or the block there is in use: then (and only then) "no space".
FREED_SIZES = z3.Array('freed.sizes', z3.IntSort(), z3.IntSort())       # size key of the i-th dict item
FREED_NONEMPTY = z3.Function('freed_set_nonempty', z3.IntSort(), z3.BoolSort())   # by size key
NFREED = z3.Int('freed.len')


def fa_getattr(eng, obj, name, st, node):
    if obj.k == 'obj' and obj.oid == 'self._freed' and name == 'items':
        def items(eng, args, kwargs, st, node):
            def get(eng_, i, st_):
                return vtuple([vint(z3.Select(FREED_SIZES, i)),
                               V('obj', oid='freed-set', extra={'size': z3.Select(FREED_SIZES, i)})])
            return [(st, V('seq', extra={'len': NFREED, 'facts': [NFREED >= 0], 'get': get}))]
        return [(st, V('func', py=('spec', items)))]
    if obj.k == 'any' and name in ('used', 'start', 'size'):
        if name == 'used':
            return [(st, vbool(z3.Function('cba_block_used', VV.Any, z3.BoolSort())(obj.z)))]
        return [(st, vint((B_START if name == 'start' else B_SIZE)(obj.z)))]
    return None


def fa_contains(eng, container, item, st, node):
    if container.k == 'obj' and container.oid == 'self._freed' and item.k == 'int':
        return z3.Function('freed_has_key', z3.IntSort(), z3.BoolSort())(item.z)
    return None


def fa_getitem(eng, obj, idx, st, node):
    if obj.k == 'obj' and obj.oid == 'self._freed' and idx.k == 'int':
        return [(st, V('obj', oid='freed-set', extra={'size': idx.z}))]
    return cba_getitem(eng, obj, idx, st, node)


def fa_len(eng, v, st, node):
    if v.k == 'obj' and v.oid == 'freed-set':
        n = eng.fresh('set.len', z3.IntSort())
        st.pc.append(n >= 0)
        st.pc.append((n > 0) == FREED_NONEMPTY(v.extra['size']))
        return [(st, vint(n))]
    return None


def fa_to_list(eng, v, st, node):
    if v.k == 'obj' and v.oid == 'freed-set':
        return [(st, V('obj', oid='list-of-set', extra={'size': v.extra['size']}))]
    return None


def fa_choice(eng, selfv, args, kwargs, st, node):
    a = args[0]
    r = V('obj', oid='chosen', extra={'size': a.extra['size']})
    st.trace.append(('choice', a.extra['size']))
    return [(st, r)]


def fa_inv(c, L):
    # no freed set visited so far was both big enough and non-empty
    k = z3.Int('k')
    return z3.ForAll([k], z3.Implies(z3.And(k >= 0, k < L.i), z3.Not(z3.And(
        z3.Select(FREED_SIZES, k) >= c.n, FREED_NONEMPTY(z3.Select(FREED_SIZES, k))))))


def fa_post(c):
    s = c.pre.self
    r = c.resultv
    off = s.addr_offset
    k = z3.Int('k')
    has = z3.Function('freed_has_key', z3.IntSort(), z3.BoolSort())
    used = z3.Function('cba_block_used', VV.Any, z3.BoolSort())
    exact = z3.And(has(c.n), FREED_NONEMPTY(c.n))
    none_fits = z3.ForAll([k], z3.Implies(z3.And(k >= 0, k < NFREED), z3.Not(z3.And(
        z3.Select(FREED_SIZES, k) >= c.n, FREED_NONEMPTY(z3.Select(FREED_SIZES, k))))))
    top_slot = SLOT(s.top - off)
    no_room = z3.Or(s.top + c.n - off > s.size, used(top_slot))
    ch = [e for e in c.trace if e[0] == 'choice']
    if r.k == 'obj' and r.oid == 'chosen':
        size = r.extra['size']
        # a freed block: of exactly n slots if there is one, else of at least n
        return z3.And(z3.BoolVal(len(ch) == 1), FREED_NONEMPTY(size), size >= c.n,
                      z3.Implies(exact, size == c.n))
    if r.k == 'none':
        return z3.And(z3.Not(exact), none_fits, no_room)                 # "no space" only then
    if r.k == 'any':
        return z3.And(z3.Not(exact), none_fits, z3.Not(no_room), r.z == top_slot)   # the untouched area at the top
    return z3.BoolVal(False)


contract(F, 'ContiguousBlockAllocator._find_available', props=('C16',),
         params={'self': 'self', 'n': 'int'},
         requires=lambda c: c.n >= 1,
         ensures=[('exact-size-freed-block,else-a-larger-freed-one,else-the-top-area,else-no-space', fa_post)],
         loops={0: Loop(early_exit=True, inv=fa_inv, kinds={'size': 'int', 'set_': (lambda eng, n: V('obj', oid='havoc'))})},
         modifies=[],
         fields={'ContiguousBlockAllocator': {'_array': 'obj', 'addr_offset': 'int', 'top': 'int', 'size': 'int',
                                              'pos': 'int', '_freed': 'obj'}},
         hooks={'getattr': fa_getattr, 'contains': fa_contains, 'getitem': fa_getitem, 'len': fa_len,
                'to_list': fa_to_list},
         policies={'sc3/base/builtins.py::choice': fa_choice},
         class_modules={'ContiguousBlockAllocator': F}, native=False,
         note='the free lists are a dictionary size -> set of blocks: an uninterpreted sequence of size keys with a '
              'ghost non-emptiness per key; which block of a set is chosen is bi.choice\'s (any of them)')


# ---- free(addr): release and coalesce with both neighbours --------------------------------------------------
# None or an address that holds no used block: nothing happens (a second free is harmless).  Otherwise the block
# is marked free and booked; if the previous neighbour is free and joins, the JOINED block replaces both in the
# table and in the free lists and becomes "the block" for the second step, which looks for the next neighbour
# from the joined block's start and joins the joined block (not the stale original) with it.  The high-water
# mark moves down to the joined block when the block at the mark was absorbed.
def fr_getitem(eng, obj, idx, st, node):
    if obj.k == 'obj' and obj.oid == 'self._array' and idx.k == 'int':
        st.trace.append(('read-slot', idx.z))
        return [(st, V('ref', cls='Blk', oid='block', extra={'maybe_none': z3.Bool('slot_is_empty')}))]
    return None


def fr_compare(eng, op, a, b, st, node):
    import ast as _a
    if isinstance(op, (_a.Is, _a.IsNot)):
        for p, q in ((a, b), (b, a)):
            if p.k == 'ref' and p.extra and 'maybe_none' in p.extra and q.k == 'none':
                r = p.extra['maybe_none']
                return z3.Not(r) if isinstance(op, _a.IsNot) else r
            if p.k == 'int' and q.k == 'none':
                r = z3.BoolVal(False)
                return z3.Not(r) if isinstance(op, _a.IsNot) else r
    return None


def fr_found(which):
    def pol(eng, selfv, args, kwargs, st, node):
        r = V('ref', cls='Blk', oid=which, extra={'maybe_none': z3.Bool(which + '_is_none')})
        st.trace.append(('find-' + which, args[0], r))
        return [(st, r)]
    return pol


def fr_getattr(eng, obj, name, st, node):
    if obj.k == 'ref' and obj.cls == 'Blk' and name == 'join':
        def join(eng, args, kwargs, st, node, _o=obj):
            n = len([e for e in st.trace if e[0] == 'join']) + 1
            r = V('ref', cls='Blk', oid='joined%d' % n, extra={'maybe_none': z3.Bool('join%d_fails' % n)})
            st.trace.append(('join', _o, args[0], r))
            return [(st, r)]
        return [(st, V('func', py=('spec', join)))]
    return None


def fr_setitem(eng, obj, idx, v, st, node):
    if obj.k == 'obj' and obj.oid == 'self._array' and idx.k == 'int':
        st.trace.append(('slot', idx.z, v))
        return [('next', st)]
    return None


BLK = {'start': 'int', 'size': 'int', 'used': 'bool'}


def free_post(c):
    t = c.trace
    s0, s1 = c.pre.self, c.post.self
    joins = [e for e in t if e[0] == 'join']
    fprev = [e for e in t if e[0] == 'find-prev']
    fnext = [e for e in t if e[0] == 'find-next']
    adds = [e[1] for e in t if e[0] == 'add-freed']
    rems = [e[1] for e in t if e[0] == 'remove-freed']
    slots = [e for e in t if e[0] == 'slot']
    if not fprev:
        # nothing to free: empty slot or a block that is not in use -> no effect at all
        nothing = not joins and not fnext and not adds and not rems and not slots
        why = z3.BoolVal(True) if c.kinds.get('addr') == 'none' else \
            z3.Or(z3.Bool('slot_is_empty'), z3.Not(z3.Bool('block.used')))
        return z3.And(z3.BoolVal(bool(nothing)), why, s1.top == s0.top)
    if len(fprev) != 1 or len(fnext) != 1:
        return z3.BoolVal(False)
    blk_freed = c.st.objs.get('block', {}).get('used')
    cl = [z3.Not(z3.Bool('slot_is_empty')), z3.Bool('block.used'),             # only a block that IS in use is released
          z3.BoolVal(blk_freed is not None and blk_freed.k == 'bool'), z3.Not(blk_freed.z) if blk_freed is not None else z3.BoolVal(False),
          z3.BoolVal(any(a.oid == 'block' for a in adds))]                      # released and booked as free
    j1 = [e for e in joins if e[1].oid == 'prev']
    merged1 = j1[0][3] if j1 else None
    # what "the block" is when the second step starts
    cur = merged1 if (merged1 is not None and any(sl[2] is merged1 for sl in slots)) else None
    nxt_arg = fnext[0][1]
    j2 = [e for e in joins if e[1].oid == 'next']
    if cur is not None:
        # first step joined: the joined block stands in the table at its own start, the original slot is cleared,
        # both parts leave the free lists - and the second step works on the JOINED block
        cl += [z3.BoolVal(j1[0][2].oid == 'block'),
               z3.BoolVal(any(r.oid == 'prev' for r in rems) and any(r.oid == 'block' for r in rems)),
               nxt_arg.z == z3.Int('joined1.start') if nxt_arg.k == 'int' else z3.BoolVal(False)]
        if j2:
            cl.append(z3.BoolVal(j2[0][2] is merged1))
    else:
        cl += [nxt_arg.z == z3.Int('block.start') if nxt_arg.k == 'int' else z3.BoolVal(False)]
        if j2:
            cl.append(z3.BoolVal(j2[0][2].oid == 'block'))
    return z3.And(*cl)


def free_steps(c):
    """the complete book-keeping of the two coalescing steps.  For a step with free neighbour R, current block A and
    join result J (not None):  table[J.start] = J,  the absorbed slot is cleared (step 1: the original block's,
    step 2: the next neighbour's),  R and A leave the free lists,  the high-water mark moves to J.start iff the
    absorbed block stood at the mark,  and J is booked as free iff it lies below the (new) mark.  A step whose
    neighbour is missing, in use, or does not join changes nothing."""
    t = c.trace
    s0, s1 = c.pre.self, c.post.self
    off = s0.addr_offset
    ip = [i for i, e in enumerate(t) if e[0] == 'find-prev']
    inx = [i for i, e in enumerate(t) if e[0] == 'find-next']
    if not ip:
        return z3.BoolVal(True)                       # nothing to free: the other clause says "no effect"
    if len(ip) != 1 or len(inx) != 1 or inx[0] < ip[0]:
        return z3.BoolVal(False)
    reads = [e for e in t[:ip[0]] if e[0] == 'read-slot']
    pre_ev = [e for e in t[:ip[0]] if e[0] in ('slot', 'add-freed', 'remove-freed', 'join')]
    cl = [z3.BoolVal(len(reads) == 1), reads[0][1] == c.addr - off if reads else z3.BoolVal(False),
          z3.BoolVal(len(pre_ev) == 1 and pre_ev[0][0] == 'add-freed' and pre_ev[0][1].oid == 'block'),
          t[ip[0]][1].z == c.addr if t[ip[0]][1].k == 'int' else z3.BoolVal(False)]      # previous neighbour OF addr
    top = s0.top
    cur = 'block'
    for which, seg, absorbed in (('prev', t[ip[0] + 1:inx[0]], 'block'), ('next', t[inx[0] + 1:], 'next')):
        ev = [e for e in seg if e[0] in ('slot', 'add-freed', 'remove-freed', 'join')]
        free_nb = z3.And(z3.Not(z3.Bool(which + '_is_none')), z3.Not(z3.Bool(which + '.used')))
        js = [e for e in ev if e[0] == 'join']
        cl.append(z3.BoolVal(len(js) == 1) == free_nb)                 # a join is attempted iff the neighbour is free
        if len(js) > 1:
            return z3.BoolVal(False)
        if not js:
            cl.append(z3.BoolVal(not ev))                               # and nothing else happens in this step
            continue
        j = js[0]
        J = j[3]
        ok = j[1].oid == which and j[2].oid == cur and ev[0] is j
        rest = ev[1:]
        joined = z3.Not(J.extra['maybe_none'])
        jstart = z3.Int(J.oid + '.start')
        astart = z3.Int(absorbed + '.start')
        new_top = z3.If(astart == top, jstart, top)
        slots = [e for e in rest if e[0] == 'slot']
        rems = [e[1].oid for e in rest if e[0] == 'remove-freed']
        adds = [e[1].oid for e in rest if e[0] == 'add-freed']
        full = [z3.BoolVal(bool(ok) and len(slots) == 2 and sorted(rems) == sorted([which, cur]) and adds in ([], [J.oid]))]
        if len(slots) == 2:
            stored = [e for e in slots if e[2].k == 'ref' and e[2].oid == J.oid]
            cleared = [e for e in slots if e[2].k == 'none']
            full.append(z3.BoolVal(len(stored) == 1 and len(cleared) == 1))
            if len(stored) == 1 and len(cleared) == 1:
                full += [stored[0][1] == jstart - off, cleared[0][1] == astart - off]
        full.append(z3.BoolVal(adds == [J.oid]) == (new_top > jstart))
        cl.append(z3.If(joined, z3.And(*full), z3.BoolVal(not rest)))
        top = z3.If(joined, new_top, top)
        cur_after = J.oid
        # the block the second step works with: the joined one iff step 1 joined (both cases are separate paths)
        if which == 'prev':
            cur = J.oid if any(e[0] == 'slot' for e in rest) else 'block'
    cl.append(s1.top == top)
    return z3.And(*cl)


contract(F, 'ContiguousBlockAllocator.free', props=('C16',),
         params={'self': 'self', 'addr': ['none', 'int']},
         ensures=[('no-effect-unless-a-used-block;released,booked,coalesced-with-the-joined-block-carried-over', free_post),
                  ('table,free-lists-and-high-water-mark-updated-per-joined-neighbour', free_steps)],
         modifies=[('self', 'top'), ('block', 'used')],
         fields={'ContiguousBlockAllocator': {'_array': 'obj', 'addr_offset': 'int', 'top': 'int', 'size': 'int',
                                              'pos': 'int', '_freed': 'obj'}, 'Blk': BLK},
         hooks={'getitem': fr_getitem, 'compare': fr_compare, 'getattr': fr_getattr, 'setitem': fr_setitem},
         policies={'ContiguousBlockAllocator._find_previous': fr_found('prev'),
                   'ContiguousBlockAllocator._find_next': fr_found('next'),
                   'ContiguousBlockAllocator._add_to_freed': freed_event('add-freed'),
                   'ContiguousBlockAllocator._remove_from_freed': freed_event('remove-freed')},
         class_modules={'ContiguousBlockAllocator': F, 'Blk': F}, native=False,
         note='neighbour search and join are opaque here (their own contracts: _find_previous/_find_next/'
              'ContiguousBlock.join); the obligation is the data flow of the joined block between the two steps')


# ---- alloc(n) and _reserve: from the block found to the range handed out -----------------------------------------------
# alloc: "no space" (None) exactly when _find_available found nothing; otherwise the block found is reserved from ITS
# start for exactly n slots and the start of the reserved part is the answer.
# _reserve(addr, size, avail, prev): the block the range comes from is `avail`, else `prev`, else the nearest block below
# addr; a gap between its start and addr is split off FIRST and stays free (booked, not in use); then exactly `size` slots
# are split off at addr and marked in use: the result is the block [addr, addr + size), in use.  Every split stays inside
# the block it splits (the precondition of _split).  _split is used by its contract (assumed here, proved above).
def al_find(eng, selfv, args, kwargs, st, node):
    n = args[0]
    st2 = st.fork()
    st.trace.append(('find-available', n, NONE))
    r = V('ref', cls='Blk', oid='found')
    st2.trace.append(('find-available', n, r))
    if n.k == 'int':
        st2.pc.append(z3.And(z3.Int('found.size') >= n.z, z3.Not(z3.Bool('found.used'))))      # its contract
    return [(st, NONE), (st2, r)]


def al_reserve(eng, selfv, args, kwargs, st, node):
    r = V('ref', cls='Blk', oid='reserved')
    st.trace.append(('reserve', tuple(args), dict(kwargs)))
    if args and args[0].k == 'int':
        st.pc.append(z3.Int('reserved.start') == args[0].z)                                  # its contract
    return [(st, r)]


def alloc_post(c):
    fa = [e for e in c.trace if e[0] == 'find-available']
    rs = [e for e in c.trace if e[0] == 'reserve']
    if len(fa) != 1 or fa[0][1] is not c._params['n']:
        return z3.BoolVal(False)
    if c.resultv.k == 'none':
        return z3.BoolVal(fa[0][2].k == 'none' and not rs)                   # "no space" only when nothing was found
    if len(rs) != 1 or fa[0][2].k != 'ref' or c.resultv.k != 'int':
        return z3.BoolVal(False)
    a, kw = rs[0][1], rs[0][2]
    names = ['addr', 'size', 'avail_block', 'prev_block']
    got = dict(zip(names, a)); got.update(kw)
    ok = (got.get('size') is c._params['n'] and got.get('avail_block') is fa[0][2] and got.get('prev_block', NONE).k == 'none'
          and got.get('addr') is not None and got['addr'].k == 'int')
    if not ok:
        return z3.BoolVal(False)
    return z3.And(got['addr'].z == z3.Int('found.start'), c.result == z3.Int('reserved.start'))


contract(F, 'ContiguousBlockAllocator.alloc', props=('C16',),
         params={'self': 'self', 'n': 'int'},
         requires=lambda c: c.n >= 1,
         ensures=[('no-space-iff-nothing-found;else-the-found-block-reserved-from-its-start-for-n,start-returned', alloc_post)],
         modifies=[],
         fields={'ContiguousBlockAllocator': {'_array': 'obj', 'addr_offset': 'int', 'top': 'int', 'size': 'int',
                                              'pos': 'int', '_freed': 'obj'}, 'Blk': BLK},
         hooks={'compare': fr_compare},
         policies={'ContiguousBlockAllocator._find_available': al_find,
                   'ContiguousBlockAllocator._reserve': al_reserve},
         class_modules={'ContiguousBlockAllocator': F, 'Blk': F}, native=False)


def rs_split(eng, selfv, args, kwargs, st, node):
    names = ['avail_block', 'n', 'used']
    got = dict(zip(names, args)); got.update(kwargs)
    av, n, used = got['avail_block'], got['n'], got.get('used', vbool(z3.BoolVal(True)))
    k = len([e for e in st.trace if e[0] == 'split']) + 1
    if av.k == 'none':
        return [(st, Raised(eng.make_exc('AttributeError', node=node)))]          # None.split(n): nothing left to cut from
    if av.k != 'ref' or n.k != 'int' or used.k != 'bool':
        raise Unsupported(node, '_split of %s %s %s' % (av.k, n.k, used.k))
    avs = z3.Int(av.oid + '.start'); avz = z3.Int(av.oid + '.size')
    new = V('ref', cls='Blk', oid='new%d' % k)
    rest = V('ref', cls='Blk', oid='rest%d' % k)
    st.trace.append(('split', av, n.z, used.z, new, rest, avs, avz))
    # _split's contract: the first n slots, marked as told; the rest right behind (None when nothing is left)
    facts = [z3.Int(new.oid + '.start') == avs, z3.Int(new.oid + '.size') == n.z, z3.Bool(new.oid + '.used') == used.z]
    st2 = st.fork()
    st.pc.extend(facts + [n.z < avz, z3.Int(rest.oid + '.start') == avs + n.z, z3.Int(rest.oid + '.size') == avz - n.z,
                          z3.Bool(rest.oid + '.used') == z3.Bool(av.oid + '.used')])
    st2.pc.extend(facts + [n.z >= avz])
    return [(st, vlist([new, rest])), (st2, vlist([new, NONE]))]


def rs_prev(eng, selfv, args, kwargs, st, node):
    r = V('ref', cls='Blk', oid='below')
    st.trace.append(('find-prev', args[0], r))
    if args[0].k == 'int':
        st.pc.append(z3.And(z3.Int('below.start') < args[0].z, z3.Int('below.size') > 0))     # its contract: a block below addr
    return [(st, r)]


def reserve_pre(c):
    # what the call sites establish: the block the range comes from is free, starts at or below addr and holds the range
    cl = [c.size >= 1]
    for nm in ('avail_block', 'prev_block'):
        if c.kinds.get(nm) != 'none':
            b = getattr(c.pre, nm)
            cl += [b.size > 0, b.start <= c.addr, c.addr + c.size <= b.start + b.size, z3.Not(b.used)]
            break
    else:
        cl += [c.addr + c.size <= z3.Int('below.start') + z3.Int('below.size')]
    return z3.And(*cl)


def reserve_post(c):
    t = c.trace
    sp = [e for e in t if e[0] == 'split']
    fp = [e for e in t if e[0] == 'find-prev']
    r = c.resultv
    # where the range comes from
    if c.kinds.get('avail_block') != 'none':
        src, want_fp = 'avail_block', 0
    elif c.kinds.get('prev_block') != 'none':
        src, want_fp = 'prev_block', 0
    else:
        src, want_fp = 'below', 1
    if len(fp) != want_fp or (fp and fp[0][1] is not c._params['addr']) or not sp or r.k != 'ref':
        return z3.BoolVal(False)
    if sp[0][1].oid != src:
        return z3.BoolVal(False)
    inside = [z3.And(e[2] >= 1, e[2] <= e[7]) for e in sp]                          # every split inside its block
    last = sp[-1]
    cl = inside + [z3.BoolVal(r is last[4]), last[3], last[2] == c.size]             # the first `size` slots of the last split, in use
    if len(sp) == 1:
        cl += [last[6] == c.addr]                                                    # no gap: the block starts at addr
    elif len(sp) == 2:
        gap = sp[0]
        cl += [gap[6] < c.addr, gap[2] == c.addr - gap[6], z3.Not(gap[3]),           # the gap below addr stays free
               z3.BoolVal(last[1] is gap[5])]                                        # and the range is cut from what is left
    else:
        return z3.BoolVal(False)
    rs, rz, ru = z3.Int(r.oid + '.start'), z3.Int(r.oid + '.size'), z3.Bool(r.oid + '.used')
    cl += [rs == c.addr, rz == c.size, ru]                                           # [addr, addr + size), in use
    return z3.And(*cl)


contract(F, 'ContiguousBlockAllocator._reserve', props=('C16',),
         params={'self': 'self', 'addr': 'int', 'size': 'int', 'avail_block': ['none', 'ref:Blk'], 'prev_block': ['none', 'ref:Blk']},
         requires=reserve_pre,
         ensures=[('range-cut-at-addr-from-the-given-block:gap-below-stays-free,exactly-size-slots-in-use,every-split-inside-its-block', reserve_post)],
         modifies=[],
         fields={'ContiguousBlockAllocator': {'_array': 'obj', 'addr_offset': 'int', 'top': 'int', 'size': 'int',
                                              'pos': 'int', '_freed': 'obj'}, 'Blk': BLK},
         hooks={'compare': fr_compare},
         policies={'ContiguousBlockAllocator._split': rs_split,
                   'ContiguousBlockAllocator._find_previous': rs_prev},
         class_modules={'ContiguousBlockAllocator': F, 'Blk': F}, native=False,
         note='_split and _find_previous by their contracts (proved above), written out as facts on fresh blocks')


# ---- the free lists: size -> set of free blocks of that size -------------------------------------------------------------
# _add_to_freed(b): b enters the set filed under ITS size (a set is made first when the size has none); nothing else.
# _remove_from_freed(b): b leaves the set filed under its size if it is there; a set that became empty is deleted with
# its key (so that _find_available's "key present" means "a block of that size is free"); nothing else.
# The dictionary and its sets are ghost: lookups, membership tests, emptiness tests are recorded as events.
HAS_SET = z3.Bool('freed.has_set_for_size')
IN_SET = z3.Bool('freed.block_in_set')


def fl_set(size):
    return V('obj', oid='the-set', extra={'size': size})


def fl_getattr(eng, obj, name, st, node):
    if obj.k == 'obj' and obj.oid == 'self._freed' and name == 'get':
        def get(eng, a, kw, st, node):
            if len(a) != 1 or a[0].k != 'int':
                raise Unsupported(node, 'free-list lookup')
            st.trace.append(('lookup', a[0].z))
            r = V('ref', cls='FSet', oid='the-set', extra={'maybe_none': z3.Not(fl_has(st)), 'size': a[0].z})
            return [(st, r)]
        return [(st, V('func', py=('spec', get)))]
    if obj.k == 'ref' and obj.cls == 'FSet' and name in ('add', 'remove'):
        def m(eng, a, kw, st, node, _n=name, _o=obj):
            st.trace.append(('set-' + _n, _o.extra['size'], a[0]))
            return [(st, NONE)]
        return [(st, V('func', py=('spec', m)))]
    return None


def fl_has(st):
    """is there a set under the size - as of now (a set stored by this call counts)"""
    return z3.BoolVal(True) if any(e[0] == 'store-set' for e in st.trace) else HAS_SET


def fl_getitem(eng, obj, idx, st, node):
    if obj.k == 'obj' and obj.oid == 'self._freed' and idx.k == 'int':
        st.trace.append(('index', idx.z))
        return [(st, V('ref', cls='FSet', oid='the-set', extra={'size': idx.z}))]
    return None


def fl_setitem(eng, obj, idx, v, st, node):
    if obj.k == 'obj' and obj.oid == 'self._freed' and idx.k == 'int':
        st.trace.append(('store-set', idx.z, v))
        return [('next', st)]
    return None


def fl_delitem(eng, obj, idx, st, node):
    if obj.k == 'obj' and obj.oid == 'self._freed' and idx.k == 'int':
        st.trace.append(('delete-key', idx.z))
        return [('next', st)]
    return None


def fl_contains(eng, container, item, st, node):
    if container.k == 'ref' and container.cls == 'FSet':
        st.trace.append(('member?', container.extra['size'], item))
        return IN_SET
    return None


def fl_truth(eng, v, st, node):
    if v.k == 'ref' and v.cls == 'FSet':
        b = z3.Bool('set_nonempty!%d' % next(eng.counter))
        st.trace.append(('non-empty?', v.extra['size'], b, len(st.trace)))
        return b
    return None


def add_freed_post(c):
    t = c.trace
    b = c.pre.block
    stores = [e for e in t if e[0] == 'store-set']
    adds = [e for e in t if e[0] == 'set-add']
    others = [e for e in t if e[0] in ('set-remove', 'delete-key')]
    if others or len(adds) != 1 or len(stores) > 1:
        return z3.BoolVal(False)
    cl = [adds[0][1] == b.size, z3.BoolVal(adds[0][2] is c._params['block'])]            # filed under ITS size
    if stores:
        cl += [z3.Not(HAS_SET), stores[0][1] == b.size,                                  # a new set only where there is none
               z3.BoolVal(stores[0][2].k == 'obj' and str(stores[0][2].oid).startswith('new!set!')),   # an EMPTY set of its own
               z3.BoolVal(t.index(stores[0]) < t.index(adds[0]))]
    else:
        cl += [HAS_SET]
    return z3.And(*cl)


def remove_freed_post(c):
    t = c.trace
    b = c.pre.block
    rems = [e for e in t if e[0] == 'set-remove']
    dels = [e for e in t if e[0] == 'delete-key']
    tests = [e for e in t if e[0] == 'non-empty?']
    if [e for e in t if e[0] in ('set-add', 'store-set')] or len(rems) > 1 or len(dels) > 1:
        return z3.BoolVal(False)
    if not rems and not dels and not tests:
        return z3.Not(HAS_SET) if not [e for e in t if e[0] == 'member?'] else z3.BoolVal(False)   # no set of that size: nothing
    cl = [HAS_SET]
    cl.append(z3.BoolVal(len(rems) == 1) == IN_SET)                                      # taken out iff it was in
    if rems:
        cl += [rems[0][1] == b.size, z3.BoolVal(rems[0][2] is c._params['block'])]
    if not tests:
        return z3.BoolVal(False)
    last = tests[-1]
    if rems and last[3] < t.index(rems[0]):
        return z3.BoolVal(False)                                                         # emptiness looked at AFTER the removal
    cl.append(z3.BoolVal(len(dels) == 1) == z3.Not(last[2]))                             # key deleted iff the set is now empty
    if dels:
        cl.append(dels[0][1] == b.size)
    return z3.And(*cl)


FL_FIELDS = {'ContiguousBlockAllocator': {'_array': 'obj', 'addr_offset': 'int', 'top': 'int', 'size': 'int',
                                          'pos': 'int', '_freed': 'obj'}, 'Blk': BLK, 'FSet': {}}
FL_HOOKS = {'getattr': fl_getattr, 'getitem': fl_getitem, 'setitem': fl_setitem, 'delitem': fl_delitem,
            'contains': fl_contains, 'compare': fr_compare, 'truth': fl_truth}
contract(F, 'ContiguousBlockAllocator._add_to_freed', props=('C16',),
         params={'self': 'self', 'block': 'ref:Blk'},
         ensures=[('filed-under-its-size,a-new-set-only-where-there-is-none,nothing-else', add_freed_post)],
         modifies=[], fields=FL_FIELDS, hooks=FL_HOOKS,
         class_modules={'ContiguousBlockAllocator': F, 'Blk': F, 'FSet': F}, native=False)
contract(F, 'ContiguousBlockAllocator._remove_from_freed', props=('C16',),
         params={'self': 'self', 'block': 'ref:Blk'},
         ensures=[('taken-out-iff-in,the-emptied-set-deleted-with-its-key,nothing-else', remove_freed_post)],
         modifies=[], fields=FL_FIELDS, hooks=FL_HOOKS,
         class_modules={'ContiguousBlockAllocator': F, 'Blk': F, 'FSet': F}, native=False)


# ---- ContiguousBlockAllocator.__init__: one free block over the whole partition above the reserved numbers ------------------------
def ci_setitem(eng, obj, idx, v, st, node):
    if idx.k == 'int' and v.k == 'ref':
        st.trace.append(('slot', idx.z, v, obj))
        return [('next', st)]
    return None


def cba_init_post(c):
    s = c.post.self
    slots = [e for e in c.trace if e[0] == 'slot']
    if len(slots) != 1:
        return z3.BoolVal(False)
    _, at, blk, table = slots[0]
    b = c.view(blk)
    arr = c.st.objs.get('self', {}).get('_array')
    freed = c.st.objs.get('self', {}).get('_freed')
    table_ok = arr is not None and arr is table and table.k == 'seq'                 # the table that is kept is the one written
    fresh_dict = freed is not None and freed.k == 'obj' and str(freed.oid).startswith('new!dict!')
    cl = [z3.BoolVal(bool(table_ok and fresh_dict)),
          at == c.pos,                                                               # slot = address - addr_offset
          b.start == c.pos + c.addr_offset, b.size == c.size - c.pos, z3.Not(b.used),   # [pos + offset, size + offset): all free
          s.size == c.size, s.pos == c.pos + c.addr_offset, s.top == c.pos + c.addr_offset, s.addr_offset == c.addr_offset]
    if table_ok:
        cl.append(table.extra['len'] == c.size)                                      # `size` slots
    return z3.And(*cl)


contract(F, 'ContiguousBlockAllocator.__init__', props=('C16',),
         params={'self': 'self', 'size': 'int', 'pos': 'int', 'addr_offset': 'int'},
         requires=lambda c: z3.And(c.size >= 1, c.pos >= 0, c.pos < c.size, c.addr_offset >= 0),
         ensures=[('one-free-block-from-pos-to-the-end-of-the-partition,at-slot-pos;marks-at-its-start;no-freed-blocks', cba_init_post)],
         fields={'ContiguousBlockAllocator': {'_array': 'obj', 'addr_offset': 'int', 'top': 'int', 'size': 'int',
                                              'pos': 'int', '_freed': 'obj'}, 'ContiguousBlock': CB},
         hooks={'setitem': ci_setitem}, inline=('ContiguousBlock.__init__',), opts={'construct': ('ContiguousBlock',)},
         class_modules={'ContiguousBlockAllocator': F, 'ContiguousBlock': F}, native=False)
