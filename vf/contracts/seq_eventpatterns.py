"""Contracts for the event patterns (C13: "patterns denote the sequences their definitions say, compositionally";
C14: events carry the values of their key streams): sc3/seq/patterns/eventpatterns.py.

  Pbind._stream_dict_next   ONE value is drawn from EVERY key stream, in the order of the dictionary, each with the
                            event built SO FAR as input (later keys can read earlier ones); a plain key gets the
                            value; a tuple key spreads the value over its names position by position (refused with
                            the event so far when the value is no list/tuple or too short); the first exhausted
                            stream ends the whole thing (StopStream propagates)
  Pbind.__embed__           every pass: a COPY of the input event is updated with the values of this pass and yielded;
                            what is sent back becomes the next input; a None input ends the pattern at once; an
                            exhausted key stream ends it quietly with the current input
  Pchain.__embed__          every pass: a copy of the input goes through the patterns' streams from LAST to first,
                            each getting what the previous one returned; the result is yielded
  Pevent.__embed__          every pass draws from the pattern's stream with the pattern's OWN event (not the input)
  Pkey.__embed__            every pass: the key stream is asked with the input event and the input event's value
                            under that key is yielded; a missing key or an ended key stream ends it quietly

stm.stream / stream.next / dict operations are ghost; two key streams (type case) stand for the dictionary.
"""
import ast
import z3
from vf.pyvc.spec import contract, Loop, REGISTRY
from vf.pyvc.values import *
from vf.pyvc import values as VV
from vf.pyvc.engine import Raised, Unsupported
from vf.contracts.seq_common import counter_pol, counts, COUNT

F = 'sc3/seq/patterns/eventpatterns.py'
ST = 'sc3/base/stream.py'
NKEYS = z3.Int('stream_dict.len')
KEY = z3.Function('dict_key', z3.IntSort(), VV.Any)


def stream_pol(eng, selfv, args, kwargs, st, node):
    s = V('obj', oid='stream!%d' % next(eng.counter), extra={'stream_of': args[0]})
    st.trace.append(('make-stream', args[0], s))
    return [(st, s)]


def draw(eng, st, node, stream, arg):
    ok, bad = st, st.fork()
    v = V('any', z3.Const('drawn!%d' % next(eng.counter), VV.Any))
    ok.trace.append(('draw', stream, v, arg))
    bad.trace.append(('exhausted', stream))
    return [(ok, v), (bad, Raised(eng.make_exc('StopStream', node=node)))]


def h_getattr(eng, obj, name, st, node):
    if obj.k == 'obj' and obj.extra and ('stream_of' in obj.extra or 'key_stream' in obj.extra) and name == 'next':
        def nxt(eng, args, kwargs, st, node, _o=obj):
            return draw(eng, st, node, _o, args[0] if args else None)
        return [(st, V('func', py=('spec', nxt)))]
    if obj.k == 'module' and name == 'StopStream':
        return [(st, V('class', py='StopStream'))]
    if (obj.k == 'ref' and obj.cls == 'EventSoFar') or (obj.k == 'obj' and name == 'update'):
        if name == 'update':
            def upd(eng, a, kw, st, node, _o=obj):
                st.trace.append(('update', _o, a[0]))
                return [(st, NONE)]
            return [(st, V('func', py=('spec', upd)))]
    if obj.k in ('obj', 'ref') and name == 'copy':
        def cp(eng, a, kw, st, node, _o=obj):
            r = V('ref', cls='EventSoFar', oid='copy!%d' % next(eng.counter), extra={'copy_of': _o, 'event': True})
            st.trace.append(('copy', _o, r))
            return [(st, r)]
        return [(st, V('func', py=('spec', cp)))]
    if obj.k == 'obj' and obj.oid == 'stream_dict' and name == 'items':
        def items(eng, a, kw, st, node):
            return [(st, V('seq', extra={'len': NKEYS, 'facts': [NKEYS >= 0], 'get': (
                lambda e_, i, s_: vtuple([V('any', KEY(i)), V('obj', oid='key-stream[%s]' % str(z3.simplify(i)).replace(' ', ''),
                                                           extra={'key_stream': i})]))}))]
        return [(st, V('func', py=('spec', items)))]
    return None


# ---- Pbind._stream_dict_next ----------------------------------------------------------------------------------
def sdn_construct(eng, f, args, kwargs, st, node):
    return None


def sdn_builtin(eng, name, args, kwargs, st, node):
    if name == 'dict' and not args:
        first = not [e for e in st.trace if e[0] == 'new-event']
        r = V('ref', cls='EventSoFar', oid='the-partial-event' if first else 'another-dict!%d' % next(eng.counter),
              extra={'event': True})
        st.trace.append(('new-event', r))
        return [(st, r)]
    return None


def sdn_setitem(eng, obj, idx, v, st, node):
    if obj.k == 'ref' and obj.cls == 'EventSoFar':
        st.trace.append(('set', obj, idx, v))
        return [('next', st)]
    return None


def sdn_since(trace, ordinal=0):
    idx = -1
    for i, e in enumerate(trace):
        if e[0] == 'loop-head' and e[1] == ordinal:
            idx = i
    return trace[idx + 1:] if idx >= 0 else []


IS_TUPLE_KEY = lambda k: VV.tag_of(KEY(k)) == TAGS['tuple']


def sdn_pass(c, L):
    if L.phase != 'after':
        return z3.BoolVal(True)
    ev = [e for e in sdn_since(c.trace) if e[0] in ('draw', 'set', 'exhausted')]
    k = L.i - 1
    if not ev or ev[0][0] != 'draw':
        return z3.BoolVal(False)
    d = ev[0]
    ok = (d[1].k == 'obj' and d[1].extra.get('key_stream') is not None and d[3] is not None and d[3].k == 'ref'
          and d[3].oid == 'the-partial-event')                              # asked with the event built so far
    if not ok:
        return z3.BoolVal(False)
    cl = [d[1].extra['key_stream'] == k]                                    # the stream of key k
    sets = [e for e in ev[1:] if e[0] == 'set']
    if len(ev) != 1 + len(sets):
        return z3.BoolVal(False)
    if len(sets) == 1 and sets[0][2].k == 'any':
        cl += [sets[0][2].z == KEY(k), z3.Not(IS_TUPLE_KEY(k)), z3.BoolVal(sets[0][3] is d[2])]   # plain key: event[key] = the value drawn
        return z3.And(*cl)
    return z3.BoolVal(False)


def sdn_over(c, sq, k, elem):
    ok = elem.k == 'tuple' and len(elem.items) == 2 and elem.items[0].k == 'any' and elem.items[1].k == 'obj'
    if not ok:
        return z3.BoolVal(False), z3.BoolVal(False)
    return sq.extra['len'] == NKEYS, z3.And(elem.items[0].z == KEY(k), elem.items[1].extra['key_stream'] == k)


def sdn_post(c):
    r = c.resultv
    return z3.BoolVal(r.k == 'ref' and r.oid == 'the-partial-event')


contract(F, 'Pbind._stream_dict_next', props=('C13', 'C14'), params={'stream_dict': 'obj'},
         requires=lambda c: z3.ForAll([z3.Int('k')], z3.Not(IS_TUPLE_KEY(z3.Int('k')))),
         raises={'StopStream': None},
         ensures=[('returns-the-event-built-from-one-value-per-key', sdn_post)],
         loops={0: Loop(inv=sdn_pass, over=sdn_over, kinds={'name': 'any', 'stream': (lambda e, n: V('obj', oid='havoc')),
                                                              'stream_out': 'any'})},
         fields={'EventSoFar': {}}, class_modules={'EventSoFar': F},
         hooks={'getattr': h_getattr, 'builtin_first': sdn_builtin, 'setitem': sdn_setitem},
         opts={'generator_trace': False}, native=False,
         note='plain (non-tuple) keys; tuple keys (one value spread over several names) are bounded only (driver C14)')
_k = '%s::Pbind._stream_dict_next#plain-keys' % F
REGISTRY[_k] = REGISTRY.pop('%s::Pbind._stream_dict_next' % F)
REGISTRY[_k].key = _k


# ---- Pbind.__embed__ -----------------------------------------------------------------------------------------------
def sd_next_pol(eng, selfv, args, kwargs, st, node):
    ok, bad = st, st.fork()
    r = V('obj', oid='values-of-this-pass!%d' % next(eng.counter))
    ok.trace.append(('next-values', args[0], r))
    bad.trace.append(('exhausted', args[0]))
    return [(ok, r), (bad, Raised(eng.make_exc('StopStream', node=node)))]


def pb_listcomp(eng, e, it, st, node):
    # {k: stm.stream(v) for ...} is a DictComp (below); nothing here
    return None


def remember_in(eng, st):
    st.ghost = dict(st.ghost)
    st.ghost['inevent_at_head'] = st.env.get('inevent')


def pb_pass(c, L):
    if L.phase != 'after':
        return z3.BoolVal(True)
    ev = [e for e in sdn_since(c.trace) if e[0] in ('copy', 'next-values', 'update', 'yield', 'exhausted',
                                                    'stream-dict-made', 'make-stream')]       # (no stream is made in a pass)
    head = c.st.ghost.get('inevent_at_head')
    if [e[0] for e in ev] != ['copy', 'next-values', 'update', 'yield']:
        return z3.BoolVal(False)
    cp, nv, up, y = ev
    ok = (cp[1] is head                                                # a COPY of the current input event
          and nv[1].k == 'obj' and nv[1].oid == 'the-stream-dict'      # the values of this pass, from the streams made once
          and up[1] is cp[2] and up[2] is nv[2]                        # go into the copy
          and y[1] is cp[2]                                            # which is what is yielded
          and c.st.env['inevent'].k == 'obj' and str(c.st.env['inevent'].oid).startswith('sent!'))   # the answer is the next input
    return z3.BoolVal(bool(ok))


def pb_post(c):
    ev = [e for e in c.trace if e[0] in ('yield', 'exhausted')]
    quiet = True
    for k, e in enumerate(ev):
        if e[0] == 'exhausted':
            quiet = all(x[0] != 'yield' for x in ev[k:])
            break
    made = [e for e in c.trace if e[0] == 'stream-dict-made']
    return z3.BoolVal(bool(quiet) and len(made) == 1)


def pb_dictcomp(eng, e, st):
    st.trace.append(('stream-dict-made',))
    return [(st, V('obj', oid='the-stream-dict'))]


for kind, tag in (('obj', 'event'), ('none', 'no-input')):
    contract(F, 'Pbind.__embed__', props=('C13', 'C14'), params={'self': 'self', 'inevent': kind},
             ensures=[('streams-made-once;ends-quietly-when-a-key-stream-ends', pb_post)] if kind == 'obj' else
                     [('a-None-input-ends-the-pattern-at-once', lambda c: z3.BoolVal(
                         not [e for e in c.trace if e[0] in ('yield', 'copy', 'next-values')] and c.resultv.k == 'none'))],
             loops={0: Loop(early_exit='return', inv=pb_pass, kinds={'inevent': kind, 'event': (lambda e, n: V('obj', oid='havoc'))},
                            havoc_hook=remember_in)},
             fields={'Pbind': {'dict': 'obj'}, 'EventSoFar': {}}, class_modules={'Pbind': F, 'EventSoFar': F},
             hooks={'getattr': h_getattr, 'dictcomp': pb_dictcomp},
             policies={'Pbind._stream_dict_next': sd_next_pol, ST + '::stream': stream_pol},
             opts={'generator_trace': True}, native=False)
    _k = '%s::Pbind.__embed__#%s' % (F, tag)
    REGISTRY[_k] = REGISTRY.pop('%s::Pbind.__embed__' % F)
    REGISTRY[_k].key = _k


# ---- Pchain.__embed__ --------------------------------------------------------------------------------------------
# streams of the patterns in REVERSED order are made once; every pass: a copy of the input goes through all of
# them in that order, each getting what the previous one returned; the last result is yielded; what is sent back is
# the next input.  Two patterns (type case).
def pc_patterns(eng, name):
    return vlist([V('obj', oid='pattern0'), V('obj', oid='pattern1')])


def pc_builtin(eng, name, args, kwargs, st, node):
    if name == 'reversed' and len(args) == 1 and args[0].k == 'list' and args[0].items is not None:
        return [(st, vlist(list(reversed(args[0].items))))]
    return None


def pc_pass(c, L):
    made = [e for e in c.trace if e[0] == 'make-stream']
    ok_made = (len(made) == 2 and made[0][1].k == 'obj' and made[0][1].oid == 'pattern1'
               and made[1][1].oid == 'pattern0')                              # last pattern first
    if not ok_made:
        return z3.BoolVal(False)
    if L.phase != 'after':
        return z3.BoolVal(True)
    ev = [e for e in sdn_since(c.trace) if e[0] in ('copy', 'draw', 'yield', 'exhausted', 'make-stream')]
    head = c.st.ghost.get('inevent_at_head')
    if [e[0] for e in ev] != ['copy', 'draw', 'draw', 'yield']:
        return z3.BoolVal(False)
    cp, d1, d2, y = ev
    ok = (cp[1] is head and d1[1] is made[0][2] and d1[3] is cp[2]            # the copy into the LAST pattern's stream
          and d2[1] is made[1][2] and d2[3] is d1[2]                          # its result into the first pattern's stream
          and y[1] is d2[2]                                                   # that result is yielded
          and str(c.st.env['inevent'].oid).startswith('sent!'))
    return z3.BoolVal(bool(ok))


def quiet_post(name='inevent'):
    def post(c):
        ev = [e for e in c.trace if e[0] in ('yield', 'exhausted')]
        for k, e in enumerate(ev):
            if e[0] == 'exhausted':
                return z3.BoolVal(all(x[0] != 'yield' for x in ev[k:]) and c.resultv is c.st.env.get(name))
        return z3.BoolVal(True)
    return post


contract(F, 'Pchain.__embed__', props=('C13', 'C14'), params={'self': 'self', 'inevent': 'obj'},
         ensures=[('ends-quietly-with-the-current-input-when-a-stream-ends', quiet_post())],
         loops={0: Loop(inv=pc_pass, kinds={'inevent': 'obj', 'stream': (lambda e, n: V('obj', oid='havoc'))},
                        havoc_hook=remember_in)},
         fields={'Pchain': {'patterns': pc_patterns}, 'EventSoFar': {}}, class_modules={'Pchain': F, 'EventSoFar': F},
         hooks={'getattr': h_getattr, 'builtin_first': pc_builtin},
         policies={ST + '::stream': stream_pol}, opts={'generator_trace': True}, native=False)


# ---- Pevent.__embed__ --------------------------------------------------------------------------------------------
def pe_pass(c, L):
    made = [e for e in c.trace if e[0] == 'make-stream']
    if len(made) != 1 or made[0][1].k != 'obj' or made[0][1].oid != 'self.pattern':
        return z3.BoolVal(False)
    if L.phase != 'after':
        return z3.BoolVal(True)
    ev = [e for e in sdn_since(c.trace) if e[0] in ('draw', 'yield', 'exhausted', 'make-stream', 'copy')]
    if [e[0] for e in ev] != ['draw', 'yield']:
        return z3.BoolVal(False)
    d, y = ev
    ok = (d[1] is made[0][2] and d[3] is not None and d[3].k == 'obj' and d[3].oid == 'self.event'   # the pattern's OWN event
          and y[1] is d[2])
    return z3.BoolVal(bool(ok))


contract(F, 'Pevent.__embed__', props=('C13', 'C14'), params={'self': 'self', 'inevent': 'obj'},
         ensures=[('ends-quietly-with-the-current-input-when-the-stream-ends', quiet_post())],
         loops={0: Loop(inv=pe_pass, kinds={'inevent': 'obj'}, havoc_hook=remember_in)},
         fields={'Pevent': {'pattern': 'obj', 'event': 'obj'}}, class_modules={'Pevent': F},
         hooks={'getattr': h_getattr}, policies={ST + '::stream': stream_pol},
         opts={'generator_trace': True}, native=False)


# ---- Pkey.__embed__ ------------------------------------------------------------------------------------------------
HAS_KEY = z3.Function('input_event_has_key', VV.Any, z3.BoolSort())


def pk_getitem(eng, obj, idx, st, node):
    if obj.k == 'obj' and idx.k == 'any':
        outs = []
        for st1, has in eng.branch(st, HAS_KEY(idx.z), node):
            if has:
                r = V('obj', oid='looked-up!%d' % next(eng.counter))
                st1.trace.append(('lookup', obj, idx, r))
                outs.append((st1, r))
            else:
                st1.trace.append(('missing', obj, idx))
                outs.append((st1, Raised(eng.make_exc('KeyError', node=node))))
        return outs
    return None


def pk_pass(c, L):
    made = [e for e in c.trace if e[0] == 'make-stream']
    if len(made) != 1 or made[0][1].k != 'obj' or made[0][1].oid != 'self.key':
        return z3.BoolVal(False)
    if L.phase != 'after':
        return z3.BoolVal(True)
    ev = [e for e in sdn_since(c.trace) if e[0] in ('draw', 'lookup', 'yield', 'exhausted', 'missing', 'make-stream')]
    head = c.st.ghost.get('inevent_at_head')
    if [e[0] for e in ev] != ['draw', 'lookup', 'yield']:
        return z3.BoolVal(False)
    d, lk, y = ev
    ok = (d[1] is made[0][2] and d[3] is head                                 # the key stream asked with the input event
          and lk[1] is head and lk[2] is d[2]                                 # the input event's value under THAT key
          and y[1] is lk[3])
    return z3.BoolVal(bool(ok))


def pk_post(c):
    ev = [e for e in c.trace if e[0] in ('yield', 'exhausted', 'missing')]
    for k, e in enumerate(ev):
        if e[0] in ('exhausted', 'missing'):
            return z3.BoolVal(all(x[0] != 'yield' for x in ev[k:]))
    return z3.BoolVal(True)


contract(F, 'Pkey.__embed__', props=('C13', 'C14'), params={'self': 'self', 'inevent': 'obj'},
         raises={},
         ensures=[('a-missing-key-or-an-ended-key-stream-ends-it-quietly', pk_post)],
         loops={0: Loop(inv=pk_pass, over=counts('length'), kinds={'inevent': 'obj', '_': 'int'},
                        havoc_hook=remember_in)},
         fields={'Pkey': {'key': 'obj', 'length': 'obj'}}, class_modules={'Pkey': F},
         hooks={'getattr': h_getattr, 'getitem': pk_getitem},
         policies={ST + '::stream': stream_pol, 'counter': counter_pol},
         opts={'generator_trace': True}, native=False)


# ---- Pmono._embed_mono: one synth, then only parameter changes for THAT synth --------------------------------------
# while no node exists (first pass): an event of type '_mono_on' is made from the input, updated with the values of
# this pass, PREPARED with the pattern's instrument (that is where the node id comes from: seq_event_keys), a
# '_mono_off' event carrying the kept keys of this event is registered for clean-up, and the event is yielded;
# afterwards (every other pass): an event of type '_mono_set' is made from the input, updated with the values of
# this pass, and given the SAME server, node id and parameter names as the first event, then yielded.
# When a key stream ends, the clean-up runs (the registered '_mono_off' releases the synth) and the pattern ends
# quietly with the current input.
E = 'sc3/seq/event.py'
FIRST = z3.Bool('no_node_yet')


def opt_kind(tag):
    def k(eng, name):
        return V('opt', extra={'isnone': FIRST, 'carried': tag})
    return k


def event_pol(eng, selfv, args, kwargs, st, node):
    t = kwargs.get('type')
    r = V('ref', cls='MonoEvent', oid='event!%d' % next(eng.counter),
          extra={'event': True, 'type': t.py if t is not None and t.k == 'str' else None, 'from': args[0] if args else None})
    st.trace.append(('new-event', r))
    return [(st, r)]


def mono_getattr(eng, obj, name, st, node):
    if obj.k == 'ref' and obj.cls == 'MonoEvent':
        if name == 'update':
            def upd(eng, a, kw, st, node, _o=obj):
                st.trace.append(('update', _o, a[0]))
                return [(st, NONE)]
            return [(st, V('func', py=('spec', upd)))]
        if name == '_prepare_event':
            def prep(eng, a, kw, st, node, _o=obj):
                st.trace.append(('prepare', _o, a[0]))
                return [(st, NONE)]
            return [(st, V('func', py=('spec', prep)))]
    if obj.k == 'module' and name == 'CleanupEntry':
        return [(st, V('class', py='CleanupEntry'))]
    if obj.k == 'obj' and obj.oid == 'the-cleanup' and name in ('add_event', 'run'):
        def cl(eng, a, kw, st, node, _n=name):
            st.trace.append(('cleanup-' + _n, tuple(a)))
            return [(st, NONE)]
        return [(st, V('func', py=('spec', cl)))]
    return h_getattr(eng, obj, name, st, node)


def mono_construct(eng, f, args, kwargs, st, node):
    if f.k == 'class' and f.py == 'CleanupEntry':
        return [(st, V('obj', oid='the-cleanup'))]
    if f.k == 'class' and f.py == 'event':
        return event_pol(eng, None, args, kwargs, st, node)
    return None


def mono_getitem(eng, obj, idx, st, node):
    if obj.k == 'ref' and obj.cls == 'MonoEvent' and idx.k == 'str':
        return [(st, V('obj', oid='%s[%s]' % (obj.oid, idx.py), extra={'of_event': obj, 'key': idx.py}))]
    return None


def mono_slice(eng, obj, sl, st, node):
    # event['msg_params'][::2]: the parameter NAMES (every other element of name, value, name, value ...)
    if obj.k == 'obj' and obj.extra and obj.extra.get('key') == 'msg_params' and sl.lower is None and sl.upper is None \
            and isinstance(sl.step, ast.Constant) and sl.step.value == 2:
        return [(st, V('obj', oid=obj.oid + '[::2]', extra={'names_of': obj}))]
    return None


def mono_setitem(eng, obj, idx, v, st, node):
    if obj.k == 'ref' and obj.cls == 'MonoEvent' and idx.k == 'str':
        st.trace.append(('set', obj, idx.py, v))
        return [('next', st)]
    return None


def mono_dictcomp(eng, e, st):
    made = [x for x in st.trace if x[0] == 'stream-dict-made']
    if not made:
        st.trace.append(('stream-dict-made',))
        return [(st, V('obj', oid='the-stream-dict'))]
    # {k: event[k] for k in kept_keys}: the kept keys of the event named in the element expression
    src = st.env.get(e.value.value.id) if isinstance(e.value, ast.Subscript) and isinstance(e.value.value, ast.Name) else None
    it = e.generators[0].iter
    r = V('obj', oid='kept-keys-of!%d' % next(eng.counter),
          extra={'kept_from': src, 'keys': st.env.get(it.id) if isinstance(it, ast.Name) else None})
    return [(st, r)]


def mono_remember(eng, st):
    st.ghost = dict(st.ghost)
    st.ghost['inevent_at_head'] = st.env.get('inevent')


def mono_pass(c, L):
    if L.phase != 'after':
        return z3.BoolVal(True)
    ev = [e for e in sdn_since(c.trace) if e[0] in ('new-event', 'next-values', 'update', 'prepare', 'set', 'cleanup-add_event',
                                                   'cleanup-run', 'yield', 'exhausted', 'stream-dict-made')]
    head = c.st.ghost.get('inevent_at_head')
    kinds = [e[0] for e in ev]
    env = c.st.env
    if kinds == ['new-event', 'next-values', 'update', 'prepare', 'new-event', 'cleanup-add_event', 'yield']:
        ne, nv, up, pr, off, ca, y = ev
        on = ne[1]
        kept = off[1].extra['from']
        ok = (on.extra['type'] == '_mono_on' and on.extra['from'] is head
              and up[1] is on and up[2] is nv[2]
              and pr[1] is on and pr[2].k == 'obj' and pr[2].oid == 'self.instrument'       # prepared with THE instrument
              and off[1].extra['type'] == '_mono_off' and kept is not None and kept.k == 'obj' and kept.extra.get('kept_from') is on
              and kept.extra.get('keys') is not None and kept.extra['keys'].k == 'obj' and kept.extra['keys'].oid == 'self._kept_keys'
              and len(ca[1]) == 1 and ca[1][0] is off[1]                                   # the release is registered
              and y[1] is on
              # what is carried to the later passes comes from THIS event
              and env['server'].k == 'obj' and env['server'].extra.get('of_event') is on and env['server'].extra['key'] == 'server'
              and env['node_id'].k == 'obj' and env['node_id'].extra.get('of_event') is on and env['node_id'].extra['key'] == 'node_id'
              and env['mono_params'].k == 'obj' and env['mono_params'].extra.get('names_of') is not None
              and env['mono_params'].extra['names_of'].extra.get('of_event') is on)
        return z3.And(FIRST, z3.BoolVal(bool(ok)))
    if kinds == ['new-event', 'next-values', 'update', 'set', 'set', 'set', 'yield']:
        ne, nv, up, s1, s2, s3, y = ev
        ev_ = ne[1]
        got = {s[2]: s for s in (s1, s2, s3)}
        ok = (ev_.extra['type'] == '_mono_set' and ev_.extra['from'] is head and up[1] is ev_ and up[2] is nv[2]
              and set(got) == {'server', 'node_id', 'mono_params'} and all(s[1] is ev_ for s in (s1, s2, s3))
              and all(got[k][3].k == 'opt' and got[k][3].extra.get('carried') == k for k in got)   # the SAME synth as before
              and y[1] is ev_)
        return z3.And(z3.Not(FIRST), z3.BoolVal(bool(ok)))
    return z3.BoolVal(False)


def mono_post(c):
    t = [e for e in c.trace if e[0] in ('yield', 'exhausted', 'cleanup-run')]
    for k, e in enumerate(t):
        if e[0] == 'exhausted':
            rest = [x[0] for x in t[k + 1:]]
            return z3.BoolVal(rest == ['cleanup-run'] and c.resultv is c.st.env.get('inevent'))   # released, then quiet
    return z3.BoolVal(True)


contract(F, 'Pmono._embed_mono', props=('C14', 'C13'), params={'self': 'self', 'inevent': 'obj'},
         ensures=[('when-a-key-stream-ends-the-clean-up-runs-once-and-nothing-more-is-yielded', mono_post)],
         loops={0: Loop(inv=mono_pass,
                        kinds={'inevent': 'obj', 'event': (lambda e, n: V('obj', oid='havoc')),
                               'server': opt_kind('server'), 'node_id': opt_kind('node_id'), 'mono_params': opt_kind('mono_params')},
                        havoc_hook=mono_remember)},
         fields={'Pmono': {'instrument': 'obj', '_kept_keys': 'obj', 'dict': 'obj'}, 'MonoEvent': {}},
         class_modules={'Pmono': F, 'MonoEvent': E},
         hooks={'getattr': mono_getattr, 'construct': mono_construct, 'getitem': mono_getitem, 'setitem': mono_setitem,
                'dictcomp': mono_dictcomp, 'slice': mono_slice},
         policies={'Pbind._stream_dict_next': sd_next_pol, 'Pmono._stream_dict_next': sd_next_pol, ST + '::stream': stream_pol,
                   E + '::event': event_pol},
         opts={'generator_trace': True}, native=False,
         note='the loop state "a node exists" is one ghost boolean shared by the three carried locals; what '
              '_prepare_event and the mono events send is seq_event_keys')
