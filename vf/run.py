"""Orchestrator: ``python3-vt -m vf.run Cxx [--tier quick|thorough] [--replay F]``.

Per property it (1) generates verification conditions from the *current*
/repo sources for every function under a sidecar contract and discharges them
with z3/cvc5 (vf.pyvc), (2) runs the bounded run-time contract driver in the
repository's own interpreter, (3) applies the verdict policy of DESIGN §2.3,
(4) writes /verif/evidence/<id>.json and validates it against the schema.

Exit: 0 held / 1 violation (VIOLATION line printed) / 2 nothing decided /
3 checker failure.  unknown, timeouts and tracebacks are never violations.
"""
import argparse
import json
import os
import subprocess
import sys
import tempfile
import time
import traceback

from .common import VERIF, REPO, jsonable

PY_REPO = os.environ.get('SC3_PYTHON', '/venv/bin/python')
SCHEMA = '/root/.vp/EVIDENCE.schema.json'
SCHEMA_COPY = os.path.join(VERIF, 'vf', 'EVIDENCE.schema.json')



def contract_module_docs(mods):
    """[{module, states_and_abstracts}] read from the docstrings of vf/contracts/<module>.py (no import)."""
    import ast as _ast
    out = []
    for m in mods:
        path = os.path.join(os.path.dirname(os.path.abspath(__file__)), 'contracts', m + '.py')
        try:
            doc = _ast.get_docstring(_ast.parse(open(path).read())) or ''
        except Exception:
            doc = ''
        out.append({'module': 'vf/contracts/%s.py' % m, 'states_and_abstracts': ' '.join(doc.split())[:3000]})
    return out


def load_known():
    p = os.path.join(VERIF, 'known_findings.json')
    if not os.path.exists(p):
        return {'findings': [], 'fixed': []}
    with open(p) as f:
        return json.load(f)


def match_known(known, prop, v):
    for k in known.get('findings', []):
        if k.get('property') == prop and k.get('key') == v.get('key'):
            return k
    return None


def run_driver(module, prop, tier, seed, only=None, timeout=None):
    """Run a bounded driver under the repository interpreter."""
    fd, out = tempfile.mkstemp(prefix='vf_%s_' % prop, suffix='.json',
                               dir=os.path.join(VERIF, '.work'))
    os.close(fd)
    env = dict(os.environ)
    env['PYTHONPATH'] = VERIF + os.pathsep + REPO + os.pathsep + env.get('PYTHONPATH', '')
    env['SC3_VERIF'] = '1'
    env['VERIF_TIER'] = tier
    env['VERIF_SEED'] = str(seed)
    env.setdefault('PYTHONHASHSEED', '0')
    cmd = [PY_REPO, '-m', module, '--tier', tier, '--seed', str(seed),
           '--out', out]
    if only:
        cmd += ['--only', only]
    t0 = time.time()
    try:
        p = subprocess.run(cmd, cwd=VERIF, env=env, capture_output=True,
                           text=True, timeout=timeout)
        rc, so, se = p.returncode, p.stdout, p.stderr
    except subprocess.TimeoutExpired as e:
        rc, so, se = -9, '', 'driver timed out after %s s' % timeout
    res = None
    try:
        with open(out) as f:
            txt = f.read()
        if txt.strip():
            res = json.loads(txt)
    except Exception:
        res = None
    finally:
        try:
            os.unlink(out)
        except OSError:
            pass
    if res is None:
        res = {'bounded': [], 'violations': [], 'notes': [],
               'errors': ['driver %s produced no result (rc=%s): %s'
                          % (module, rc, (se or so)[-2000:])]}
    res['driver'] = module
    res['driver_wall_s'] = round(time.time() - t0, 2)
    return res


def write_replay(prop, v, idx):
    d = os.path.join(VERIF, 'replays', prop)
    os.makedirs(d, exist_ok=True)
    name = ''.join(c if c.isalnum() or c in '-_.' else '_'
                   for c in str(v.get('key') or v.get('obligation')))[:80]
    path = os.path.join(d, '%s_%d.json' % (name, idx))
    with open(path, 'w') as f:
        json.dump(jsonable(dict(v, property=prop)), f, indent=1)
    return path


def validate_evidence(ev):
    try:
        import jsonschema
    except ImportError:
        return None
    sp = SCHEMA if os.path.exists(SCHEMA) else SCHEMA_COPY
    with open(sp) as f:
        schema = json.load(f)
    jsonschema.validate(ev, schema)
    return True


def do_replay(prop, path):
    """Replay a recorded violation against the real code of the current tree.
    exit 1 = reproduces, 0 = does not reproduce."""
    with open(path) as f:
        case = json.load(f)
    kind = case.get('decider')
    if kind == 'pyvc':
        from .pyvc import api
        rc = api.replay(case)
        sys.exit(rc)
    mod = case.get('driver') or ('vf.drivers.' + prop)
    env = dict(os.environ)
    env['PYTHONPATH'] = VERIF + os.pathsep + REPO + os.pathsep + env.get('PYTHONPATH', '')
    env['SC3_VERIF'] = '1'
    p = subprocess.run([PY_REPO, '-m', mod, '--replay', path], cwd=VERIF,
                       env=env)
    sys.exit(p.returncode)


def main(argv=None):
    ap = argparse.ArgumentParser()
    ap.add_argument('prop')
    ap.add_argument('--tier', default=os.environ.get('VERIF_TIER') or 'quick')
    ap.add_argument('--seed', type=int,
                    default=int(os.environ.get('VERIF_SEED', '0') or 0))
    ap.add_argument('--replay', default=None)
    ap.add_argument('--no-driver', action='store_true')
    ap.add_argument('--no-proof', action='store_true')
    ap.add_argument('--only', default=None)
    a = ap.parse_args(argv)
    prop = a.prop.upper()
    if a.tier not in ('quick', 'thorough'):
        a.tier = 'quick'
    if a.replay:
        return do_replay(prop, a.replay)

    os.makedirs(os.path.join(VERIF, '.work'), exist_ok=True)
    os.makedirs(os.path.join(VERIF, 'evidence'), exist_ok=True)
    t0 = time.time()
    from . import props
    spec = props.PROPS[prop]
    known = load_known()
    checker_errors = []
    violations = []       # dicts with decider
    proof = None

    # ---- A: proof part -------------------------------------------------
    if spec.get('contracts') and not a.no_proof:
        try:
            from .pyvc import api
            proof = api.verify(prop, spec['contracts'], a.tier, a.seed)
            for v in proof['violations']:
                v['decider'] = 'pyvc'
                violations.append(v)
            checker_errors += proof.get('errors', [])
        except Exception:
            checker_errors.append('pyvc crashed: ' + traceback.format_exc())

    # ---- B: bounded drivers ---------------------------------------------
    dres = []
    if not a.no_driver:
        for mod in spec.get('drivers', []):
            tmo = spec.get('driver_timeout', {}).get(a.tier, 1500 if a.tier == 'quick' else 7200)
            r = run_driver(mod, prop, a.tier, a.seed, a.only, tmo)
            dres.append(r)
            for v in r['violations']:
                v['decider'] = 'bounded'
                v['driver'] = mod
                violations.append(v)
            checker_errors += r.get('errors', [])

    # ---- thorough tier: engine self-test on a scratch copy (mutants must turn
    # an obligation red, semantics-preserving edits must stay quiet) -----------
    selftest = None
    if a.tier == 'thorough' and spec.get('contracts') and not a.no_proof \
            and os.environ.get('SC3_REPO') is None:
        try:
            from . import selftest as stt
            selftest = stt.main(only=prop, quiet=True)
        except SystemExit:
            pass
        except Exception:
            checker_errors.append('selftest crashed: ' + traceback.format_exc()[-800:])

    # ---- verdict ----------------------------------------------------------
    new_v, known_v = [], []
    for v in violations:
        k = match_known(known, prop, v)
        (known_v if k else new_v).append(v)
    seen = set()
    for v in known_v:
        if v['key'] not in seen:
            seen.add(v['key'])
            print('KNOWN-FINDING: property=%s %s: %s' % (prop, v['key'], ' '.join(str(v['what']).split())[:400]))
    for i, v in enumerate(new_v):
        path = write_replay(prop, v, i)
        v['replay_file'] = path
        tail = ''
        if v.get('decider') == 'pyvc' and not v.get('input'):
            tail = ' no-failing-input-found'
        print('VIOLATION property=%s replay=%s obligation=%s :: %s%s'
              % (prop, path, v['obligation'], ' '.join(str(v['what']).split())[:300], tail))

    # ---- evidence -----------------------------------------------------------
    bounded = [b for r in dres for b in r['bounded']]
    notes = [n for r in dres for n in r.get('notes', [])]
    cov = {}
    obligations = discharged = 0
    if proof:
        obligations = proof['obligations']
        discharged = proof['discharged']
        cov.update({
            'obligations': obligations,
            'discharged': discharged,
            'undecided': proof['undecided'],
            'functions_under_contract': proof['functions'],
            'functions_out_of_subset': proof.get('out_of_subset', []),
            'obligation_results': proof['results'],
            'solver_ms_total': proof['solver_ms_total'],
            'backends': proof['backends'],
            'vacuity_checks': proof.get('vacuity', {}),
            'lemmas': proof.get('lemmas', []),
            'extraction_drops': proof.get('drops', []),
            # what each contract module abstracts (its own statement: module docstring, verbatim)
            'contract_modules': contract_module_docs(spec.get('contracts', [])),
        })
    if selftest is not None:
        cov['mutation_selftest'] = selftest
    cov['checker_cmd'] = './check %s --tier %s' % (prop, a.tier)
    cov['trusted_base'] = list(spec.get('trusted_base', [])) + \
        (proof.get('trusted', []) if proof else [])
    evals = sum(b['evaluations'] for b in bounded)
    dist = sum(b['distinct_nontrivial'] for b in bounded)
    samples = []
    if proof:
        samples += [{'obligation': r['name'], 'result': r['result'],
                     'backend': r['backend'], 'ms': r['ms']}
                    for r in proof['results'][:4]]
    for b in bounded:
        samples += [{'bounded': b['name'], 'case': s} for s in b['samples'][:2]]
    cov['evaluations'] = evals + obligations
    cov['distinct_nontrivial'] = dist + discharged
    cov['rule'] = ('proved: one evaluation per verification condition generated '
                   'from the current /repo source, distinct = discharged (unsat) '
                   'conditions; bounded: per entry of coverage.bounded (each '
                   'states its own rule); the two kinds are never mixed in '
                   'obligations/discharged')
    cov['samples'] = samples[:12] or [{'note': 'nothing explored'}]
    cov['bounded'] = bounded
    cov['bounded_labelled_not_proved'] = True
    cov['unreached_clauses'] = spec.get('unreached', [])
    cov['notes'] = notes
    cov['explanation'] = spec.get('explanation') or (
        'Contracts (pre/postconditions, invariants, frames) are stated on the real '
        'functions of /repo in sidecar files; verification conditions are generated '
        'from the current source by pyvc and discharged by z3/cvc5 (coverage.'
        'obligations/discharged, per-obligation results in obligation_results); '
        'clauses outside the provable subset are decided by bounded run-time '
        'contract drivers listed in coverage.bounded (never counted as proved).')
    cov['known_findings_reported'] = sorted(seen)
    cov['violations_detail'] = [
        {k: v.get(k) for k in ('obligation', 'what', 'key', 'decider',
                               'replay_file', 'input')} for v in new_v]
    cov['checker_errors'] = checker_errors
    level = spec['level']
    oos_funcs = (proof or {}).get('out_of_subset', [])
    if level == 'proof' and (not proof or discharged < obligations
                             or obligations == 0 or oos_funcs):
        # a proof claim that did not fully discharge - or that lost a function to the
        # out-of-subset list on this tree - is reported at the level actually reached on this run
        level = 'other'
        cov['level_downgraded'] = ('claimed proof, but %d of %d obligations discharged and %d function '
                                   'case(s) out of the subset on this run' % (discharged, obligations, len(oos_funcs)))
    ev = {
        'property_id': prop, 'tier': a.tier, 'seed': a.seed, 'level': level,
        'coverage': cov,
        'assumptions': list(spec.get('assumptions', [])) +
                       (proof.get('assumptions', []) if proof else []),
        'wall_s': round(time.time() - t0, 2),
        'violations': len(new_v),
    }
    ev = jsonable(ev)
    try:
        validate_evidence(ev)
    except Exception as e:
        checker_errors.append('evidence does not validate: %s' % str(e)[:500])
    evdir = os.environ.get('VERIF_EVIDENCE_DIR') or os.path.join(VERIF, 'evidence')
    os.makedirs(evdir, exist_ok=True)
    with open(os.path.join(evdir, prop + '.json'), 'w') as f:
        json.dump(ev, f, indent=1)

    decided = bool(bounded) or discharged > 0
    print('%s tier=%s obligations=%d discharged=%d bounded_evaluations=%d '
          'violations=%d known=%d errors=%d wall=%.1fs'
          % (prop, a.tier, obligations, discharged, evals, len(new_v),
             len(seen), len(checker_errors), time.time() - t0))
    if new_v:
        sys.exit(1)
    if checker_errors:
        for e in checker_errors:
            print('CHECKER-ERROR:', str(e)[:1500])
        sys.exit(3)
    if not decided:
        sys.exit(2)
    sys.exit(0)


if __name__ == '__main__':
    main()
