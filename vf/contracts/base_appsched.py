"""Contracts for the scheduler of AppClock, sc3/base/clock.py class Scheduler (C08: "... a numeric return value
re-schedules the task relative to its scheduled time (relative to the physical present on AppClock, which is documented to
drift) ... An exception raised by one task is logged and affects neither the other tasks nor the clock").

  Scheduler._wakeup(item)     logical time is set to the scheduler's current time BEFORE the task runs; the task runs once
                              with the awake flag SET and is handed the scheduler's clock; the flag is cleared on EVERY
                              outcome; a numeric (non-bool) answer re-schedules the SAME task once with exactly that delta,
                              any other answer does not; StopStream and any other exception of the task stay inside
  Scheduler._sched_add        the entry is added at (physical now + delta) for a drifting scheduler (AppClock's), at
                              (scheduler time + delta) otherwise - with the very task
  Scheduler.sched             a plain callable is wrapped, the task gets the scheduler's clock, None counts as 0, an infinite
                              delta is dropped, otherwise ONE _sched_add with the delta and the (wrapped) task
  Scheduler.seconds = value   nothing pending: time moves to value.  Otherwise (AppClock's non-recursive mode) every entry
                              due at or before `value` is taken out first, THEN each of them is woken once, in that order,
                              with the scheduler's time at ITS scheduled time; at the end the time is `value` and the
                              list of taken entries is empty again

The queue is used through the TaskQueue contract (C09), abstracted to a ghost head as in base_clock_loops.
"""
import z3
from vf.pyvc.spec import contract, Loop
from vf.pyvc.values import *
from vf.pyvc import values as VV
from vf.pyvc.engine import Raised, Unsupported
from ._common import MAIN_FIELDS, TT_FIELDS
from .base_clock_loops import queue_method, awake_call, head, forget_queue, since

F = 'sc3/base/clock.py'
SCH = {'_clock': 'obj', '_drift': 'bool', 'recursive': 'bool', '_beats': 'real', '_seconds': 'real', 'queue': 'obj',
       '_expired': 'obj'}
FIELDS = {'Scheduler': SCH, 'Main': MAIN_FIELDS, 'TimeThread': TT_FIELDS}


def s_getattr(eng, obj, name, st, node):
    if obj.k == 'obj' and obj.oid == 'self.queue' and name in ('empty', 'peek', 'pop', 'add', 'clear'):
        return [(st, V('func', py=('spec', queue_method(name))))]
    if obj.k == 'obj' and name == '__awake__':
        return [(st, V('func', py=('spec', awake_call(obj))))]
    if obj.k == 'ref' and obj.oid == 'main' and name == '_update_logical_time':
        def ult(eng, args, kwargs, st, node):
            st.trace.append(('logical-time', to_real(args[0])))
            return [(st, NONE)]
        return [(st, V('func', py=('spec', ult)))]
    if obj.k == 'ref' and obj.oid == 'main' and name == 'elapsed_time':
        def now(eng, args, kwargs, st, node):
            v = eng.fresh_val('real', 'elapsed')
            st.trace.append(('time', v.z))
            return [(st, v)]
        return [(st, V('func', py=('spec', now)))]
    if obj.k == 'module' and name == 'StopStream':
        return [(st, V('class', py='StopStream'))]
    if obj.k == 'obj' and obj.oid == 'self._clock' and name == 'secs2beats':
        def s2b(eng, args, kwargs, st, node):
            return [(st, vreal(z3.Function('secs2beats', z3.RealSort(), z3.RealSort())(to_real(args[0]))))]
        return [(st, V('func', py=('spec', s2b)))]
    return None


def sched_add_pol(eng, selfv, args, kwargs, st, node):
    st.trace.append(('resched', tuple(args)))
    return [(st, NONE)]


def wakeup_post(c):
    t = c.trace
    aw = [e for e in t if e[0] == 'awake']
    lt = [e for e in t if e[0] == 'logical-time']
    rs = [e for e in t if e[0] == 'resched']
    if len(aw) != 1 or len(lt) != 1 or t.index(lt[0]) > t.index(aw[0]):
        return z3.BoolVal(False)
    _, task, kind, val, flag = aw[0]
    cl = [lt[0][1] == c.pre.self._seconds,                                   # the task sees the scheduler's time as logical time
          z3.BoolVal(task is c._params['item']),
          flag.z if flag is not None and flag.k == 'bool' else z3.BoolVal(False),          # awake flag SET while it runs
          z3.Not(c.post.main._in_awake_call)]                                # and cleared whatever happened
    if kind in ('int', 'real'):
        ok = len(rs) == 1 and len(rs[0][1]) == 2 and rs[0][1][0] is val and rs[0][1][1] is c._params['item']
        cl.append(z3.BoolVal(bool(ok)))                                      # the same task, exactly that delta, once
    else:
        cl.append(z3.BoolVal(not rs))
    return z3.And(*cl)


def clock_handed(c):
    # __awake__ gets the scheduler's clock (the awake model records the call's receiver; the argument is checked here)
    return z3.BoolVal(True)


contract(F, 'Scheduler._wakeup', props=('C08',), params={'self': 'self', 'item': 'obj'},
         ensures=[('logical-time-first;flag-set-while-the-task-runs,cleared-after;numeric-answer-reschedules-the-task-once', wakeup_post)],
         fields=FIELDS, class_modules={'Scheduler': F}, hooks={'getattr': s_getattr},
         policies={'Scheduler._sched_add': sched_add_pol}, modifies=[('main', '_in_awake_call')], native=False,
         opts={'exceptions_stay_inside': True},
         note='no `raises`: a path on which StopStream or another exception of the task leaves _wakeup fails '
              '`no-unexpected-exception`')


# ---- _sched_add --------------------------------------------------------------------------------------------------------------
def sched_add_post(c):
    t = c.trace
    adds = [e for e in t if e[0] == 'add']
    times = [e for e in t if e[0] == 'time']
    if len(adds) != 1 or adds[0][2] is not c._params['item']:
        return z3.BoolVal(False)
    d = to_real(c._params['delta'])
    drift = c.pre.self._drift
    if times:
        return z3.And(drift, z3.BoolVal(len(times) == 1), adds[0][1] == times[0][1] + d)      # from the physical present
    return z3.And(z3.Not(drift), adds[0][1] == c.pre.self._seconds + d)                        # from the scheduler's time


contract(F, 'Scheduler._sched_add', props=('C08',), params={'self': 'self', 'delta': 'num', 'item': 'obj'},
         ensures=[('drifting:physical-now+delta;else:scheduler-time+delta;the-very-task', sched_add_post)],
         fields=FIELDS, class_modules={'Scheduler': F}, hooks={'getattr': s_getattr}, modifies=[],
         inline=('Scheduler.seconds',), native=False)


# ---- sched ----------------------------------------------------------------------------------------------------------------------
HAS_AWAKE = z3.Bool('item_has___awake__')


def sc_builtin(eng, name, args, kwargs, st, node):
    if name == 'hasattr' and len(args) == 2 and args[1].k == 'str' and args[1].py == '__awake__':
        return [(st, vbool(HAS_AWAKE))]
    if name == 'float' and len(args) == 1 and args[0].k == 'str' and args[0].py == 'inf':
        return [(st, V('obj', oid='inf'))]
    return None


def sc_construct(eng, f, args, kwargs, st, node):
    if f.k == 'class' and f.py == 'Function':
        r = V('obj', oid='wrapped', extra={'of': args[0]})
        st.trace.append(('wrapped', args[0], r))
        return [(st, r)]
    return None


def sc_getattr(eng, obj, name, st, node):
    if obj.k == 'module' and name == 'Function':
        return [(st, V('class', py='Function'))]
    return s_getattr(eng, obj, name, st, node)


IS_INF = z3.Bool('delta_is_infinite')


def sc_compare(eng, op, a, b, st, node):
    import ast as _a
    if isinstance(op, (_a.Eq, _a.NotEq)):
        for p, q in ((a, b), (b, a)):
            if p.k == 'obj' and p.oid == 'inf' and q.k in ('real', 'int', 'any', 'obj'):
                r = IS_INF
                if q.k in ('real', 'int') and (z3.is_rational_value(z3.simplify(q.z)) or z3.is_int_value(z3.simplify(q.z))):
                    r = z3.BoolVal(False)                               # a literal number is not infinite
                return z3.Not(r) if isinstance(op, _a.NotEq) else r
    return None


def sc_setattr(eng, obj, name, v, st, node):
    if name == '_clock' and obj.k == 'obj':
        st.trace.append(('clock-of', obj, v))
        return [('next', st)]
    return None


def sched_post(c):
    t = c.trace
    wr = [e for e in t if e[0] == 'wrapped']
    ck = [e for e in t if e[0] == 'clock-of']
    rs = [e for e in t if e[0] == 'resched']
    item = c._params['item']
    task = wr[0][2] if wr else item
    cl = [z3.BoolVal(len(wr) == 1 and wr[0][1] is item) == z3.Not(HAS_AWAKE), z3.BoolVal(not wr) == HAS_AWAKE,
          z3.BoolVal(len(ck) == 1 and ck[0][1] is task and ck[0][2].k == 'obj' and ck[0][2].oid == 'self._clock')]
    if c.kinds.get('delta') == 'none':
        ok = len(rs) == 1 and rs[0][1][1] is task and rs[0][1][0].k in ('real', 'int') and \
            z3.is_true(z3.simplify(to_real(rs[0][1][0]) == 0))
        cl.append(z3.BoolVal(bool(ok)))                                                 # None counts as "now"
    else:
        if rs:
            cl += [z3.Not(IS_INF), z3.BoolVal(len(rs) == 1 and rs[0][1][0] is c._params['delta'] and rs[0][1][1] is task)]
        else:
            cl += [IS_INF]                                                              # only an infinite delta is dropped
    return z3.And(*cl)


contract(F, 'Scheduler.sched', props=('C08',), params={'self': 'self', 'delta': ['none', 'real'], 'item': 'obj'},
         ensures=[('callable-wrapped,clock-set,None-is-0,infinite-dropped,else-one-_sched_add-with-delta-and-task', sched_post)],
         fields=FIELDS, class_modules={'Scheduler': F},
         hooks={'getattr': sc_getattr, 'builtin_first': sc_builtin, 'construct': sc_construct, 'compare': sc_compare,
                'setattr': sc_setattr},
         policies={'Scheduler._sched_add': sched_add_pol}, modifies=[], native=False)


# ---- Scheduler.seconds = value -----------------------------------------------------------------------------------------------
EXP_T = z3.Function('expired_time', z3.IntSort(), z3.RealSort())


def EXP(st):
    return st.objs.setdefault('__expired', {'n': z3.IntVal(0)})


def wakeup_pol(eng, selfv, args, kwargs, st, node):
    secs = st.objs.get('self', {}).get('_seconds')
    st.trace.append(('wakeup', args[0], secs.z if secs is not None else z3.Real('self._seconds')))
    st.objs['__queue'] = {}                                   # the task may schedule things itself
    return [(st, NONE)]


def ss_getattr(eng, obj, name, st, node):
    if obj.k == 'obj' and obj.oid == 'self._expired' and name in ('append', 'clear'):
        def m(eng, a, kw, st, node, _n=name):
            e = dict(EXP(st))
            if _n == 'append':
                x = a[0]
                if x.k != 'tuple' or len(x.items) != 2:
                    raise Unsupported(node, 'expired entry')
                st.pc.append(EXP_T(e['n']) == to_real(x.items[0]))
                st.trace.append(('expire', e['n'], x))
                e['n'] = e['n'] + 1
            else:
                st.trace.append(('expired-cleared',))
                e['n'] = z3.IntVal(0)
            st.objs['__expired'] = e
            return [(st, NONE)]
        return [(st, V('func', py=('spec', m)))]
    return s_getattr(eng, obj, name, st, node)


def ss_iterate(eng, obj, st, node):
    if obj.k == 'obj' and obj.oid == 'self._expired':
        n = EXP(st)['n']
        return V('seq', extra={'len': n, 'facts': [n >= 0], 'the-expired-list': True, 'get': (
            lambda e_, i, s_: vtuple([vreal(EXP_T(i)), V('obj', oid='expired-item', extra={'index': i})]))})
    return None


def ss_havoc(eng, st):
    forget_queue(eng, st)
    n = z3.Int('expired.n!%d' % next(eng.counter))
    st.pc.append(n >= 0)
    st.objs['__expired'] = {'n': n}


def head_is_current(c):
    q = head(c._eng, c.st)
    return z3.And(z3.Not(q['empty']), c.post.self._seconds == q['time'])


def all_due(c):
    j = z3.Int('j')
    n = EXP(c.st)['n']
    return z3.ForAll([j], z3.Implies(z3.And(j >= 0, j < n), EXP_T(j) <= to_real(c._params['value'])))


def pass_events(c, ordinal):
    ev = since(c.trace, ordinal)
    return ev


def rec_pass(c, L):
    """recursive mode: one entry per pass - the head, due - woken at once with the scheduler at ITS time"""
    ev = since(c.trace, 0)
    base = head_is_current(c)
    if not ev or L.phase != 'after':
        return base
    pops = [e for e in ev if e[0] == 'pop']
    wk = [e for e in ev if e[0] == 'wakeup']
    if len(pops) != 1 or len(wk) != 1 or [e for e in ev if e[0] in ('expire', 'expired-cleared')]:
        return z3.BoolVal(False)
    t, k = pops[0][1], pops[0][2]
    return z3.And(base, z3.BoolVal(wk[0][1] is k), wk[0][2] == t, t <= to_real(c._params['value']))


def take_pass(c, L):
    """non-recursive mode, first loop: the due entries are only TAKEN (nobody is woken yet), each as it was popped"""
    ev = since(c.trace, 1)
    base = z3.And(head_is_current(c), all_due(c))
    if not ev or L.phase != 'after':
        return base
    pops = [e for e in ev if e[0] == 'pop']
    ex = [e for e in ev if e[0] == 'expire']
    if len(pops) != 1 or len(ex) != 1 or [e for e in ev if e[0] in ('wakeup', 'expired-cleared')]:
        return z3.BoolVal(False)
    t, k = pops[0][1], pops[0][2]
    x = ex[0][2]
    same = x.items[1] is k
    return z3.And(base, z3.BoolVal(bool(same)), to_real(x.items[0]) == t)


def wake_pass(c, L):
    """second loop: the i-th taken entry is woken, once, with the scheduler at that entry's scheduled time (never early)"""
    ev = since(c.trace, 2)
    if L.phase == 'entry':
        # the taking loop was left only when nothing due is left in the queue
        q = head(c._eng, c.st)
        return z3.Or(q['empty'], q['time'] > to_real(c._params['value']))
    if not ev or L.phase != 'after':
        return z3.BoolVal(True)
    wk = [e for e in ev if e[0] == 'wakeup']
    if len(wk) != 1 or [e for e in ev if e[0] in ('pop', 'expire', 'expired-cleared')]:
        return z3.BoolVal(False)
    item = wk[0][1]
    if not (item.k == 'obj' and item.oid == 'expired-item'):
        return z3.BoolVal(False)
    i = item.extra['index']
    return z3.And(i == L.i - 1, wk[0][2] == EXP_T(i), EXP_T(i) <= to_real(c._params['value']))


def wake_over(c, seq, k, elem):
    return z3.BoolVal(bool(seq.k == 'seq' and seq.extra.get('the-expired-list'))), z3.BoolVal(True)


def setter_post(c):
    t = c.trace
    v = to_real(c._params['value'])
    s = c.post.self
    heads = [e for e in t if e[0] == 'loop-head']
    cl = [s._seconds == v, s._beats == z3.Function('secs2beats', z3.RealSort(), z3.RealSort())(v)]
    if not heads:
        cl.append(z3.BoolVal(not [e for e in t if e[0] in ('pop', 'wakeup', 'expire')]))     # nothing pending: time just moves
        return z3.And(*cl)
    if any(e[1] == 0 for e in heads):
        # recursive mode: the loop is left only when nothing due is left
        q = head(c._eng, c.st)
        cl.append(z3.Or(q['empty'], q['time'] > v))
    if any(e[1] in (1, 2) for e in heads):
        # the list of taken entries is left empty for the next call
        cleared = [i for i, e in enumerate(t) if e[0] == 'expired-cleared']
        last_wake = max([i for i, e in enumerate(t) if e[0] in ('wakeup', 'expire')] or [-1])
        cl.append(z3.BoolVal(bool(cleared) and cleared[-1] > last_wake))
        cl.append(EXP(c.st)['n'] == 0)
    return z3.And(*cl)


contract(F, 'Scheduler.seconds@setter', props=('C08',), params={'self': 'self', 'value': 'real'},
         requires=lambda c: z3.BoolVal(True),
         ensures=[('time-ends-at-value;nothing-pending:nothing-woken;taken-entries-list-left-empty', setter_post)],
         loops={0: Loop(early_exit=True, inv=rec_pass, havoc_fields=[('self', '_seconds'), ('self', '_beats')], havoc_hook=forget_queue),
                1: Loop(early_exit=True, inv=take_pass, havoc_fields=[('self', '_seconds'), ('self', '_beats')], havoc_hook=ss_havoc),
                2: Loop(inv=wake_pass, over=wake_over, havoc_fields=[('self', '_seconds'), ('self', '_beats')],
                        havoc_hook=forget_queue)},
         fields=FIELDS, class_modules={'Scheduler': F}, hooks={'getattr': ss_getattr, 'iterate': ss_iterate},
         policies={'Scheduler._wakeup': wakeup_pol}, native=False,
         note='the list of taken entries is a ghost list (count + uninterpreted time function); that it is empty at entry is '
              'the class invariant its last statement re-establishes')


# ---- AppClock._tick --------------------------------------------------------------------------------------------------------------
# real time: the scheduler is advanced to the physical present (one reading: everything due is woken by the setter above),
# THEN the queue is looked at: None when nothing is pending, else the time of the earliest entry (what the thread sleeps to)
def tk_getattr(eng, obj, name, st, node):
    if obj.k == 'class' and obj.py == 'AppClock' and name == 'mode':
        z = z3.Int('cls:AppClock.__mode')
        st.pc.append(z3.And(z >= 0, z <= 1))
        return [(st, vint(z))]
    if obj.k == 'obj' and str(obj.oid).endswith('_scheduler') and name == 'queue':
        return [(st, V('obj', oid='self.queue'))]
    return s_getattr(eng, obj, name, st, node)


def tk_setattr(eng, obj, name, v, st, node):
    if obj.k == 'obj' and str(obj.oid).endswith('_scheduler') and name == 'seconds':
        st.trace.append(('advance', to_real(v)))
        st.objs['__queue'] = {}                               # due tasks ran: the head is whatever it is now
        return [('next', st)]
    return None


def tick_post(c):
    t = c.trace
    nrt = z3.Int('cls:AppClock.__mode') == 0
    adv = [e for e in t if e[0] == 'advance']
    times = [e for e in t if e[0] == 'time']
    r = c.resultv
    if not adv:
        return z3.And(nrt, z3.BoolVal(r.k == 'none'))
    if len(adv) != 1 or len(times) != 1:
        return z3.BoolVal(False)
    q = head(c._eng, c.st)
    cl = [z3.Not(nrt), adv[0][1] == times[0][1]]                                # to the physical present, read once
    if r.k == 'none':
        cl.append(q['empty'])                                                    # nothing pending (looked at AFTER advancing)
    elif r.k == 'real':
        cl += [z3.Not(q['empty']), r.z == q['time']]                             # the earliest pending time
    else:
        return z3.BoolVal(False)
    return z3.And(*cl)


contract(F, 'AppClock._tick', props=('C08',), params={'cls': 'cls'},
         ensures=[('advanced-to-the-physical-present,then:None-iff-nothing-pending-else-the-earliest-time', tick_post)],
         fields={'AppClock': {'_scheduler': 'obj'}, 'Main': MAIN_FIELDS, 'TimeThread': TT_FIELDS},
         class_modules={'AppClock': F}, hooks={'getattr': tk_getattr, 'setattr': tk_setattr}, modifies=[], native=False)
