"""Further pattern contracts (C13: "... truncation, dropping, ... switching ... sub-patterns embedded in place"):

  Pdrop    (filterpatterns.py)  the first n values of the source are drawn and NOT yielded (exactly n draws, range(n));
                                afterwards every pass draws once and yields exactly that value; a source that ends - while
                                dropping or later - ends it quietly
  Pswitch  (listpatterns.py)    every pass draws ONE index from the `which` stream with the current input value and embeds
                                lst[index mod size] in place (once, with the current input value, keeping what the embedding
                                returns); the end of the index stream ends it, returning the threaded input value
  Pswitch1 (listpatterns.py)    one stream per list item made ONCE before the loop (in list order); every pass draws one
                                index and then ONE value from the stream at index mod size, and yields exactly that value;
                                the end of the index stream or of the chosen stream ends it

Ghost events as in seq_filterpatterns / seq_listpatterns.
"""
import z3
from vf.pyvc.spec import contract, Loop
from vf.pyvc.values import *
from vf.pyvc import values as VV
from vf.pyvc.engine import Raised, Unsupported
from .seq_filterpatterns import make_stream, h_getattr, events, quiet_end, times, since
from .seq_listpatterns import lst_kind, embed_pol

FF = 'sc3/seq/patterns/filterpatterns.py'
FL = 'sc3/seq/patterns/listpatterns.py'
STREAM = 'sc3/base/stream.py::stream'
EMBED = 'sc3/base/stream.py::embed'


# ---- Pdrop -------------------------------------------------------------------------------------------------------------------
def drop_pass(c, L):
    ev = events(c, 0)
    if ev is None:
        return z3.BoolVal(True)
    return z3.BoolVal(len(ev) == 1 and ev[0][0] == 'draw')                   # drawn, not yielded


def keep_pass(c, L):
    ev = events(c, 1)
    if ev is None:
        return z3.BoolVal(True)
    if len(ev) != 2 or ev[0][0] != 'draw' or ev[1][0] != 'yield':
        return z3.BoolVal(False)
    return z3.BoolVal(ev[1][1] is ev[0][2])                                  # exactly what the source gives


def drop_post(c):
    # nothing is yielded before the dropping is over: every yield comes after the head of the second loop
    t = c.trace
    heads1 = [i for i, e in enumerate(t) if e[0] == 'loop-head' and e[1] == 1]
    ys = [i for i, e in enumerate(t) if e[0] == 'yield']
    return z3.BoolVal(all(heads1 and i > heads1[0] for i in ys))


contract(FF, 'Pdrop.__embed__', props=('C13',), params={'self': 'self', 'inval': 'obj'},
         ensures=[('ends-quietly-when-the-source-ends', quiet_end), ('nothing-yielded-while-dropping', drop_post)],
         fields={'Pdrop': {'pattern': 'obj', 'n': 'int'}},
         loops={0: Loop(inv=drop_pass, over=times(lambda c: c.pre.self.n), kinds={'inval': 'any', '_': 'int'}),
                1: Loop(inv=keep_pass, kinds={'inval': 'obj'})},
         policies={STREAM: make_stream('any')}, class_modules={'Pdrop': FF},
         hooks={'getattr': h_getattr}, opts={'generator_trace': True}, native=False)


# ---- Pswitch -----------------------------------------------------------------------------------------------------------------
def sw_stream(eng, selfv, args, kwargs, st, node):
    n = next(eng.counter)
    src = args[0]
    kind = 'int' if (src.k == 'obj' and str(src.oid).endswith('which')) else 'any'
    r = V('obj', oid='stream!%d' % n, extra={'of': src, 'kind': kind})
    st.trace.append(('stream-made', src, r))
    return [(st, r)]


def remember_inval(eng, st):
    st.ghost = dict(st.ghost)
    st.ghost['inval_at_head'] = st.env.get('inval')


def switch_pass(c, L):
    ev = events(c, 0)
    if ev is None:
        return z3.BoolVal(True)
    if [e[0] for e in ev] != ['draw', 'embed', 'yield-from']:
        return z3.BoolVal(False)
    d, em, yf = ev
    head_inval = c.st.ghost.get('inval_at_head')
    idx = d[2]
    src = d[1].extra['of']
    ok = (src.k == 'obj' and str(src.oid).endswith('which') and d[3] is head_inval           # index drawn with the current input
          and em[2] is head_inval and yf[1] is em[3] and c.st.env['inval'] is yf[2] and idx.k == 'int' and em[1].k == 'any')
    if not ok:
        return z3.BoolVal(False)
    lst = c.pre.self.v('lst')
    n = lst.extra['len']
    want = lst.extra['get'](c._eng, idx.z % n, c.st)
    return em[1].z == want.z                                                  # the item at index mod size, embedded in place


contract(FL, 'Pswitch.__embed__', props=('C13',), params={'self': 'self', 'inval': 'obj'},
         requires=lambda c: c.pre.self.v('lst').extra['len'] >= 1,
         ensures=[('returns-the-threaded-input-value', lambda c: z3.BoolVal(c.resultv is c.st.env['inval']))],
         fields={'Pswitch': {'lst': lst_kind, 'which': 'obj'}},
         loops={0: Loop(inv=switch_pass, kinds={'inval': 'obj', 'indx': 'int'}, havoc_hook=remember_inval)},
         policies={STREAM: sw_stream, EMBED: embed_pol}, class_modules={'Pswitch': FL},
         hooks={'getattr': h_getattr}, opts={'generator_trace': True}, native=False)


# ---- Pswitch1 ----------------------------------------------------------------------------------------------------------------
ITEM_STREAM = z3.Function('stream_of_item', z3.IntSort(), VV.Any)


def sw1_listcomp(eng, e, it, st, node):
    # [stm.stream(i) for i in self.lst]: one stream per item, in order - the ghost list of item streams
    import ast
    if isinstance(e.elt, ast.Call) and it.k == 'seq' and ast.unparse(e.elt.func).endswith('stream') \
            and len(e.elt.args) == 1 and isinstance(e.elt.args[0], ast.Name) \
            and e.elt.args[0].id == e.generators[0].target.id and not e.generators[0].ifs:
        n = it.extra['len']
        st.trace.append(('item-streams-made', it))
        def get(e_, i, s_):
            return V('obj', oid='item-stream', extra={'of': it, 'kind': 'any', 'index': i})
        return [(st, V('seq', extra={'len': n, 'facts': [n >= 0], 'item-streams-of': it, 'get': get}))]
    return None


def switch1_pass(c, L):
    ev = events(c, 0)
    if ev is None:
        return z3.BoolVal(True)
    if [e[0] for e in ev] != ['draw', 'draw', 'yield']:
        return z3.BoolVal(False)
    if [e for e in (since(c.trace, 0) or []) if e[0] in ('item-streams-made', 'stream-made')]:
        return z3.BoolVal(False)                                             # streams are made once, before the loop
    d1, d2, y = ev
    head_inval = c.st.ghost.get('inval_at_head')
    src = d1[1].extra['of']
    ok = (src.k == 'obj' and str(src.oid).endswith('which') and d1[3] is head_inval and d1[2].k == 'int'
          and d2[1].k == 'obj' and d2[1].oid == 'item-stream' and d2[3] is head_inval and y[1] is d2[2])
    if not ok:
        return z3.BoolVal(False)
    n = c.pre.self.v('lst').extra['len']
    return d2[1].extra['index'] == d1[2].z % n                               # the stream of the item at index mod size


def switch1_post(c):
    made = [e for e in c.trace if e[0] == 'item-streams-made']
    lst = c.pre.self.v('lst')
    ok = len(made) == 1 and made[0][1].k == 'seq' and z3.eq(made[0][1].extra['len'], lst.extra['len']) and \
        z3.eq(made[0][1].extra['get'](c._eng, z3.Int('k'), c.st).z, lst.extra['get'](c._eng, z3.Int('k'), c.st).z)
    return z3.BoolVal(bool(ok))                                               # one stream per item of THE list, made once


contract(FL, 'Pswitch1.__embed__', props=('C13',), params={'self': 'self', 'inval': 'obj'},
         requires=lambda c: c.pre.self.v('lst').extra['len'] >= 1,
         ensures=[('returns-the-threaded-input-value', lambda c: z3.BoolVal(c.resultv is c.st.env['inval'])),
                  ('one-stream-per-list-item,made-once', switch1_post)],
         fields={'Pswitch1': {'lst': lst_kind, 'which': 'obj'}},
         loops={0: Loop(inv=switch1_pass, kinds={'inval': 'obj', 'indx': 'int'}, havoc_hook=remember_inval)},
         policies={STREAM: sw_stream}, class_modules={'Pswitch1': FL, 'Pswitch': FL},
         hooks={'getattr': h_getattr, 'listcomp': sw1_listcomp}, opts={'generator_trace': True}, native=False)


# ---- Pslide: segments sliding over the list ---------------------------------------------------------------------------------
# every outer pass (bi.counter(repeats)) draws ONE segment length from the length stream, embeds the items
# lst[pos + j] for j = 0 .. length-1 in place - index wrapped modulo the list size when `wrap`, otherwise the pattern
# ends at the first index outside the list - and then moves pos by ONE value drawn from the step stream.
from .seq_common import counter_pol, counts

POS_AT_HEAD = 'pos_at_head'


def sl_stream(eng, selfv, args, kwargs, st, node):
    src = args[0]
    role = 'step' if str(getattr(src, 'oid', '')).endswith('step') else ('length' if str(getattr(src, 'oid', '')).endswith('length') else 'other')
    r = V('obj', oid='stream-of-' + role + '!%d' % next(eng.counter), extra={'of': src, 'kind': 'int', 'role': role})
    return [(st, r)]


def sl_mod(eng, selfv, args, kwargs, st, node):
    a, b = args
    if a.k != 'int' or b.k != 'int':
        raise Unsupported(node, 'mod of non-integers')
    r = eng.fresh('mod', z3.IntSort())
    k = eng.fresh('mod.k', z3.IntSort())
    st.pc.append(z3.Implies(b.z > 0, z3.And(r >= 0, r < b.z, a.z == r + k * b.z)))       # bi.mod's contract (base_builtins)
    st.trace.append(('mod', a.z, b.z, r))
    return [(st, vint(r))]


def sl_remember(eng, st):
    st.ghost = dict(st.ghost)
    st.ghost['inval_at_head'] = st.env.get('inval')
    st.ghost[POS_AT_HEAD] = st.env.get('pos')


def slide_outer(c, L):
    ev = since(c.trace, 0)
    if not ev or L.phase != 'after':
        return z3.BoolVal(True)
    draws = [e for e in ev if e[0] == 'draw']
    roles = [e[1].extra.get('role') for e in draws]
    if roles != ['length', 'step']:
        return z3.BoolVal(False)                                              # one length, then one step, per segment
    # the inner loop ran over range(THE length drawn in this pass); pos moved by THE step drawn
    heads = [e for e in ev if e[0] == 'loop-head' and e[1] in (1, 2)]
    pos0 = c.st.ghost.get(POS_AT_HEAD)
    pos1 = c.st.env.get('pos')
    if pos0 is None or pos1 is None:
        raise KeyError('pos')                             # the local this clause is about has another name: undecided, not wrong
    if not heads or pos0.k != 'int' or pos1.k != 'int':
        return z3.BoolVal(False)
    return pos1.z == pos0.z + draws[1][2].z


def slide_inner(ordinal, wrapped):
    def inv(c, L):
        ev = since(c.trace, ordinal)
        if not ev or L.phase != 'after':
            return z3.BoolVal(True)
        evs = [e for e in ev if e[0] in ('embed', 'yield-from', 'yield', 'draw')]
        if [e[0] for e in evs] != ['embed', 'yield-from']:
            return z3.BoolVal(False)
        em, yf = evs
        head_inval = c.st.ghost.get('inval_at_head')
        ok = em[2] is head_inval and yf[1] is em[3] and c.st.env['inval'] is yf[2] and em[1].k == 'any'
        if not ok:
            return z3.BoolVal(False)
        lst = c.pre.self.v('lst')
        n = lst.extra['len']
        pos = c.st.env['pos']
        j = L.i - 1
        cl = []
        if wrapped:
            # the index is what bi.mod (used by its contract: 0 <= r < b, a = r + k b) gives for (pos + j, size)
            mods = [e for e in ev if e[0] == 'mod']
            if len(mods) > 1:
                return z3.BoolVal(False)
            if mods:
                _, a, b, r = mods[0]
                cl += [a == pos.z + j, b == n]
                idx = r
            else:
                idx = (pos.z + j) % n                                         # Python's own % on integers: the same thing
        else:
            idx = pos.z + j
        want = lst.extra['get'](c._eng, idx, c.st)
        cl.append(em[1].z == want.z)
        if not wrapped:
            cl.append(z3.And(pos.z + j >= 0, pos.z + j < n))                  # only indices inside the list
        return z3.And(*cl)
    return inv


def inner_over(c, sq, k, elem):
    # range(lval): lval is the length drawn in this outer pass
    ev = since(c.trace, 0) or []
    draws = [e for e in ev if e[0] == 'draw' and e[1].extra.get('role') == 'length']
    if len(draws) != 1 or elem.k != 'int':
        return z3.BoolVal(False), z3.BoolVal(False)
    lv = draws[0][2].z
    return sq.extra['len'] == z3.If(lv > 0, lv, 0), elem.z == k


def remember_inner(eng, st):
    st.ghost = dict(st.ghost)
    st.ghost['inval_at_head'] = st.env.get('inval')


contract(FL, 'Pslide.__embed__', props=('C13',), params={'self': 'self', 'inval': 'obj'},
         requires=lambda c: c.pre.self.v('lst').extra['len'] >= 1,
         ensures=[('returns-the-threaded-input-value', lambda c: z3.BoolVal(c.resultv is c.st.env['inval']))],
         fields={'Pslide': {'lst': lst_kind, 'length': 'obj', 'step': 'obj', 'start': 'int', 'wrap': 'bool', 'repeats': 'obj'}},
         loops={0: Loop(inv=slide_outer, over=counts('repeats'), early_exit='return',
                        kinds={'inval': 'obj', 'pos': 'int', 'lval': 'any', '_': 'int', 'j': 'int'}, havoc_hook=sl_remember),
                1: Loop(inv=slide_inner(1, True), over=inner_over, kinds={'inval': 'obj', 'j': 'int'}, havoc_hook=remember_inner),
                2: Loop(inv=slide_inner(2, False), over=inner_over, early_exit='return', kinds={'inval': 'obj', 'j': 'int'},
                        havoc_hook=remember_inner)},
         policies={STREAM: sl_stream, EMBED: embed_pol, 'counter': counter_pol, 'sc3/base/builtins.py::mod': sl_mod},
         class_modules={'Pslide': FL}, hooks={'getattr': h_getattr}, opts={'generator_trace': True}, native=False)


# ---- Place: interlaced embedding -----------------------------------------------------------------------------------------------
# repetition j (bi.counter(repeats)) goes through the list rotated by offset; an item that is itself a list or tuple
# contributes ITS element j mod len(item), any other item itself; each is embedded in place once with the threaded input.
IS_SUBLIST = z3.Function('item_is_a_list', VV.Any, z3.BoolSort())
SUB_LEN = z3.Function('sublist_len', VV.Any, z3.IntSort())
SUB_AT = z3.Function('sublist_at', VV.Any, z3.IntSort(), VV.Any)


def pl_builtin(eng, name, args, kwargs, st, node):
    if name == 'isinstance' and len(args) == 2 and args[0].k == 'any':
        return [(st, vbool(IS_SUBLIST(args[0].z)))]
    if name == 'len' and len(args) == 1 and args[0].k == 'any':
        n = SUB_LEN(args[0].z)
        st.pc.append(n >= 1)
        return [(st, vint(n))]
    return None


def pl_getitem(eng, obj, idx, st, node):
    if obj.k == 'any' and idx.k == 'int':
        return [(st, V('any', SUB_AT(obj.z, idx.z)))]
    return None


def pl_len(eng, v, st, node):
    if v.k == 'any':
        n = SUB_LEN(v.z)
        st.pc.append(n >= 1)
        return [(st, vint(n))]
    return None


def place_inner(c, L):
    ev = since(c.trace, 1)
    if not ev or L.phase != 'after':
        return z3.BoolVal(True)
    evs = [e for e in ev if e[0] in ('embed', 'yield-from', 'yield', 'draw')]
    if [e[0] for e in evs] != ['embed', 'yield-from']:
        return z3.BoolVal(False)
    em, yf = evs
    head_inval = c.st.ghost.get('inval_at_head')
    if not (em[2] is head_inval and yf[1] is em[3] and c.st.env['inval'] is yf[2] and em[1].k == 'any'):
        return z3.BoolVal(False)
    lst = c.pre.self.v('lst')
    n = lst.extra['len']
    off = c.pre.self.offset
    k = L.i - 1
    # element k of lst[offset:] + lst[:offset]
    src = z3.If(k < n - off, off + k, k - (n - off))
    item = lst.extra['get'](c._eng, src, c.st).z
    j = c.st.env['j']
    want = z3.If(IS_SUBLIST(item), SUB_AT(item, j.z % SUB_LEN(item)), item)
    return em[1].z == want


contract(FL, 'Place.__embed__', props=('C13',), params={'self': 'self', 'inval': 'obj'},
         requires=lambda c: z3.And(c.pre.self.v('lst').extra['len'] >= 1, c.pre.self.offset >= 0,
                                   c.pre.self.offset <= c.pre.self.v('lst').extra['len']),
         ensures=[('returns-the-threaded-input-value', lambda c: z3.BoolVal(c.resultv is c.st.env['inval']))],
         fields={'Place': {'lst': lst_kind, 'offset': 'int', 'repeats': 'obj'}},
         loops={0: Loop(inv=lambda c, L: z3.BoolVal(True), over=counts('repeats'), kinds={'inval': 'obj', 'j': 'int', 'item': 'any'}),
                1: Loop(inv=place_inner, kinds={'inval': 'obj', 'item': 'any'}, havoc_hook=remember_inner)},
         policies={EMBED: embed_pol, 'counter': counter_pol}, class_modules={'Place': FL, 'Pseq': FL},
         hooks={'builtin_first': pl_builtin, 'getitem': pl_getitem, 'len': pl_len}, opts={'generator_trace': True}, native=False,
         note='offsets inside [0, len] (as for Pseq); a sub-list is an uninterpreted non-empty sequence')
