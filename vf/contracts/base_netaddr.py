"""Sizing theorem for sc3/base/netaddr.py (C06): whenever the predictors return,
the prediction is not below the real encoded size.

The real size of an accepted message is a spec function built from the encoders'
own proved contracts (base_osclib: a string takes pad4(utf-8 length), a blob
4 + up4(length), every other argument 4, array markers 0; a list argument is a
blob holding the encoded message or bundle):

    MS(m) = pad4(u8(m[0])) + pad4(len(m)) + SUM(m, len(m) - 1)
    SUM(m, 0) = 0;   SUM(m, i+1) = SUM(m, i) + RA(m[i+1])
    BS(b) = 16 + SUMB(b, len(b) - 1);  SUMB(b, i+1) = SUMB(b, i) + 4 + ES(b[i+1])
"""
import z3
from vf.pyvc.spec import contract, Loop
from vf.pyvc.values import *
from vf.pyvc import values as VV

F = 'sc3/base/netaddr.py'
A = VV.Any
I = z3.IntSort()
MS = z3.Function('spec_msg_size', A, I)
BS = z3.Function('spec_bundle_size', A, I)
RA = z3.Function('spec_arg_size', A, I)
ES = z3.Function('spec_elem_size', A, I)
SUM = z3.Function('spec_sum_args', A, I, I)
SUMB = z3.Function('spec_sum_elems', A, I, I)
T = TAGS


def pad4(n):
    return n + 4 - n % 4


def up4(n):
    return n + (-n) % 4


def is_marker(eng_or_none, x):
    # the literals '[' and ']' (uninterpreted predicates shared with the engine)
    a = z3.Function('str_is_%s' % '['.encode().hex(), A, z3.BoolSort())
    b = z3.Function('str_is_%s' % ']'.encode().hex(), A, z3.BoolSort())
    return z3.Or(a(x), b(x))


def ra_def(x):
    """definition instance of the real size of argument x"""
    t = VV.tag_of(x)
    head = VV.any_item(x, 0)
    ra = z3.If(t == T['str'], z3.If(is_marker(None, x), 0, pad4(VV.any_u8(x))),
         z3.If(z3.Or(t == T['bytes'], t == T['bytearray'], t == T['memoryview']),
               4 + up4(VV.any_len(x)),
         z3.If(t == T['list'],
               z3.If(VV.any_len(x) == 0, 4,
                     z3.If(VV.tag_of(head) == T['str'], 4 + MS(x), 4 + BS(x))),
               4)))
    return [RA(x) == ra, VV.any_len(x) >= 0, VV.any_u8(x) >= VV.any_len(x)]


def es_def(x):
    return [ES(x) == z3.If(VV.tag_of(VV.any_item(x, 0)) == T['str'], MS(x), BS(x))]


def ms_def(o):
    head = VV.any_item(o, 0)
    return [MS(o) == pad4(VV.any_u8(head)) + pad4(VV.any_len(o)) + SUM(o, VV.any_len(o) - 1),
            SUM(o, 0) == 0, VV.any_len(o) >= 0, VV.any_u8(head) >= 0]


def bs_def(o):
    return [BS(o) == 16 + SUMB(o, VV.any_len(o) - 1), SUMB(o, 0) == 0, VV.any_len(o) >= 0]


def sum_step(o, i):
    x = VV.any_item(o, i + 1)
    return [z3.Implies(i >= 0, SUM(o, i + 1) == SUM(o, i) + RA(x))] + ra_def(x)


def sumb_step(o, i):
    x = VV.any_item(o, i + 1)
    # precondition instance: every element of an accepted bundle is a list
    return [z3.Implies(i >= 0, SUMB(o, i + 1) == SUMB(o, i) + 4 + ES(x)),
            VV.tag_of(x) == T['list']] + es_def(x)


def axioms():
    """definitions are instantiated where they are needed (no quantifiers)"""
    return []


def msg_kind(eng, name):
    return V('dyn', z3.Const(name, A), cls='list')


def elems_kind(eng, name):
    """the elements of a bundle list b: the slice b[1:]"""
    o = z3.Const(name + '#bundle', A)
    ln = VV.any_len(o)
    return V('seq', extra={'len': z3.If(ln - 1 > 0, ln - 1, 0), 'base': (o, 1),
                           'get': (lambda eng, i, st, _o=o: V('any', VV.any_item(_o, i + 1)))})


def strpad4(eng, selfv, args, kwargs, st, node):
    # contract call of NetAddr._strpad4 (proved in base_osclib): aligned, n < r <= n + 4
    n = args[0].z
    r = eng.fresh('pad', z3.IntSort())
    eng.oblige(st, 'call-pre[_strpad4]', 'call-pre', n >= 0, node)
    st.pc.append(z3.And(r % 4 == 0, n < r, r <= n + 4))
    return [(st, vint(r))]


def nested_msg(eng, selfv, args, kwargs, st, node):
    m = args[0]
    o = m.z if m.k in ('dyn', 'any') else None
    if o is None:
        from vf.pyvc.engine import Unsupported
        raise Unsupported(node, 'nested message argument')
    r = eng.fresh('nested_ms', z3.IntSort())
    st.pc.append(r >= MS(o))          # the function's own contract (recursion)
    return [(st, vint(r))]


def nested_bndl(eng, selfv, args, kwargs, st, node):
    e = args[0]
    if e.k != 'seq' or 'base' not in e.extra or e.extra['base'][1] != 1:
        from vf.pyvc.engine import Unsupported
        raise Unsupported(node, 'bundle elements must be a [1:] slice')
    o = e.extra['base'][0]
    r = eng.fresh('nested_bs', z3.IntSort())
    st.pc.append(r >= BS(o))
    return [(st, vint(r))]


POL = {'NetAddr._strpad4': strpad4, 'NetAddr._calc_msg_dgram_size': nested_msg,
       'NetAddr._calc_bndl_dgram_size': nested_bndl}
EXC = {'ValueError': None, 'IndexError': None, 'TypeError': None, 'AttributeError': None}


def msg_pre(c):
    o = c._params['msg'].z
    return z3.And(VV.tag_of(o) == T['list'], VV.any_len(o) >= 1,
                  VV.tag_of(VV.any_item(o, 0)) == T['str'])


contract(F, 'NetAddr._calc_msg_dgram_size', props=('C06',),
         params={'self': 'self', 'msg': msg_kind},
         requires=msg_pre, returns='int', raises=EXC,
         ensures=[('prediction-not-below-real-size', lambda c: c.result >= MS(c._params['msg'].z))],
         loops={0: Loop(
             inv=lambda c, L: L.res >= pad4(VV.any_u8(VV.any_item(c._params['msg'].z, 0)))
             + pad4(VV.any_len(c._params['msg'].z)) + SUM(c._params['msg'].z, L.i),
             kinds={'val': 'any'},
             havoc_hook=lambda eng, st: st.pc.extend(
                 sum_step(eng.entry_params['msg'].z, st.env['__i0'].z)))},
         setup=lambda eng, st, params: st.pc.extend(ms_def(params['msg'].z)),
         policies=POL, axioms=[axioms], native=False,
         trusted=['real size of an argument (spec_arg_size) follows the proved encoder contracts: '
                  'string pad4(utf8), blob 4+up4(len), other 4, markers 0, list = blob of the nested encoding'],
         note='recursion through the function\'s own contract; exceptions on unaccepted inputs are left to the bounded driver')

contract(F, 'NetAddr._calc_bndl_dgram_size', props=('C06',),
         params={'self': 'self', 'elements': elems_kind},
         requires=lambda c: VV.any_len(c._params['elements'].extra['base'][0]) >= 1,
         returns='int', raises=EXC,
         ensures=[('prediction-not-below-real-size',
                   lambda c: c.result >= BS(c._params['elements'].extra['base'][0]))],
         loops={0: Loop(
             inv=lambda c, L: L.res >= 16 + SUMB(c._params['elements'].extra['base'][0], L.i),
             kinds={'e': 'any'},
             havoc_hook=lambda eng, st: st.pc.extend(
                 sumb_step(eng.entry_params['elements'].extra['base'][0], st.env['__i0'].z)))},
         setup=lambda eng, st, params: st.pc.extend(bs_def(params['elements'].extra['base'][0])),
         policies=POL, axioms=[axioms], native=False)


# ---- NetAddr._clump_bundle: packing elements into sub-bundles below a size limit (C06 clumping) -------------
# second loop, per element (s = its predicted size, acc0 = accumulated size of the open clump before the pass):
#   the open clump is closed and a new one opened iff  acc0 + s + 4 >= size;
#   the element goes into the open clump (the new one when one was just opened), exactly once, in order;
#   acc := (16 if a new clump was opened else acc0) + s + 4;
# hence after every pass the open clump either stays below the limit (acc < size) or holds just the one element
# that was put into a fresh clump (an element that does not fit anywhere on its own).
from vf.pyvc.spec import Loop as _CLoop
from vf.pyvc import values as _CVV
EL_SIZE = z3.Function('clump_elem_size', z3.IntSort(), z3.IntSort())
EL_VAL = z3.Function('clump_elem', z3.IntSort(), _CVV.Any)
NEL = z3.Int('elist.len')


def cl_new_list(eng, items, st):
    if items != []:
        return None
    k = len([e for e in st.trace if e[0] == 'new-list'])
    st.trace.append(('new-list', k))
    if k == 0:
        # elist: (predicted size, element) per element, in order
        return V('seq', extra={'len': NEL, 'facts': [NEL >= 0], 'elist': True,
                               'get': (lambda eng_, i, st_: vtuple([vint(EL_SIZE(i)), V('any', EL_VAL(i))]))})
    # (which of the lists made here is the result and which the open clump is decided by their USE, not by the order
    # in which they are made)
    return V('ref', cls='CBuf', oid='list!%d' % next(eng.counter), extra={'truth': z3.Bool('open_clump_nonempty')})


def cl_getattr(eng, obj, name, st, node):
    if obj.k == 'seq' and obj.extra.get('elist') and name == 'append':
        def eapp(eng, a, kw, st, node):
            st.trace.append(('elist-append', a[0]))
            return [(st, NONE)]
        return [(st, V('func', py=('spec', eapp)))]
    if obj.k == 'ref' and obj.cls == 'CBuf' and name == 'append':
        def app(eng, args, kwargs, st, node, _o=obj):
            into_result = args[0].k == 'ref' and args[0].cls == 'CBuf'        # a whole clump goes into the result list
            st.trace.append(('res-append' if into_result else 'clump-append', _o, args[0]))
            return [(st, NONE)]
        return [(st, V('func', py=('spec', app)))]
    return None


def cl_since(trace, ordinal):
    idx = -1
    for i, e in enumerate(trace):
        if e[0] == 'loop-head' and e[1] == ordinal:
            idx = i
    return trace[idx + 1:] if idx >= 0 else None


def cl_remember(eng, st):
    st.ghost = dict(st.ghost)
    st.ghost['acc_at_head'] = st.env['acc_size'].z
    st.ghost['clump_at_head'] = st.env['clump']


def cl_first(c, L):
    # pass i of the sizing loop enters (size of element i, element i) - every element, once, in order
    ev = cl_since(c.trace, 0)
    if not ev:
        return z3.BoolVal(True)
    ev = [e for e in ev if e[0] == 'elist-append']
    if len(ev) != 1 or ev[0][1].k != 'tuple' or len(ev[0][1].items) != 2 or ev[0][1].items[0].k != 'int' \
            or ev[0][1].items[1].k != 'any':
        return z3.BoolVal(False)
    return ev[0][1].items[1].z == EL_VAL(L.i - 1)


def over_elements(c, sq, k, elem):
    if elem.k != 'any':
        return z3.BoolVal(False), z3.BoolVal(False)
    return sq.extra['len'] == NEL, elem.z == EL_VAL(k)


def over_elist(c, sq, k, elem):
    ok = elem.k == 'tuple' and len(elem.items) == 2 and elem.items[0].k == 'int' and elem.items[1].k == 'any'
    if not ok:
        return z3.BoolVal(False), z3.BoolVal(False)
    return sq.extra['len'] == NEL, z3.And(elem.items[0].z == EL_SIZE(k), elem.items[1].z == EL_VAL(k))


def cl_pass(c, L):
    ev = cl_since(c.trace, 1)
    acc1 = c.st.env['acc_size'].z
    base = acc1 >= 16
    if not ev:
        return base
    ev = [e for e in ev if e[0] in ('res-append', 'clump-append', 'new-list')]
    acc0 = c.st.ghost['acc_at_head']
    old = c.st.ghost['clump_at_head']
    i = L.i - 1
    s = EL_SIZE(i)
    kinds = [e[0] for e in ev]
    cur = c.st.env['clump']
    if kinds == ['clump-append']:
        ok = ev[0][1] is old and cur is old and ev[0][2].k == 'any'
        if not ok:
            return z3.BoolVal(False)
        return z3.And(base, acc0 + s + 4 < c.size, ev[0][2].z == EL_VAL(i), acc1 == acc0 + s + 4,
                      acc1 < c.size)                                        # stays below the limit
    if kinds == ['res-append', 'new-list', 'clump-append']:
        ok = (ev[0][2] is old and ev[0][1] is not old and ev[2][1] is cur and cur is not old and ev[2][2].k == 'any')   # old closed, new opened
        if not ok:
            return z3.BoolVal(False)
        return z3.And(base, acc0 + s + 4 >= c.size, ev[2][2].z == EL_VAL(i), acc1 == 16 + s + 4)   # alone in a fresh clump
    return z3.BoolVal(False)


def cl_post(c):
    t = c.trace
    heads = [i for i, e in enumerate(t) if e[0] == 'loop-head' and e[1] == 1]
    if not heads:
        return z3.BoolVal(False)
    tail = [e for e in t[heads[-1]:] if e[0] in ('res-append', 'clump-append', 'new-list')]
    cur = c.st.env['clump']
    r = c.resultv
    is_res = r.k == 'ref' and r.cls == 'CBuf' and r is not cur
    if cur is None or cur.k != 'ref':
        return z3.BoolVal(False)
    nonempty = cur.extra['truth']
    delivered = len(tail) == 1 and tail[0][0] == 'res-append' and tail[0][2] is cur and tail[0][1] is r
    return z3.And(z3.BoolVal(bool(is_res)), z3.BoolVal(len(tail) <= 1),
                  z3.BoolVal(bool(delivered)) == nonempty)


def clump_kind(eng, name):
    return V('ref', cls='CBuf', oid='open-clump', extra={'truth': z3.Bool('open_clump_nonempty')})


contract(F, 'NetAddr._clump_bundle', props=('C06',),
         params={'self': 'self', 'elements': (lambda eng, name: V('seq', extra={
             'len': NEL, 'facts': [NEL >= 0], 'get': (lambda eng_, i, st_: V('any', EL_VAL(i)))})), 'size': 'int'},
         requires=lambda c: z3.And(c.size > 20, NEL >= 0, z3.ForAll([z3.Int('k')], EL_SIZE(z3.Int('k')) >= 0)),
         raises={'ValueError': None, 'TypeError': None, 'IndexError': None},
         ensures=[('the-open-clump-is-delivered-iff-it-holds-something;result-is-the-list-of-clumps', cl_post)],
         loops={0: _CLoop(inv=cl_first, over=over_elements, kinds={'e': 'any'}),
                1: _CLoop(inv=cl_pass, over=over_elist, kinds={'acc_size': 'int', 's': 'int', 'e': 'any', 'clump': clump_kind},
                          havoc_hook=cl_remember)},
         fields={'NetAddr': {}, 'CBuf': {}},
         hooks={'new_list': cl_new_list, 'getattr': cl_getattr},
         policies={'NetAddr._calc_msg_dgram_size': (lambda eng, selfv, args, kwargs, st, node: [(st, vint(eng.fresh('sz', z3.IntSort())))]),
                   'NetAddr._calc_bndl_dgram_size': (lambda eng, selfv, args, kwargs, st, node: [(st, vint(eng.fresh('sz', z3.IntSort())))])},
         class_modules={'NetAddr': F, 'CBuf': F}, native=False,
         note='the first loop (sizing every element through the sizing functions, proved above) enters (size_i, '
              'element_i) for EVERY element in order (its own obligations); the list it builds is then the abstract '
              'sequence of those pairs, with size_i naming whatever the sizing function returned; sizes non-negative')


# ---- NetAddr.send_msg / send_bundle / send_clumped_bundles (C06 clumping, C07 what time goes out) ------------------
# send_msg / send_bundle hand exactly what they got - and this address's own target - to the OSC interface, once.
# send_clumped_bundles: ONE bundle with the time as given only if the predicted size fits; otherwise one bundle per clump,
# in order, none stamped before its predecessor (sc3: one nanosecond later each; so that the server keeps their order) - or all "immediately" when the
# time is None; every clump is sent exactly once.
NCLUMPS = z3.Int('clumps.len')
FITS = z3.Bool('predicted_size_fits_one_datagram')


def sn_getattr(eng, obj, name, st, node):
    if obj.k == 'obj' and obj.oid == 'self._osc_interface' and name in ('send_msg', 'send_bundle'):
        def send(eng, a, kw, st, node, _n=name):
            st.trace.append(('interface.' + _n, tuple(a)))
            return [(st, NONE)]
        return [(st, V('func', py=('spec', send)))]
    return None


def deleg_post(which, fixed):
    def post(c):
        s = [e for e in c.trace if e[0].startswith('interface.')]
        if len(s) != 1 or s[0][0] != 'interface.' + which:
            return z3.BoolVal(False)
        a = s[0][1]
        ok = (len(a) == 2 + len(fixed) and a[0].k == 'obj' and a[0].oid == 'self._target'
              and all(a[1 + i] is c._params[p] for i, p in enumerate(fixed))
              and a[-1].k == 'star' and a[-1].extra['seq'] is c._params[('args' if which == 'send_msg' else 'elements')])
        return z3.BoolVal(bool(ok))
    return post


def rest_kind(eng, name):
    return V('seq', extra={'len': z3.Int(name + '.len'), 'facts': [z3.Int(name + '.len') >= 0],
                           'get': (lambda e_, i, s_, _n=name: V('any', z3.Select(z3.Array(_n + '.items', z3.IntSort(), _CVV.Any), i)))})


NA_FIELDS = {'NetAddr': {'_osc_interface': 'obj', '_target': 'obj'}}
contract(F, 'NetAddr.send_msg', props=('C06', 'C07'), params={'self': 'self', 'args': rest_kind},
         ensures=[('own-target-and-exactly-the-arguments-to-the-interface,once', deleg_post('send_msg', []))],
         modifies=[], fields=NA_FIELDS, hooks={'getattr': sn_getattr}, class_modules={'NetAddr': F}, native=False)
contract(F, 'NetAddr.send_bundle', props=('C06', 'C07'), params={'self': 'self', 'time': 'obj', 'elements': rest_kind},
         ensures=[('own-target,the-time-as-given-and-exactly-the-elements-to-the-interface,once', deleg_post('send_bundle', ['time']))],
         modifies=[], fields=NA_FIELDS, hooks={'getattr': sn_getattr}, class_modules={'NetAddr': F}, native=False)


def scb_size_pol(eng, selfv, args, kwargs, st, node):
    n = eng.fresh('predicted', z3.IntSort())
    st.trace.append(('size-of', args[0], n))
    return [(st, vint(n))]


def scb_clump_pol(eng, selfv, args, kwargs, st, node):
    st.trace.append(('clump', args[0]))
    return [(st, V('seq', extra={'len': NCLUMPS, 'facts': [NCLUMPS >= 0],
                                 'get': (lambda e_, i, s_: V('obj', oid='clump[%s]' % str(z3.simplify(i)).replace(' ', ''),
                                                           extra={'clump': i}))}))]


def scb_send_pol(eng, selfv, args, kwargs, st, node):
    st.trace.append(('send_bundle', tuple(args)))
    return [(st, NONE)]


NS = z3.RealVal('1/1000000000')


def scb_remember(eng, st):
    st.ghost = dict(st.ghost)
    st.ghost['time_at_head'] = st.env.get('time')


def scb_pass(c, L):
    tk = c.kinds['time']
    if tk == 'none':
        state = z3.BoolVal(True)
    else:
        t0 = z3.ToReal(c.time) if z3.is_int(c.time) else c.time
        cur = L.time
        cur = z3.ToReal(cur) if z3.is_int(cur) else cur
        state = cur >= t0                                             # never before the time asked for
    if L.phase != 'after':
        return state
    idx = max([i for i, e in enumerate(c.trace) if e[0] == 'loop-head'] or [-1])
    ev = [e for e in c.trace[idx + 1:] if e[0] in ('send_bundle', 'interface.send_bundle')]
    k = L.i - 1
    if len(ev) != 1 or ev[0][0] != 'send_bundle' or len(ev[0][1]) != 2:
        return z3.BoolVal(False)
    tm, item = ev[0][1]
    ok = item.k == 'star' and item.extra['seq'].k == 'obj' and item.extra['seq'].extra.get('clump') is not None
    if not ok:
        return z3.BoolVal(False)
    cl = [state, item.extra['seq'].extra['clump'] == k]               # clump k, once
    if tk == 'none':
        cl.append(z3.BoolVal(tm.k == 'none'))
    else:
        before = c.st.ghost.get('time_at_head')
        if not is_num(tm) or before is None or not is_num(before):
            return z3.BoolVal(False)
        cl += [to_real(tm) >= to_real(before),                        # never before the clump before it: the order is kept
               to_real(tm) == cur]
    return z3.And(*cl)


def time_kind(eng, name):
    # the running time is a number iff a time was given (None stays None: "immediately" for every clump)
    return NONE if eng.entry_params['time'].k == 'none' else vreal(z3.Real(name))


def scb_over(c, sq, k, elem):
    return sq.extra['len'] == NCLUMPS, (elem.extra['clump'] == k if elem.k == 'obj' and elem.extra else z3.BoolVal(False))


def scb_post(c):
    t = c.trace
    sizes = [e for e in t if e[0] == 'size-of']
    clumps = [e for e in t if e[0] == 'clump']
    heads = [e for e in t if e[0] == 'loop-head']
    if len(sizes) != 1 or sizes[0][1] is not c._params['elements']:
        return z3.BoolVal(False)
    if not clumps:
        s = [e for e in t if e[0] == 'send_bundle']
        ok = (len(s) == 1 and len(s[0][1]) == 2 and s[0][1][0] is c._params['time'] and s[0][1][1].k == 'star'
              and s[0][1][1].extra['seq'] is c._params['elements'])
        # sent in one piece only when the prediction does not exceed the datagram limit (with the sizing theorem:
        # the real size does not either), the time as given
        return z3.And(sizes[0][2] <= z3.Int('self._MAX_UDP_DGRAM_SIZE'), z3.BoolVal(bool(ok)))
    ok = len(clumps) == 1 and clumps[0][1] is c._params['elements'] and bool(heads)
    return z3.BoolVal(bool(ok))                                        # else: the clumps of exactly these elements


contract(F, 'NetAddr.send_clumped_bundles', props=('C06', 'C07'),
         params={'self': 'self', 'time': ['none', 'int', 'real'], 'elements': rest_kind},
         ensures=[('one-bundle-only-when-it-fits;else-every-clump-once,in-order,none-before-its-predecessor', scb_post)],
         loops={0: _CLoop(inv=scb_pass, over=scb_over, kinds={'time': time_kind, 'item': (lambda e, n: V('obj', oid='havoc'))},
                          havoc_hook=scb_remember)},
         modifies=[], fields={'NetAddr': {'_osc_interface': 'obj', '_target': 'obj', '_MAX_UDP_DGRAM_SIZE': 'int'}},
         hooks={'getattr': sn_getattr}, class_modules={'NetAddr': F}, native=False,
         policies={'NetAddr._calc_bndl_dgram_size': scb_size_pol, 'NetAddr._clump_bundle': scb_clump_pol,
                   'NetAddr.send_bundle': scb_send_pol})
