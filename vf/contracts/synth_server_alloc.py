"""Contracts for the client partitions in sc3/synth/server.py (C16): each client
gets the slice [per_client * client_id, per_client * (client_id + 1)) of the
server's numbers (minus the reserved offset at its start); a lemma over these
contracts shows that partitions of different clients are disjoint and inside the
option ranges."""
import z3
from vf.pyvc.spec import contract, lemma
from vf.pyvc.values import *

F = 'sc3/synth/server.py'
OPT = {'buffers': 'int', 'reserved_buffers': 'int', 'control_buses': 'int',
       'audio_buses': 'int', 'reserved_control_buses': 'int', 'reserved_audio_buses': 'int',
       'output_channels': 'int', 'input_channels': 'int'}
FIELDS = {'Server': {'options': 'ref:ServerOptions', '_status_watcher': 'ref:Watcher',
                     'client_id': 'int', '_buffer_allocator': 'obj',
                     '_control_bus_allocator': 'obj', '_audio_bus_allocator': 'obj'},
          'ServerOptions': OPT, 'Watcher': {'max_logins': 'int'}}


def h_getattr(eng, obj, name, st, node):
    # the allocator classes are class attributes installed at library init
    if obj.k == 'class' and obj.py == 'Server' and name in ('_buffer_alloc_class', '_bus_alloc_class'):
        return [(st, V('class', py='ContiguousBlockAllocator'))]
    return None


def pre(c):
    s = c.pre.self
    return z3.And(s._status_watcher.max_logins >= 1, s.client_id >= 0,
                  s.client_id < s._status_watcher.max_logins)


def news(c):
    return [e[2] for e in c.trace if e[0] == 'new' and e[1] == 'ContiguousBlockAllocator']


def buffers_post(c):
    n = news(c)
    if len(n) != 1 or len(n[0]) != 3:
        return z3.BoolVal(False)
    s = c.pre.self
    per = z3.Int('per_client')
    size, pos, off = [to_int(x) for x in n[0]]
    m = s._status_watcher.max_logins
    return z3.And(size * m <= s.options.buffers, s.options.buffers < (size + 1) * m,   # size = buffers // logins
                  pos == s.options.reserved_buffers, off == size * s.client_id)


common = dict(fields=FIELDS, hooks={'getattr': h_getattr}, native=False,
              class_modules={'Server': F, 'ServerOptions': F},
              opts={'opaque_construct': ('ContiguousBlockAllocator',)},
              inline=('ServerOptions.first_private_bus',))

contract(F, 'Server._new_buffer_allocators', props=('C16',),
         params={'self': 'self'}, requires=pre,
         ensures=[('client-slice-of-the-buffer-numbers', buffers_post)], **common)


def buses_post(c):
    n = news(c)
    if len(n) != 2 or any(len(a) != 3 for a in n):
        return z3.BoolVal(False)
    s = c.pre.self
    m = s._status_watcher.max_logins
    cs, cp, co = [to_int(x) for x in n[0]]
    as_, ap, ao = [to_int(x) for x in n[1]]
    io = s.options.output_channels + s.options.input_channels
    private = s.options.audio_buses - io
    return z3.And(cs * m <= s.options.control_buses, s.options.control_buses < (cs + 1) * m,
                  cp == s.options.reserved_control_buses, co == cs * s.client_id,
                  as_ * m <= private, private < (as_ + 1) * m,
                  ap == s.options.reserved_audio_buses, ao == as_ * s.client_id + io)


contract(F, 'Server._new_bus_allocators', props=('C16',),
         params={'self': 'self'},
         requires=lambda c: z3.And(pre(c), c.pre.self.options.audio_buses >=
                                   c.pre.self.options.output_channels + c.pre.self.options.input_channels),
         ensures=[('client-slices-of-control-and-private-audio-buses', buses_post)], **common)


# ---- lemma over these contracts (and the allocator's partition clause, C16 driver) ----
def _disjoint():
    total, m, c1, c2, size, base = z3.Ints('Ltotal Lm Lc1 Lc2 Lsize Lbase')
    a = [m >= 1, total >= 0, size * m <= total, total < (size + 1) * m,
         0 <= c1, c1 < c2, c2 < m, base >= 0]
    lo1, hi1 = base + size * c1, base + size * c1 + size
    lo2, hi2 = base + size * c2, base + size * c2 + size
    return a, z3.And(hi1 <= lo2, lo1 >= base, hi2 <= base + total)


lemma('client-partitions-disjoint-and-inside-the-option-range', props=('C16',),
      over=(F + '::Server._new_buffer_allocators', F + '::Server._new_bus_allocators'),
      vcs=[('slices-of-two-clients-do-not-overlap-and-stay-inside', _disjoint)],
      note='an allocator built with (size, pos, addr_offset) only hands out numbers in '
           '[addr_offset + pos, addr_offset + size): checked by the bounded C16 driver')
