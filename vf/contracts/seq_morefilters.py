"""Further filter-pattern contracts (C13), sc3/seq/patterns/filterpatterns.py:

  Pdiff    the first value of the source is drawn and not yielded; afterwards every pass draws ONE value and yields
           (that value - the value drawn before it), which then becomes the previous one; quiet end
  Platch   every pass draws ONE trigger; a true trigger draws a new value from the source and yields it; a false one
           yields a COPY of the value drawn last (drawing one first if there is none yet) - the source is not advanced
"""
import z3
from vf.pyvc.spec import contract, Loop
from vf.pyvc.values import *
from vf.pyvc import values as VV
from vf.pyvc.engine import Raised, Unsupported
from .seq_filterpatterns import h_getattr, events, quiet_end, since

F = 'sc3/seq/patterns/filterpatterns.py'
STREAM = 'sc3/base/stream.py::stream'


def role_stream(roles):
    def pol(eng, selfv, args, kwargs, st, node):
        src = args[0]
        role = next((r for r in roles if str(getattr(src, 'oid', '')).endswith(r)), 'other')
        return [(st, V('obj', oid='stream-of-%s!%d' % (role, next(eng.counter)),
                       extra={'of': src, 'kind': roles.get(role, 'any'), 'role': role}))]
    return pol


# ---- Pdiff ---------------------------------------------------------------------------------------------------------------------
def remember_prev(eng, st):
    st.ghost = dict(st.ghost)
    st.ghost['prev_at_head'] = st.env.get('prev')


def diff_pass(c, L):
    ev = events(c, 0)
    if ev is None:
        return z3.BoolVal(True)
    if [e[0] for e in ev] != ['draw', 'yield']:
        return z3.BoolVal(False)
    d, y = ev
    prev0 = c.st.ghost.get('prev_at_head')
    prev1 = c.st.env.get('prev')
    if prev0 is None or prev1 is None:
        raise KeyError('prev')                            # the local this clause is about has another name: undecided, not wrong
    if prev0.k != 'real' or y[1].k != 'real' or d[2].k != 'real':
        return z3.BoolVal(False)
    return z3.And(y[1].z == d[2].z - prev0.z, z3.BoolVal(prev1 is d[2]))         # difference to the previous value; it moves on


def diff_post(c):
    t = [e for e in c.trace if e[0] in ('draw', 'yield', 'loop-head', 'exhausted')]
    heads = [i for i, e in enumerate(t) if e[0] == 'loop-head']
    if not heads:
        return z3.BoolVal(not [e for e in t if e[0] == 'yield'])            # the source ended at once: nothing is yielded
    before = [e[0] for e in t[:heads[0]]]
    return z3.BoolVal(before == ['draw'])                                    # ONE value drawn before the first pass, not yielded


contract(F, 'Pdiff.__embed__', props=('C13',), params={'self': 'self', 'inval': 'obj'},
         ensures=[('ends-quietly-when-the-source-ends', quiet_end), ('first-value-drawn-and-not-yielded', diff_post)],
         fields={'Pdiff': {'pattern': 'obj'}},
         loops={0: Loop(inv=diff_pass, kinds={'inval': 'obj', 'prev': 'real', 'next': 'real'}, havoc_hook=remember_prev)},
         policies={STREAM: role_stream({'pattern': 'real'})}, class_modules={'Pdiff': F},
         hooks={'getattr': h_getattr}, opts={'generator_trace': True}, native=False)


# ---- Platch -------------------------------------------------------------------------------------------------------------------
HAVE_LAST = z3.Bool('a_value_was_drawn_before')


def pl_copy(eng, mod, name, args, kwargs, st, node):
    if mod == 'copy' and name == 'copy':
        r = V('obj', oid='copy!%d' % next(eng.counter), extra={'copy_of': args[0]})
        st.trace.append(('copy', args[0], r))
        return [(st, r)]
    return None


def pl_getattr(eng, obj, name, st, node):
    if obj.k == 'ref' and obj.oid == 'self' and name == '_UNDEFINED':
        return [(st, V('obj', oid='UNDEFINED'))]
    return h_getattr(eng, obj, name, st, node)


def pl_compare(eng, op, a, b, st, node):
    import ast as _a
    if isinstance(op, (_a.Is, _a.IsNot)):
        for p, q in ((a, b), (b, a)):
            if q.k == 'obj' and q.oid == 'UNDEFINED':
                if p.k == 'obj' and p.oid == 'UNDEFINED':
                    r = z3.BoolVal(True)
                elif p.k == 'obj' and p.oid == 'last-value':
                    r = z3.Not(HAVE_LAST)                                    # the havocked loop variable: maybe still undefined
                else:
                    r = z3.BoolVal(False)
                return z3.Not(r) if isinstance(op, _a.IsNot) else r
    return None


def last_kind(eng, name):
    return V('obj', oid='last-value')


def remember_last(eng, st):
    st.ghost = dict(st.ghost)
    st.ghost['last_at_head'] = st.env.get('last_inval')


def latch_pass(c, L):
    ev = events(c, 0)
    if ev is None:
        return z3.BoolVal(True)
    full = since(c.trace, 0)
    draws = [e for e in ev if e[0] == 'draw']
    ys = [e for e in ev if e[0] == 'yield']
    copies = [e for e in full if e[0] == 'copy']
    if not draws or draws[0][1].extra.get('role') != 'trig' or len(ys) != 1 or draws[0][2].k != 'bool':
        return z3.BoolVal(False)
    trig = draws[0][2].z
    src = [e for e in draws[1:] if e[1].extra.get('role') == 'pattern']
    if len(src) != len(draws) - 1 or len(src) > 1:
        return z3.BoolVal(False)
    last1 = c.st.env.get('last_inval')
    last0 = c.st.ghost.get('last_at_head')
    if last1 is None or last0 is None:
        raise KeyError('last_inval')                      # the local this clause is about has another name: undecided, not wrong
    # is there a remembered value at the head of this pass?  (the havocked variable: a ghost boolean; the very first
    # pass from the entry state: plainly not)
    if last0.k == 'obj' and last0.oid == 'UNDEFINED':
        have = z3.BoolVal(False)
    elif last0.k == 'obj' and last0.oid == 'last-value':
        have = HAVE_LAST
    else:
        have = z3.BoolVal(True)
    if src and not copies:
        # a new value from the source, yielded as it is and remembered
        return z3.And(trig, z3.BoolVal(ys[0][1] is src[0][2] and last1 is src[0][2]))
    if len(copies) != 1 or ys[0][1] is not copies[0][2]:
        return z3.BoolVal(False)
    if src:
        # no value yet: one is drawn first, a copy of it goes out
        return z3.And(z3.Not(trig), z3.Not(have), z3.BoolVal(copies[0][1] is src[0][2] and last1 is src[0][2]))
    return z3.And(z3.Not(trig), have, z3.BoolVal(copies[0][1] is last0 and last1 is last0))   # held: the source is not advanced


contract(F, 'Platch.__embed__', props=('C13',), params={'self': 'self', 'inval': 'obj'},
         ensures=[('ends-quietly-when-a-stream-ends', quiet_end)],
         fields={'Platch': {'pattern': 'obj', 'trig': 'obj'}},
         loops={0: Loop(inv=latch_pass, kinds={'inval': 'obj', 'trig': 'bool', 'last_inval': last_kind}, havoc_hook=remember_last)},
         policies={STREAM: role_stream({'pattern': 'any', 'trig': 'bool'})}, class_modules={'Platch': F},
         hooks={'getattr': pl_getattr, 'compare': pl_compare, 'ext': pl_copy}, opts={'generator_trace': True}, native=False,
         note='the trigger is a boolean (truthiness of other trigger values: bounded driver)')


# ---- Pwrap ---------------------------------------------------------------------------------------------------------------------
# every pass draws ONE lower bound, ONE upper bound and ONE value (with the current input) and yields bi.wrap(value, lo, hi)
# of exactly those three (what wrap computes: base_builtins / C15)
def wrap_pol(eng, selfv, args, kwargs, st, node):
    r = V('obj', oid='wrapped!%d' % next(eng.counter), extra={'args': tuple(args)})
    st.trace.append(('wrap', tuple(args), r))
    return [(st, r)]


def pwrap_pass(c, L):
    ev = events(c, 0)
    if ev is None:
        return z3.BoolVal(True)
    full = since(c.trace, 0)
    draws = [e for e in ev if e[0] == 'draw']
    ys = [e for e in ev if e[0] == 'yield']
    wr = [e for e in full if e[0] == 'wrap']
    if sorted(e[1].extra.get('role') for e in draws) != ['hi', 'lo', 'pattern'] or len(ys) != 1 or len(wr) != 1:
        return z3.BoolVal(False)
    by = {e[1].extra['role']: e[2] for e in draws}
    a = wr[0][1]
    ok = len(a) == 3 and a[0] is by['pattern'] and a[1] is by['lo'] and a[2] is by['hi'] and ys[0][1] is wr[0][2]
    return z3.BoolVal(bool(ok))


contract(F, 'Pwrap.__embed__', props=('C13',), params={'self': 'self', 'inval': 'obj'},
         ensures=[('ends-quietly-when-a-stream-ends', quiet_end)],
         fields={'Pwrap': {'pattern': 'obj', 'lo': 'obj', 'hi': 'obj'}},
         loops={0: Loop(inv=pwrap_pass, kinds={'inval': 'obj', 'lo': 'any', 'hi': 'any', 'value': 'any'})},
         policies={STREAM: role_stream({'pattern': 'any', 'lo': 'any', 'hi': 'any'}), 'sc3/base/builtins.py::wrap': wrap_pol},
         class_modules={'Pwrap': F}, hooks={'getattr': h_getattr}, opts={'generator_trace': True}, native=False)


# ---- Pprorate (a number as proportion) ----------------------------------------------------------------------------------------
# every pass draws ONE value and ONE proportion c and yields c * value, then (1 - c) * value: the two parts add up to the value
def prorate_pass(c, L):
    ev = events(c, 0)
    if ev is None:
        return z3.BoolVal(True)
    if [e[0] for e in ev] != ['draw', 'draw', 'yield', 'yield']:
        return z3.BoolVal(False)
    d = {e[1].extra.get('role'): e[2] for e in ev[:2]}
    if set(d) != {'pattern', 'proportion'} or any(v.k != 'real' for v in d.values()) or any(e[1].k != 'real' for e in ev[2:]):
        return z3.BoolVal(False)
    v, p = d['pattern'].z, d['proportion'].z
    return z3.And(ev[2][1].z == p * v, ev[3][1].z == (1 - p) * v)


contract(F, 'Pprorate.__embed__', props=('C13',), params={'self': 'self', 'inval': 'obj'},
         ensures=[('ends-quietly-when-a-stream-ends', quiet_end)],
         fields={'Pprorate': {'pattern': 'obj', 'proportion': 'obj'}},
         loops={0: Loop(inv=prorate_pass, kinds={'inval': 'obj', 'value': 'real', 'c': 'real'})},
         policies={STREAM: role_stream({'pattern': 'real', 'proportion': 'real'})},
         class_modules={'Pprorate': F}, hooks={'getattr': h_getattr}, opts={'generator_trace': True}, native=False,
         note='numeric proportion (a list of proportions: bounded driver)')


# ---- Pfuncn (funcpatterns.py): the function's values, `repeats` of them ------------------------------------------------------------
# every pass (bi.counter(repeats)) calls the function ONCE - with the current input value iff the function takes one -
# and yields exactly what it returns
from .seq_common import counter_pol, counts

FP = 'sc3/seq/patterns/funcpatterns.py'


def fn_call(eng, f, args, kwargs, st, node):
    if f.k == 'obj' and f.oid == 'self.func':
        r = V('obj', oid='value!%d' % next(eng.counter))
        st.trace.append(('func-called', tuple(args), dict(kwargs), r))
        return [(st, r)]
    return None


def remember_inval(eng, st):
    st.ghost = dict(st.ghost)
    st.ghost['inval_at_head'] = st.env.get('inval')


def funcn_pass(c, L):
    full = since(c.trace, 0)
    if not full or L.phase != 'after':
        return z3.BoolVal(True)
    calls = [e for e in full if e[0] == 'func-called']
    ys = [e for e in full if e[0] == 'yield']
    if len(calls) != 1 or len(ys) != 1 or ys[0][1] is not calls[0][3] or calls[0][2]:
        return z3.BoolVal(False)
    a = calls[0][1]
    takes = c.pre.self._func_has_inval
    if len(a) == 1:
        return z3.And(takes, z3.BoolVal(a[0] is c.st.ghost.get('inval_at_head')))
    return z3.And(z3.Not(takes), z3.BoolVal(len(a) == 0))


contract(FP, 'Pfuncn.__embed__', props=('C13',), params={'self': 'self', 'inval': 'obj'},
         ensures=[('returns-the-threaded-input-value', lambda c: z3.BoolVal(c.resultv is c.st.env['inval']))],
         fields={'Pfuncn': {'func': 'obj', '_func_has_inval': 'bool', 'repeats': 'obj'}},
         loops={0: Loop(inv=funcn_pass, over=counts('repeats'), kinds={'inval': 'obj', 'i': 'int'}, havoc_hook=remember_inval)},
         policies={'counter': counter_pol}, class_modules={'Pfuncn': FP},
         hooks={'call': fn_call}, opts={'generator_trace': True}, native=False)


# ---- Ptime (timepatterns.py): beats since the embedding --------------------------------------------------------------------------
# the beat of the current thread is read ONCE when the embedding starts; every pass (bi.counter(repeats)) reads it again
# and yields (that reading - the first one)
FT = 'sc3/seq/patterns/timepatterns.py'


def pt_getattr(eng, obj, name, st, node):
    if obj.k == 'ref' and obj.cls == 'TimeThread' and name == '_beats':
        z = z3.Real('beats!%d' % next(eng.counter))
        st.trace.append(('beats-read', z))
        return [(st, vreal(z))]
    return None


def ptime_pass(c, L):
    full = since(c.trace, 0)
    if not full or L.phase != 'after':
        return z3.BoolVal(True)
    reads = [e for e in full if e[0] == 'beats-read']
    ys = [e for e in full if e[0] == 'yield']
    first = [e for e in c.trace if e[0] == 'beats-read']
    heads = [i for i, e in enumerate(c.trace) if e[0] == 'loop-head']
    if len(reads) != 1 or len(ys) != 1 or ys[0][1].k != 'real' or not first or c.trace.index(first[0]) > heads[0]:
        return z3.BoolVal(False)
    return ys[0][1].z == reads[0][1] - first[0][1]                          # now - the beat at which the embedding began


def ptime_post(c):
    heads = [i for i, e in enumerate(c.trace) if e[0] == 'loop-head']
    pre = [e for e in (c.trace[:heads[0]] if heads else c.trace) if e[0] == 'beats-read']
    return z3.BoolVal(len(pre) == 1 and c.resultv is c.st.env['inval'])     # read once before the first value


contract(FT, 'Ptime.__embed__', props=('C13',), params={'self': 'self', 'inval': 'obj'},
         ensures=[('start-beat-read-once;returns-the-threaded-input-value', ptime_post)],
         fields={'Ptime': {'repeats': 'obj'}, 'Main': {'current_tt': 'ref:TimeThread'}, 'TimeThread': {}},
         loops={0: Loop(inv=ptime_pass, over=counts('repeats'), kinds={'inval': 'obj', '_': 'int'})},
         policies={'counter': counter_pol}, class_modules={'Ptime': FT, 'TimeThread': 'sc3/base/stream.py'},
         hooks={'getattr': pt_getattr}, opts={'generator_trace': True}, native=False)


# ---- Pgate: hold a value until the gate key opens -------------------------------------------------------------------------------
# every repetition makes ONE stream of the pattern; every pass draws a NEW value from it exactly when the input event's
# gate key is True or there is no value yet (first pass of a repetition), and embeds a COPY of the current value in place
# with the threaded input event; the end of the stream ends the repetition, and the next one starts without a held value.
GATE_OPEN = z3.Bool('gate_key_is_True!0')


def pg_getattr(eng, obj, name, st, node):
    if obj.k == 'obj' and name == 'get' and not (obj.extra and 'of' in obj.extra):        # the input event (whatever it is by now)
        def get(eng, a, kw, st, node, _o=obj):
            b = z3.Bool('gate_key_is_True!%d' % next(eng.counter))
            st.trace.append(('gate-read', _o, tuple(a), b))
            return [(st, V('obj', oid='gate-value', extra={'is_true': b}))]
        return [(st, V('func', py=('spec', get)))]
    return h_getattr(eng, obj, name, st, node)


def pg_compare(eng, op, a, b, st, node):
    import ast as _a
    if isinstance(op, (_a.Is, _a.IsNot)):
        for p, q in ((a, b), (b, a)):
            if p.k == 'obj' and p.oid == 'gate-value' and q.k == 'bool' and z3.is_true(z3.simplify(q.z)):
                r = p.extra['is_true']
                return z3.Not(r) if isinstance(op, _a.IsNot) else r
            if p.k == 'obj' and p.oid == 'held-value' and q.k == 'none':
                r = z3.Not(z3.Bool('a_value_is_held'))
                return z3.Not(r) if isinstance(op, _a.IsNot) else r
    return None


def held_kind(eng, name):
    return V('obj', oid='held-value')


def pg_embed(eng, selfv, args, kwargs, st, node):
    g = V('obj', oid='gen!%d' % next(eng.counter))
    st.trace.append(('embed', args[0], args[1], g))
    return [(st, g)]


def pg_remember(eng, st):
    st.ghost = dict(st.ghost)
    st.ghost['output_at_head'] = st.env.get('output')
    st.ghost['inevent_at_head'] = st.env.get('inevent')


def gate_pass(c, L):
    ev = events(c, 1)
    if ev is None:
        return z3.BoolVal(True)
    full = since(c.trace, 1)
    draws = [e for e in ev if e[0] == 'draw']
    em = [e for e in ev if e[0] == 'embed']
    yf = [e for e in ev if e[0] == 'yield-from']
    cps = [e for e in full if e[0] == 'copy']
    gates = [e for e in full if e[0] == 'gate-read']
    out0 = c.st.ghost.get('output_at_head')
    out1 = c.st.env.get('output')
    in0 = c.st.ghost.get('inevent_at_head')
    if out0 is None or out1 is None or in0 is None:
        raise KeyError('output')                              # the locals this clause is about have other names: undecided
    if len(em) != 1 or len(yf) != 1 or len(cps) != 1 or len(draws) > 1 or yf[0][1] is not em[0][3]:
        return z3.BoolVal(False)
    held = z3.Bool('a_value_is_held') if (out0.k == 'obj' and out0.oid == 'held-value') else z3.BoolVal(out0.k != 'none')
    opened = z3.Or(*[g[3] for g in gates]) if gates else z3.BoolVal(False)
    cur = draws[0][2] if draws else out0
    ok = em[0][1] is cps[0][2] and cps[0][1] is cur and em[0][2] is in0 and out1 is cur and c.st.env['inevent'] is yf[0][2]
    # a new value iff the gate is open or nothing is held; the value embedded is a COPY of the current one
    return z3.And(z3.BoolVal(bool(draws)) == z3.Or(opened, z3.Not(held)), z3.BoolVal(bool(ok)))


def gate_repetition(c, L):
    # a repetition ends without a held value: the next one draws afresh
    if L.phase != 'after':
        return z3.BoolVal(True)
    out = c.st.env.get('output')
    if out is None:
        raise KeyError('output')
    return z3.BoolVal(out.k == 'none')


contract(F, 'Pgate.__embed__', props=('C13',), params={'self': 'self', 'inevent': 'obj'},
         ensures=[('returns-the-threaded-input-event', lambda c: z3.BoolVal(c.resultv is c.st.env['inevent']))],
         fields={'Pgate': {'pattern': 'obj', 'key': 'obj', 'repeats': 'obj'}},
         loops={0: Loop(inv=gate_repetition, over=counts('repeats'),
                        kinds={'inevent': 'obj', '_': 'int', 'output': held_kind, 'stream': 'obj'}),
                1: Loop(inv=gate_pass, kinds={'inevent': 'obj', 'output': held_kind}, havoc_hook=pg_remember)},
         policies={STREAM: role_stream({'pattern': 'any'}), 'counter': counter_pol, 'sc3/base/stream.py::embed': pg_embed},
         class_modules={'Pgate': F, 'Pn': F},
         hooks={'getattr': pg_getattr, 'compare': pg_compare, 'ext': pl_copy}, opts={'generator_trace': True}, native=False)


# ---- Pseed: the pattern replayed under given random seeds -------------------------------------------------------------------------
# every pass draws ONE seed, makes a FRESH routine (its body embeds the pattern), gives it that seed BEFORE anything is
# drawn from it, and embeds the routine's stream in place with the threaded input; the end of the seed stream ends it.
def sd_construct(eng, f, args, kwargs, st, node):
    if f.k == 'class' and f.py == 'Routine':
        r = V('obj', oid='routine!%d' % next(eng.counter), extra={'routine': True, 'func': args[0] if args else None})
        st.trace.append(('routine-made', r))
        return [(st, r)]
    return None


def sd_getattr(eng, obj, name, st, node):
    if obj.k == 'module' and name == 'Routine':
        return [(st, V('class', py='Routine'))]
    return h_getattr(eng, obj, name, st, node)


def sd_setattr(eng, obj, name, v, st, node):
    if obj.k == 'obj' and obj.extra and obj.extra.get('routine') and name == 'rand_seed':
        st.trace.append(('seeded', obj, v))
        return [('next', st)]
    return None


def sd_stream(eng, selfv, args, kwargs, st, node):
    src = args[0]
    if src.k == 'obj' and src.extra and src.extra.get('routine'):
        r = V('obj', oid='stream-of-routine', extra={'routine-of': src})
        st.trace.append(('routine-streamed', src, r))
        return [(st, r)]
    return role_stream({'rand_seed': 'any'})(eng, selfv, args, kwargs, st, node)


def body_embeds_the_pattern(f):
    """the routine's function (a nested generator function, read as source): `yield from <...>embed(self.pattern, <its
    parameter>)`.  True / False when the body has that shape; None when it is written some other way (then the clause
    says nothing: undecided, not wrong)"""
    import ast as _a
    if f is None or f.k != 'func' or not isinstance(f.py, tuple) or f.py[0] != 'closure':
        return None
    fdef = f.py[1]
    if len(fdef.args.args) != 1:
        return None
    par = fdef.args.args[0].arg
    body = [s_ for s_ in fdef.body if not (isinstance(s_, _a.Expr) and isinstance(s_.value, _a.Constant))]
    if not body:
        return False                                        # an empty body embeds nothing
    if len(body) != 1:
        return None
    s_ = body[0]
    v = s_.value if isinstance(s_, (_a.Expr, _a.Return, _a.Assign)) else None
    if not isinstance(v, _a.YieldFrom) or not isinstance(v.value, _a.Call):
        return False if isinstance(s_, _a.Pass) else None
    call = v.value
    if _a.unparse(call.func).split('.')[-1] != 'embed' or call.keywords or len(call.args) != 2:
        return None
    return _a.unparse(call.args[0]) == 'self.pattern' and _a.unparse(call.args[1]) == par


def seed_pass(c, L):
    ev = events(c, 0)
    if ev is None:
        return z3.BoolVal(True)
    full = since(c.trace, 0)
    order = [e[0] for e in full if e[0] in ('routine-made', 'draw', 'seeded', 'routine-streamed', 'embed', 'yield-from')]
    if sorted(order) != sorted(['routine-made', 'draw', 'seeded', 'routine-streamed', 'embed', 'yield-from']):
        return z3.BoolVal(False)
    g = {k: [e for e in full if e[0] == k][0] for k in order}
    pos = {k: full.index(g[k]) for k in order}
    rout = g['routine-made'][1]
    shape = body_embeds_the_pattern(rout.extra.get('func'))
    if shape is None:
        raise KeyError('the routine body is written in a way this clause does not read')
    if not shape:
        return z3.BoolVal(False)
    ok = (g['draw'][1].extra.get('role') == 'rand_seed' and g['seeded'][1] is rout and g['seeded'][2] is g['draw'][2]
          and g['routine-streamed'][1] is rout and g['embed'][1] is g['routine-streamed'][2]
          and g['yield-from'][1] is g['embed'][3] and c.st.env['inval'] is g['yield-from'][2]
          and pos['seeded'] < pos['embed'] and pos['routine-made'] < pos['seeded'])         # seeded BEFORE it runs
    return z3.BoolVal(bool(ok))


contract(F, 'Pseed.__embed__', props=('C13',), params={'self': 'self', 'inval': 'obj'},
         ensures=[('returns-the-threaded-input-value', lambda c: z3.BoolVal(c.resultv is c.st.env['inval']))],
         fields={'Pseed': {'pattern': 'obj', 'rand_seed': 'obj'}},
         loops={0: Loop(inv=seed_pass, kinds={'inval': 'obj', 'rout': 'obj', 'func': 'obj'})},
         policies={STREAM: sd_stream, 'sc3/base/stream.py::embed': pg_embed},
         class_modules={'Pseed': F}, hooks={'getattr': sd_getattr, 'construct': sd_construct, 'setattr': sd_setattr},
         opts={'generator_trace': True}, native=False)


# ---- Plazy (funcpatterns.py): the pattern is computed when it is embedded ----------------------------------------------------------
# the function is called ONCE with the input value; what it returns is embedded in place with the same input value; the
# embedding's result is the result
def lazy_post(c):
    t = c.trace
    calls = [e for e in t if e[0] == 'func-called']
    em = [e for e in t if e[0] == 'embed']
    yf = [e for e in t if e[0] == 'yield-from']
    inval = c._params['inval']
    ok = (len(calls) == 1 and len(em) == 1 and len(yf) == 1 and len(calls[0][1]) == 1 and calls[0][1][0] is inval and not calls[0][2]
          and em[0][1] is calls[0][3] and em[0][2] is inval and yf[0][1] is em[0][3] and c.resultv is yf[0][2])
    return z3.BoolVal(bool(ok))


contract(FP, 'Plazy.__embed__', props=('C13',), params={'self': 'self', 'inval': 'obj'},
         ensures=[('function-called-once-with-the-input;its-result-embedded-in-place-with-the-same-input', lazy_post)],
         fields={'Plazy': {'func': 'obj'}}, class_modules={'Plazy': FP},
         policies={'sc3/base/stream.py::embed': pg_embed}, hooks={'call': fn_call}, opts={'generator_trace': True},
         modifies=[], native=False)


# ---- Prout.__embed__ (funcpatterns.py): a generator function embedded in place -----------------------------------------------------
# the generator function is called ONCE (with the input value iff it takes one); its first value is yielded; then every pass
# SENDS the value this embedding was handed last (what its own previous yield received - not the first input again: the
# defect repaired by the `fix:` commit "Prout embedded in another pattern passes on the input values it is sent") and
# yields the answer.  A plain function is called once and its value is the result (nothing is yielded).
def pr_call(eng, f, args, kwargs, st, node):
    if f.k == 'obj' and f.oid == 'self.func':
        r = V('ref', cls='Gen', oid='the-iterator')
        st.trace.append(('func-called', tuple(args), dict(kwargs), r))
        return [(st, r)]
    return None


def pr_step(kind, g, args, eng, st, node):
    ok, bad = st, st.fork()
    v = V('obj', oid='answer!%d' % next(eng.counter))
    ok.trace.append((kind, g, tuple(args), v))
    bad.trace.append((kind + '-ended', g, tuple(args)))
    return [(ok, v), (bad, Raised(eng.make_exc('StopIteration', node=node)))]


def pr_builtin(eng, name, args, kwargs, st, node):
    if name == 'next' and len(args) == 1 and args[0].k == 'ref' and args[0].cls == 'Gen':
        return pr_step('first', args[0], [], eng, st, node)
    return None


def pr_getattr(eng, obj, name, st, node):
    if obj.k == 'ref' and obj.cls == 'Gen' and name == 'send':
        def send(eng, a, kw, st, node, _g=obj):
            return pr_step('send', _g, a, eng, st, node)
        return [(st, V('func', py=('spec', send)))]
    if obj.k == 'exc' and name == 'value':
        return [(st, V('obj', oid='return-value-of-the-generator'))]
    return None


def prout_pass(c, L):
    """inductive form of "what is sent is what this embedding received last": the local that carries the input value holds,
    when the loop is entered, what the FIRST yield received; every pass sends that local's value as it stands at the head
    of the pass and stores in it what THIS pass's yield receives"""
    if L.phase == 'entry':
        ys = [e for e in c.trace if e[0] == 'yield']
        if len(ys) != 1 or len(ys[0]) < 3:
            return z3.BoolVal(False)
        return z3.BoolVal(c.st.env['inval'] is ys[0][2])
    full = since(c.trace, 0)
    if not full or L.phase != 'after':
        return z3.BoolVal(True)
    sends = [e for e in full if e[0] == 'send']
    ys = [e for e in full if e[0] == 'yield']
    if len(sends) != 1 or len(ys) != 1 or ys[0][1] is not sends[0][3] or len(ys[0]) < 3:
        return z3.BoolVal(False)
    at_head = c.st.ghost.get('inval_at_head')
    return z3.BoolVal(len(sends[0][2]) == 1 and sends[0][2][0] is at_head and c.st.env['inval'] is ys[0][2])


def prout_post(c):
    t = c.trace
    calls = [e for e in t if e[0] == 'func-called']
    takes = c.pre.self._func_has_inval
    isgen = c.pre.self._func_isgenfunc
    if len(calls) != 1 or calls[0][2]:
        return z3.BoolVal(False)
    a = calls[0][1]
    cl = [z3.BoolVal(len(a) == 1 and a[0] is c._params['inval']) == takes, z3.BoolVal(len(a) == 0) == z3.Not(takes)]
    firsts = [e for e in t if e[0] in ('first', 'first-ended')]
    if not firsts:
        # a plain function: its value is the result, nothing is yielded
        cl += [z3.Not(isgen), z3.BoolVal(c.resultv is calls[0][3] and not [e for e in t if e[0] == 'yield'])]
        return z3.And(*cl)
    cl.append(isgen)
    if firsts[0][0] == 'first':
        ys = [e for e in t if e[0] == 'yield']
        cl.append(z3.BoolVal(bool(ys) and ys[0][1] is firsts[0][3]))                    # the first value is yielded as it is
    cl.append(z3.BoolVal(c.resultv.k == 'obj' and c.resultv.oid == 'return-value-of-the-generator'))
    return z3.And(*cl)


contract(FP, 'Prout.__embed__', props=('C13',), params={'self': 'self', 'inval': 'obj'},
         ensures=[('called-once(with-the-input-iff-it-takes-one);generator:first-value-yielded,its-return-value-returned;function:its-value', prout_post)],
         fields={'Prout': {'func': 'obj', '_func_has_inval': 'bool', '_func_isgenfunc': 'bool'}, 'Gen': {}},
         loops={0: Loop(inv=prout_pass, kinds={'inval': 'obj'}, havoc_hook=remember_inval)},
         class_modules={'Prout': FP, 'Gen': FP}, hooks={'call': pr_call, 'builtin_first': pr_builtin, 'getattr': pr_getattr},
         opts={'generator_trace': True}, modifies=[], native=False)
