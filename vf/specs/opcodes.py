"""Server operator numbers, from SuperCollider's include/plugin_interface/
Opcodes.h (enum order), with the selector names of PyrParseNode.cpp
initSpecialSelectors(). Written from those public sources, not from sc3."""

UNARY = ['neg', 'not', 'isNil', 'notNil', 'bitNot', 'abs', 'asFloat', 'asInteger',
         'ceil', 'floor', 'frac', 'sign', 'squared', 'cubed', 'sqrt', 'exp',
         'reciprocal', 'midicps', 'cpsmidi', 'midiratio', 'ratiomidi', 'dbamp',
         'ampdb', 'octcps', 'cpsoct', 'log', 'log2', 'log10', 'sin', 'cos', 'tan',
         'asin', 'acos', 'atan', 'sinh', 'cosh', 'tanh', 'rand', 'rand2', 'linrand',
         'bilinrand', 'sum3rand', 'distort', 'softclip', 'coin', 'digitValue',
         'silence', 'thru', 'rectWindow', 'hanWindow', 'welWindow', 'triWindow',
         'ramp', 'scurve']

BINARY = ['+', '-', '*', 'div', '/', 'mod', '==', '!=', '<', '>', '<=', '>=',
          'min', 'max', 'bitAnd', 'bitOr', 'bitXor', 'lcm', 'gcd', 'round',
          'roundUp', 'trunc', 'atan2', 'hypot', 'hypotApx', 'pow', 'leftShift',
          'rightShift', 'unsignedRightShift', 'fill', 'ring1', 'ring2', 'ring3',
          'ring4', 'difsqr', 'sumsqr', 'sqrsum', 'sqrdif', 'absdif', 'thresh',
          'amclip', 'scaleneg', 'clip2', 'excess', 'fold2', 'wrap2', 'firstArg',
          'rrand', 'exprand']

UNARY_INDEX = {n: i for i, n in enumerate(UNARY)}
BINARY_INDEX = {n: i for i, n in enumerate(BINARY)}

# Python-side spellings that must resolve to a given server operator:
# dunder methods, operator-module names and sc3.base.builtins function names.
PY_UNARY = {
    '__neg__': 'neg', 'neg': 'neg', 'not_': 'not', '__invert__': 'bitNot', 'invert': 'bitNot',
    '__abs__': 'abs', 'abs': 'abs', 'as_float': 'asFloat', 'as_int': 'asInteger',
    '__ceil__': 'ceil', 'ceil': 'ceil', '__floor__': 'floor', 'floor': 'floor',
    'frac': 'frac', 'sign': 'sign', 'squared': 'squared', 'cubed': 'cubed',
    'sqrt': 'sqrt', 'exp': 'exp', 'reciprocal': 'reciprocal', 'midicps': 'midicps',
    'cpsmidi': 'cpsmidi', 'midiratio': 'midiratio', 'ratiomidi': 'ratiomidi',
    'dbamp': 'dbamp', 'ampdb': 'ampdb', 'octcps': 'octcps', 'cpsoct': 'cpsoct',
    'log': 'log', 'log2': 'log2', 'log10': 'log10', 'sin': 'sin', 'cos': 'cos',
    'tan': 'tan', 'asin': 'asin', 'acos': 'acos', 'atan': 'atan', 'sinh': 'sinh',
    'cosh': 'cosh', 'tanh': 'tanh', 'rand': 'rand', 'rand2': 'rand2',
    'linrand': 'linrand', 'bilinrand': 'bilinrand', 'sum3rand': 'sum3rand',
    'distort': 'distort', 'softclip': 'softclip', 'coin': 'coin',
}
PY_BINARY = {
    '__add__': '+', '__radd__': '+', 'add': '+', '__sub__': '-', '__rsub__': '-', 'sub': '-',
    '__mul__': '*', '__rmul__': '*', 'mul': '*',
    '__floordiv__': 'div', '__rfloordiv__': 'div', 'floordiv': 'div', 'div': 'div',
    '__truediv__': '/', '__rtruediv__': '/', 'truediv': '/',
    '__mod__': 'mod', '__rmod__': 'mod', 'mod': 'mod',
    '__lt__': '<', 'lt': '<', '__gt__': '>', 'gt': '>', '__le__': '<=', 'le': '<=',
    '__ge__': '>=', 'ge': '>=', 'min': 'min', 'max': 'max',
    '__and__': 'bitAnd', '__rand__': 'bitAnd', 'and_': 'bitAnd', 'bitand': 'bitAnd',
    '__or__': 'bitOr', '__ror__': 'bitOr', 'or_': 'bitOr', 'bitor': 'bitOr',
    '__xor__': 'bitXor', '__rxor__': 'bitXor', 'xor': 'bitXor', 'bitxor': 'bitXor',
    'lcm': 'lcm', 'gcd': 'gcd', 'round': 'round', 'roundup': 'roundUp', 'trunc': 'trunc',
    'atan2': 'atan2', 'hypot': 'hypot', 'hypotx': 'hypotApx',
    '__pow__': 'pow', '__rpow__': 'pow', 'pow': 'pow',
    '__lshift__': 'leftShift', '__rlshift__': 'leftShift', 'lshift': 'leftShift',
    '__rshift__': 'rightShift', '__rrshift__': 'rightShift', 'rshift': 'rightShift',
    'ring1': 'ring1', 'ring2': 'ring2', 'ring3': 'ring3', 'ring4': 'ring4',
    'difsqr': 'difsqr', 'sumsqr': 'sumsqr', 'sqrsum': 'sqrsum', 'sqrdif': 'sqrdif',
    'absdif': 'absdif', 'thresh': 'thresh', 'amclip': 'amclip', 'scaleneg': 'scaleneg',
    'clip2': 'clip2', 'excess': 'excess', 'fold2': 'fold2', 'wrap2': 'wrap2',
    'first_arg': 'firstArg', 'rrand': 'rrand', 'exprand': 'exprand',
}
