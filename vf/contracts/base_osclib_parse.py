"""Contracts for the OSC decoder's index arithmetic (C18): sc3/base/_osclib.py.
Byte contents are abstract; what is proved is progress/termination of the bundle
parser and that short datagrams are refused rather than read past the end."""
import z3
from vf.pyvc.spec import contract, Loop
from vf.pyvc.values import *
from vf.pyvc.engine import Raised

F = 'sc3/base/_osclib.py'


def remaining(c):
    L = c.blen(c.dgram)
    return z3.If(c.start_index < L, L - c.start_index, 0)


for fn, n in (('get_int', 4), ('get_timetag', 8)):
    contract(F, fn, props=('C18',),
             params={'dgram': 'bytes', 'start_index': 'int'},
             requires=lambda c: c.start_index >= 0,
             raises={'OscTypeParseError': (lambda n: lambda c: remaining(c) < n)(n)},
             ensures=[('consumes-exactly-%d-bytes' % n, (lambda n: lambda c: z3.And(
                 z3.BoolVal(c.resultv.k == 'tuple' and len(c.resultv.items) == 2),
                 c.resultv.items[1].z == c.start_index + n,
                 c.start_index + n <= c.blen(c.dgram)))(n))],
             note='never reads past the end: too short a datagram is a parse error')


def may_fail(name, exc):
    def pol(eng, selfv, args, kwargs, st, node):
        bad = st.fork()
        return [(st, V('obj', oid='%s!%d' % (name, next(eng.counter)))),
                (bad, Raised(eng.make_exc(exc, node=node)))]
    return pol


def get_int_model(eng, selfv, args, kwargs, st, node):
    """contract call of get_int (proved above)"""
    dgram, idx = args
    L = eng.bytes_len(dgram)
    rem = z3.If(idx.z < L, L - idx.z, 0)
    outs = []
    for st1, short in eng.branch(st, rem < 4, node):
        if short:
            outs.append((st1, Raised(eng.make_exc('OscTypeParseError', node=node))))
        else:
            v = eng.fresh_val('int', 'size')
            st1.pc.append(z3.And(v.z >= -2**31, v.z <= 2**31 - 1))
            outs.append((st1, vtuple([v, vint(idx.z + 4)])))
    return outs


def construct(eng, f, args, kwargs, st, node):
    if f.py in ('OscBundle', 'OscMessage'):
        bad = st.fork()
        exc = 'OscBundleParseError' if f.py == 'OscBundle' else 'OscMessageParseError'
        return [(st, V('obj', oid='%s!%d' % (f.py, next(eng.counter)))),
                (bad, Raised(eng.make_exc(exc, node=node)))]
    return None


contract(F, 'OscBundle._parse_contents', props=('C18',),
         params={'self': 'self', 'index': 'int'},
         requires=lambda c: c.index >= 0,
         raises={'OscBundleParseError': None},
         ensures=[],
         fields={'OscBundle': {'_dgram': 'bytes'}},
         loops={0: Loop(
             inv=lambda c, L: L.index >= 0,
             # every iteration consumes at least the 4 size bytes: terminates
             variant=lambda c, L: c.blen(c.pre.self.v('_dgram')) - L.index,
             kinds={'contents': 'obj', 'content_dgram': 'bytes', 'content_size': 'int'})},
         policies={'get_int': get_int_model,
                   'OscBundle.dgram_is_bundle': 'opaque', 'OscMessage.dgram_is_message': 'opaque'},
         opaque_kinds={'OscBundle.dgram_is_bundle': 'bool', 'OscMessage.dgram_is_message': 'bool'},
         hooks={'construct': construct},
         opts={'untracked_lists': True},
         class_modules={'OscBundle': F, 'OscMessage': F},
         note='termination = the loop variant: a negative element size would leave the index where it was')


# ---- get_blob: size count, that many bytes, padding to a multiple of 4 -------------------------
def get_int_traced(eng, selfv, args, kwargs, st, node):
    outs = get_int_model(eng, selfv, args, kwargs, st, node)
    for st1, r in outs:
        if not isinstance(r, Raised):
            st1.trace.append(('size', r.items[0].z))
    return outs


def blob_size(c):
    s = [e for e in c.trace if e[0] == 'size']
    return s[0][1] if len(s) == 1 else None


def blob_post(c):
    size = blob_size(c)
    r = c.resultv
    if size is None or r.k != 'tuple' or len(r.items) != 2 or r.items[0].k != 'bytes':
        return z3.BoolVal(False)
    pad = (-size) % 4
    return z3.And(size >= 0,
                  c.blen(r.items[0]) == size,                          # exactly `size` bytes of data
                  r.items[1].z == c.start_index + 4 + size + pad,      # index moves past count, data and padding
                  (r.items[1].z - c.start_index) % 4 == 0,             # stays 4-aligned relative to the start
                  c.start_index + 4 + size <= c.blen(c.dgram))         # the data lies inside the datagram


def blob_refused(c):
    """on refusal: too short for the count, a negative count, or data running past the end"""
    size = blob_size(c)
    if size is None:
        return remaining(c) < 4
    return z3.Or(size < 0, c.start_index + 4 + size > c.blen(c.dgram))


contract(F, 'get_blob', props=('C18', 'C06'),
         params={'dgram': 'bytes', 'start_index': 'int'},
         requires=lambda c: c.start_index >= 0,
         raises={'OscTypeParseError': None},
         ensures=[('count-data-padding:index-and-length', blob_post)],
         on_raise=[('refused-only-when-short-negative-or-overrunning', blob_refused)],
         policies={'get_int': get_int_traced}, native=False,
         note='byte contents are abstract (no native replay: a counter-model does not say which bytes '
              'encode the count); get_int through its proved contract; the PADDING may lie beyond the end of the datagram '
              '(python-osc leniency, accepted by the statement: "sized correctly" is about the writer)')
