"""Denotation oracle for C01: maps an expression (source program or parsed SCgf
definition) to a canonical normal form over the reals.

Written from the property statement and the public SuperCollider references
(Opcodes.h numbering of the operator units, the help files of MulAdd, Sum3,
Sum4, DC, Control) -- not from sc3's optimiser.

Normal form
-----------
A value is a multivariate polynomial with exact rational coefficients

    Poly = { monomial : Fraction }      monomial = ((atom, exponent), ...) sorted

over *atoms*.  An atom stands for one real-valued signal the arithmetic cannot
look into:

    ('ctl', name)                         a control (function parameter)
    ('unit', class, rate, (in keys), o)   output o of a stateful/opaque unit
    ('div', key(num), key(den))           num/den with a non-constant den
    ('fn', 'u'|'b', opcode, (arg keys))   any other operator unit (abs, mod, pow...)

Polynomial equality decides equality modulo the commutative-ring identities;
that equivalence contains every identity the C01 statement lists (association
and commutation of sums, commutation of products, neutral and absorbing
constants, x-(-y)=x+y, Sum3/Sum4/MulAdd) and is only coarser (it also knows
distributivity), so two graphs the statement calls equal always get the same
normal form (no false alarm); a graph with a different normal form differs as a
real function of its atoms.

Division: x/c for a constant c!=0 is x*(1/c); 0/y is 0; otherwise the quotient
is an atom keyed by the normal forms of numerator and denominator after the
rational content of both has been pulled out ((2a)/(−b) = −2·(a/b)).
"""
from fractions import Fraction

# ---------------------------------------------------------------------------
# Server operator numbers (SuperCollider include/plugin_interface/Opcodes.h)

UNARY_OPCODES = {
    'neg': 0, 'not': 1, 'isNil': 2, 'notNil': 3, 'bitNot': 4, 'abs': 5,
    'asFloat': 6, 'asInt': 7, 'ceil': 8, 'floor': 9, 'frac': 10, 'sign': 11,
    'squared': 12, 'cubed': 13, 'sqrt': 14, 'exp': 15, 'recip': 16,
    'midicps': 17, 'cpsmidi': 18, 'midiratio': 19, 'ratiomidi': 20,
    'dbamp': 21, 'ampdb': 22, 'octcps': 23, 'cpsoct': 24, 'log': 25,
    'log2': 26, 'log10': 27, 'sin': 28, 'cos': 29, 'tan': 30, 'asin': 31,
    'acos': 32, 'atan': 33, 'sinh': 34, 'cosh': 35, 'tanh': 36, 'rand': 37,
    'rand2': 38, 'linrand': 39, 'bilinrand': 40, 'sum3rand': 41,
    'distort': 42, 'softclip': 43, 'coin': 44, 'digitValue': 45,
    'silence': 46, 'thru': 47, 'rectWindow': 48, 'hanWindow': 49,
    'welWindow': 50, 'triWindow': 51, 'ramp': 52, 'scurve': 53,
}

BINARY_OPCODES = {
    'add': 0, 'sub': 1, 'mul': 2, 'idiv': 3, 'fdiv': 4, 'mod': 5, 'eq': 6,
    'ne': 7, 'lt': 8, 'gt': 9, 'le': 10, 'ge': 11, 'min': 12, 'max': 13,
    'bitAnd': 14, 'bitOr': 15, 'bitXor': 16, 'lcm': 17, 'gcd': 18,
    'round': 19, 'roundUp': 20, 'trunc': 21, 'atan2': 22, 'hypot': 23,
    'hypotx': 24, 'pow': 25, 'shiftLeft': 26, 'shiftRight': 27,
    'unsignedShift': 28, 'fill': 29, 'ring1': 30, 'ring2': 31, 'ring3': 32,
    'ring4': 33, 'difsqr': 34, 'sumsqr': 35, 'sqrsum': 36, 'sqrdif': 37,
    'absdif': 38, 'thresh': 39, 'amclip': 40, 'scaleneg': 41, 'clip2': 42,
    'excess': 43, 'fold2': 44, 'wrap2': 45, 'firstArg': 46, 'rrand': 47,
    'exprand': 48,
}

OP_ADD, OP_SUB, OP_MUL, OP_FDIV = 0, 1, 2, 4
OP_NEG = 0

# rate numbers of the definition format
SCALAR, CONTROL, AUDIO, DEMAND = 0, 1, 2, 3
RATE_NUM = {'ir': 0, 'kr': 1, 'ar': 2, 'scalar': 0, 'control': 1, 'audio': 2}

ARITH_UNITS = ('BinaryOpUGen', 'UnaryOpUGen', 'MulAdd', 'Sum3', 'Sum4')


class DenError(Exception):
    """The expression has no denotation over the reals (division by zero) or
    the definition cannot be interpreted (dangling wire)."""


class DenTooLarge(DenError):
    """The normal form would be too large to compute (inconclusive, not a
    verdict)."""


MAX_PRODUCT_TERMS = 4000
MAX_NODE_TERMS = 300


# ---------------------------------------------------------------------------
# polynomials

def _skey(x):
    return repr(x)


def const(c):
    c = Fraction(c)
    return {(): c} if c else {}


ZERO = {}
ONE = {(): Fraction(1)}


def var(atom):
    return {((atom, 1),): Fraction(1)}


def is_const(p):
    return not p or (len(p) == 1 and () in p)


def const_value(p):
    """Fraction value of a constant polynomial (caller checks is_const)."""
    return p.get((), Fraction(0))


def add(p, q):
    r = dict(p)
    for m, c in q.items():
        v = r.get(m, 0) + c
        if v:
            r[m] = v
        else:
            r.pop(m, None)
    return r


def scale(p, k):
    k = Fraction(k)
    if not k:
        return {}
    return {m: c * k for m, c in p.items()}


def neg(p):
    return {m: -c for m, c in p.items()}


def sub(p, q):
    return add(p, neg(q))


def _mono_mul(m1, m2):
    if not m1:
        return m2
    if not m2:
        return m1
    d = {}
    for a, e in m1:
        d[a] = d.get(a, 0) + e
    for a, e in m2:
        d[a] = d.get(a, 0) + e
    return tuple(sorted(d.items(), key=_skey))


def mul(p, q):
    if len(p) * len(q) > MAX_PRODUCT_TERMS:
        raise DenTooLarge('product of %d x %d terms' % (len(p), len(q)))
    r = {}
    for m1, c1 in p.items():
        for m2, c2 in q.items():
            m = _mono_mul(m1, m2)
            v = r.get(m, 0) + c1 * c2
            if v:
                r[m] = v
            else:
                r.pop(m, None)
    return r


def key(p):
    """Canonical hashable form of a polynomial."""
    return tuple(sorted(p.items(), key=_skey))


def equal(p, q):
    return p == q


def _content(p):
    """(c, p/c) with c the coefficient of the first monomial in canonical
    order (a deterministic non-zero rational)."""
    k = key(p)
    c = k[0][1]
    return c, scale(p, 1 / c)


def div(p, q):
    if not q:
        raise DenError('division by zero')
    if is_const(q):
        return scale(p, 1 / const_value(q))
    if not p:
        return {}
    cp, pp = _content(p)
    cq, qq = _content(q)
    return scale(var(('div', key(pp), key(qq))), cp / cq)


def fn(kind, opcode, args):
    """Opaque operator unit: kind 'u' (unary) or 'b' (binary), server opcode."""
    return var(('fn', kind, int(opcode), tuple(key(a) for a in args)))


def unit_atom(cls, rate, inputs, out=0):
    return var(('unit', cls, int(rate), tuple(key(a) for a in inputs), int(out)))


def ctl(name):
    return var(('ctl', name))


def size(p):
    return sum(1 + len(m) for m in p)


def show(p):
    """Readable rendering (for violation reports)."""
    if not p:
        return '0'

    def atom_s(a):
        if a[0] == 'ctl':
            return 'ctl:%s' % a[1]
        if a[0] == 'unit':
            ins = ','.join(show(dict(k)) for k in a[3])
            return '%s.%s(%s)%s' % (a[1], ('ir', 'kr', 'ar', 'dr')[a[2]], ins,
                                    '[%d]' % a[4] if a[4] else '')
        if a[0] == 'div':
            return '((%s)/(%s))' % (show(dict(a[1])), show(dict(a[2])))
        if a[0] == 'fn':
            return '%sop%d(%s)' % (a[1], a[2],
                                   ','.join(show(dict(k)) for k in a[3]))
        return repr(a)
    parts = []
    for m, c in key(p):
        f = '*'.join(atom_s(a) + ('^%d' % e if e != 1 else '') for a, e in m)
        if not f:
            parts.append(str(c))
        elif c == 1:
            parts.append(f)
        else:
            parts.append('%s*%s' % (c, f))
    return ' + '.join(parts)


# ---------------------------------------------------------------------------
# denotation of a *source program* (see vf/specs/graphgen.py for the format)

def den_source(prog):
    """-> (vals, outs) where vals[i] is the normal form of node i and
    outs = [(out_index, [normal forms of the channels])].
    Raises DenError when the program is not well formed over the reals."""
    from vf.specs import graphgen as gg
    vals = []
    for i, nd in enumerate(prog['nodes']):
        k = nd[0]
        if k == 'const':
            v = const(Fraction(nd[1]))
        elif k == 'ctl':
            v = ctl(prog['params'][nd[1]][0])
        elif k == 'osc':
            cls, rate, tag = nd[1], nd[2], nd[3]
            ins = [const(Fraction(x)) for x in gg.leaf_inputs(cls, tag)]
            v = unit_atom(cls, RATE_NUM[rate], ins)
        elif k == 'add':
            v = add(vals[nd[1]], vals[nd[2]])
        elif k == 'sub':
            v = sub(vals[nd[1]], vals[nd[2]])
        elif k == 'mul':
            v = mul(vals[nd[1]], vals[nd[2]])
        elif k == 'div':
            v = div(vals[nd[1]], vals[nd[2]])
        elif k == 'neg':
            v = neg(vals[nd[1]])
        elif k == 'madd':
            v = add(mul(vals[nd[1]], vals[nd[2]]), vals[nd[3]])
        elif k == 'sum':
            v = {}
            for j in nd[1]:
                v = add(v, vals[j])
        elif k in gg.OPAQUE_BIN:
            a, b = vals[nd[1]], vals[nd[2]]
            if is_const(a) and is_const(b):
                raise DenError('operator %s on two constants is folded by '
                               'Python, not part of the graph' % k)
            v = fn('b', BINARY_OPCODES[k], [a, b])
        elif k in gg.OPAQUE_UN:
            a = vals[nd[1]]
            if is_const(a):
                raise DenError('operator %s on a constant' % k)
            v = fn('u', UNARY_OPCODES[k], [a])
        else:
            raise ValueError('unknown node kind %r' % (k,))
        if len(v) > MAX_NODE_TERMS:
            raise DenTooLarge('node %d has %d terms' % (i, len(v)))
        vals.append(v)
    outs = []
    for oi, o in enumerate(prog['outs']):
        outs.append((oi, [vals[j] for j in o['chans']]))
    return vals, outs


# ---------------------------------------------------------------------------
# denotation of a parsed SCgf definition

# units whose single output *is* (over the reals) its first input
_TRANSPARENT = ('DC', 'K2A', 'A2K')
_CONTROL_UNITS = ('Control', 'AudioControl', 'TrigControl', 'LagControl')


def den_def(d):
    """-> table[(unit index, output index)] = normal form, for every unit
    output of a parsed definition (vf.specs.scgf.Def).  Control outputs map to
    the parameter name covering that slot; units without a known arithmetic
    meaning become atoms keyed by class, rate and the normal forms of their
    inputs."""
    slot_name = {}
    for nm, ix in d.param_names:
        slot_name[ix] = nm
    table = {}

    def wire(u, w):
        a, b = w
        if a == -1:
            if not (0 <= b < len(d.constants)):
                raise DenError('unit %d: constant %d missing' % (u.index, b))
            c = d.constants[b]
            if c != c or c in (float('inf'), float('-inf')):
                raise DenError('non-finite constant')
            return const(Fraction(c))
        if (a, b) not in table:
            raise DenError('unit %d %s: wire (%d,%d) does not refer to an '
                           'earlier output' % (u.index, u.name, a, b))
        return table[(a, b)]

    for u in d.ugens:
        ins = [wire(u, w) for w in u.inputs]
        n = u.name
        if n == 'BinaryOpUGen' and len(ins) == 2:
            s = u.special
            if s == OP_ADD:
                v = add(ins[0], ins[1])
            elif s == OP_SUB:
                v = sub(ins[0], ins[1])
            elif s == OP_MUL:
                v = mul(ins[0], ins[1])
            elif s == OP_FDIV:
                v = div(ins[0], ins[1])
            else:
                v = fn('b', s, ins)
            outs = [v]
        elif n == 'UnaryOpUGen' and len(ins) == 1:
            if u.special == OP_NEG:
                v = neg(ins[0])
            else:
                v = fn('u', u.special, ins)
            outs = [v]
        elif n == 'MulAdd' and len(ins) == 3:
            outs = [add(mul(ins[0], ins[1]), ins[2])]
        elif n == 'Sum3' and len(ins) == 3:
            outs = [add(add(ins[0], ins[1]), ins[2])]
        elif n == 'Sum4' and len(ins) == 4:
            outs = [add(add(ins[0], ins[1]), add(ins[2], ins[3]))]
        elif n in _TRANSPARENT and len(ins) == 1 and len(u.outputs) == 1:
            outs = [ins[0]]
        elif n in _CONTROL_UNITS:
            outs = []
            for o in range(len(u.outputs)):
                slot = u.special + o
                if slot in slot_name:
                    outs.append(ctl(slot_name[slot]))
                else:
                    outs.append(var(('ctlslot', slot)))
        else:
            outs = [unit_atom(n, u.rate, ins, o) for o in range(len(u.outputs))]
        if len(outs) != len(u.outputs):
            raise DenError('unit %d %s: %d outputs declared, %d expected'
                           % (u.index, n, len(u.outputs), len(outs)))
        for o, v in enumerate(outs):
            table[(u.index, o)] = v
    return table


def input_forms(d, table, u):
    """Normal forms of the inputs of unit u of definition d."""
    r = []
    for (a, b) in u.inputs:
        if a == -1:
            r.append(const(Fraction(d.constants[b])))
        else:
            r.append(table[(a, b)])
    return r
