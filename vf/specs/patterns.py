"""Compositional list semantics of sc3 / SuperCollider patterns (oracle of C13).

Pattern expressions are *data*::

    ('Pseq', [1, ('Pseries', 0, 1, 3)], 2, 0)        # Pseq(list, repeats, offset)

``den(expr, limit)`` returns the list of the first ``limit`` values the pattern
denotes; ``build(expr)`` constructs the real sc3 pattern object from the same
data.  ``den`` is written from the documented meaning of each class (the
SuperCollider pattern help files; sc3 keeps the classes but renames/reorders a
few: Pfin->Plen, Pshuf->Pshuffle, and puts the source pattern first in filter
patterns) as lazy Python generators over plain values.  It does not use sc3.

Argument order of the *data* is the documented (SuperCollider) one:

    ('Pseq', list, repeats, offset)      ('Pser', list, repeats, offset)
    ('Pn', pattern, repeats)             ('Plen', n, pattern)        (= Pfin)
    ('Pdrop', n, pattern)                ('Pstutter', n, pattern)
    ('Pclump', n, pattern)               ('Pflatten', n, pattern)
    ('Pdiff', pattern)                   ('Pconst', sum, pattern, tolerance)
    ('Pswitch', list, which)             ('Pswitch1', list, which)
    ('Place', list, repeats, offset)     ('Ptuple', list, repeats)
    ('Pslide', list, repeats, len, step, start, wrap)
    ('Pseries', start, step, length)     ('Pgeom', start, grow, length)
    ('Pcollect', fname, pattern)  ('Pselect', fname, pattern)  ('Preject', ...)
    ('Pif', condition, iftrue, iffalse)  ('Pwrap', pattern, lo, hi)
    ('Punop', op, a)  ('Pbinop', op, a, b)  ('Pnarop', op, a, arg, ...)
    ('Pseed', seed, pattern)             random leaves, see below
    ('Pwhite', lo, hi, length) ('Prand', list, repeats) ('Pxrand', list, repeats)
    ('Pshuffle', list, repeats) ('Pbrown', lo, hi, step, length)

Two positions exist for a sub-expression (as in the documentation):

* an *item* position (elements of the list of a list pattern, the source of
  Pn): a pattern is embedded in place, i.e. contributes all of its values;
  anything else contributes itself once;
* a *parameter* position (step, n, lo, hi, which, operands, the source of a
  filter pattern): a pattern is a stream that may end, anything else is the
  infinite stream of itself.

Corners the documentation leaves open raise ``Unspecified`` (the driver then
leaves that expression out and counts it); they are listed in ``OPEN``.
Random patterns are never replayed: ``den`` asks the ``oracle`` callable for
the values of ``Pseed(Pn(seed, 1), pattern)`` (observed once on the real
pattern by the driver: determinism makes every later embedding equal to it) and
only composes them; ``support(expr, values)`` states what the values of a
random leaf must look like.
"""

import itertools
import math
import operator

INF = float('inf')

# -- corners left open by the documentation --------------------------------

OPEN = [
    'Pseq/Pser/Place offset outside 0..len(list)-1 (wrapping is an '
    'implementation detail of sclang, not documented)',
    'Pstutter/Pclump with a negative n; Pclump with n = 0 (stream of empty '
    'lists or nothing)',
    'Pflatten on values nested deeper than one level or with n = 0 (sclang '
    'flattens the *value* by n levels and then embeds it, i.e. n+1 levels of '
    'the stream; sc3 removes n levels of the stream; both agree on flat '
    'lists with n >= 1), and on tuples (Ptuple output)',
    'Pconst when a partial sum falls closer than 2*tolerance below the '
    'requested sum (round vs roundUp, float error of the rounding itself)',
    'Pseries/Pgeom whose step/grow stream ends before `length` values (one '
    'value more or less depending on when the step is pulled)',
    'Pswitch/Pswitch1 index outside the list',
    'Pwrap/clip/wrap with mixed int/float operands or lo >= hi (the int and '
    'float versions of wrap differ: [lo,hi] vs [lo,hi); that is C15)',
    'patterns that loop forever without yielding (Pn(empty, inf), Pselect '
    'that never matches an infinite source, Pstutter(0, infinite))',
    'random patterns outside Pseed; operators between a pattern and an event',
    'wrap/clip of integers beyond 2**53 (float precision of the numeric '
    'builtins is C15)',
]


class Unspecified(Exception):
    """The documentation does not fix the meaning of this expression."""


class NonProductive(Unspecified):
    """The pattern would loop forever without yielding a value."""


IDLE_LIMIT = 4096      # consecutive source items consumed without an output


# -- registered functions / operators (shared with build) --------------------

FUNCS = {
    'inc': lambda x: x + 1,
    'dbl': lambda x: x * 2,
    'sqr': lambda x: x * x,
    'even': lambda x: x % 2 == 0,
    'pos': lambda x: x > 0,
    'small': lambda x: abs(x) < 3,
}

UNOPS = {'neg': operator.neg, 'abs': abs}


BIG = 2 ** 53


def _exact(*xs):
    # sc3's numeric functions go through floats; integers that a double
    # cannot hold are C15's business, not the patterns'
    for x in xs:
        if isinstance(x, (int, float)) and abs(x) > BIG:
            raise Unspecified('magnitude beyond 2**53')


def _clip(x, lo, hi):
    _exact(x, lo, hi)
    if type(x) is not type(lo) or type(x) is not type(hi):
        raise Unspecified('clip with mixed operand types')
    if lo > hi:
        raise Unspecified('clip with lo > hi')
    return lo if x < lo else hi if x > hi else x


def _wrap(x, lo, hi):
    # sclang: Integer receiver and bounds -> the hi bound is included;
    # Float -> half-open [lo, hi).
    _exact(x, lo, hi)
    kinds = {type(x), type(lo), type(hi)}
    if not lo < hi:
        raise Unspecified('wrap with lo >= hi')
    if kinds == {int}:
        return lo + (x - lo) % (hi - lo + 1)
    if kinds == {float}:
        return lo + (x - lo) % (hi - lo)
    raise Unspecified('wrap with mixed int/float operands')


def _min(a, b):
    return a if a < b else b


def _max(a, b):
    return a if a > b else b


BINOPS = {
    'add': operator.add, 'sub': operator.sub, 'mul': operator.mul,
    'lt': operator.lt, 'ge': operator.ge, 'le': operator.le, 'gt': operator.gt,
    'min': _min, 'max': _max,
}

NAROPS = {'clip': _clip, 'wrap': _wrap}

RANDOM = ('Pwhite', 'Prand', 'Pxrand', 'Pshuffle', 'Pbrown')


def is_pat(e):
    return isinstance(e, tuple) and len(e) > 0 and isinstance(e[0], str)


def _count(n):
    if n == INF:
        return itertools.count()
    if isinstance(n, bool) or not isinstance(n, int) or n < 0:
        raise Unspecified('count %r' % (n,))
    return range(n)


def _nat(x, what, minimum=0):
    if isinstance(x, bool) or not isinstance(x, int) or x < minimum:
        raise Unspecified('%s = %r' % (what, x))
    return x


class _Den:
    def __init__(self, oracle=None):
        self.oracle = oracle

    # item position
    def embed(self, e):
        if is_pat(e):
            yield from getattr(self, '_' + e[0])(*e[1:])
        else:
            yield e

    # parameter position
    def stream(self, e):
        if is_pat(e):
            return getattr(self, '_' + e[0])(*e[1:])
        return itertools.repeat(e)

    # ---- list patterns ---------------------------------------------------

    @staticmethod
    def _list(lst, offset=0):
        if not isinstance(lst, list) or len(lst) == 0:
            raise Unspecified('empty or non-list list argument')
        if isinstance(offset, bool) or not isinstance(offset, int) \
                or not 0 <= offset < len(lst):
            raise Unspecified('offset outside the list')
        return lst

    def _Pseq(self, lst, repeats=1, offset=0):
        lst = self._list(lst, offset)
        size = len(lst)
        for _ in _count(repeats):
            produced = False
            for i in range(size):
                for v in self.embed(lst[(i + offset) % size]):
                    produced = True
                    yield v
            if repeats == INF and not produced:
                raise NonProductive('Pseq')

    def _Pser(self, lst, repeats=1, offset=0):
        lst = self._list(lst, offset)
        size = len(lst)
        idle = 0
        for i in _count(repeats):
            produced = False
            for v in self.embed(lst[(i + offset) % size]):
                produced = True
                yield v
            idle = 0 if produced else idle + 1
            if idle > IDLE_LIMIT:
                raise NonProductive('Pser')

    def _Place(self, lst, repeats=1, offset=0):
        lst = self._list(lst, offset)
        size = len(lst)
        for j in _count(repeats):
            produced = False
            for i in range(size):
                item = lst[(i + offset) % size]
                if isinstance(item, list):
                    if not item:
                        raise Unspecified('empty sub-list in Place')
                    item = item[j % len(item)]
                for v in self.embed(item):
                    produced = True
                    yield v
            if repeats == INF and not produced:
                # every pass may pick other sub-list elements; a pass without
                # output does not prove that all are silent, but is a corner
                raise NonProductive('Place')

    def _Ptuple(self, lst, repeats=1):
        lst = self._list(lst)
        for _ in _count(repeats):
            streams = [self.stream(x) for x in lst]
            produced = False
            while True:
                vals = []
                for s in streams:
                    try:
                        vals.append(next(s))
                    except StopIteration:
                        vals = None
                        break
                if vals is None:
                    break
                produced = True
                yield tuple(vals)
            if repeats == INF and not produced:
                raise NonProductive('Ptuple')

    def _index(self, lst, i):
        if isinstance(i, bool) or not isinstance(i, int) \
                or not 0 <= i < len(lst):
            raise Unspecified('index %r outside the list' % (i,))
        return lst[i]

    def _Pswitch(self, lst, which=0):
        lst = self._list(lst)
        idle = 0
        for i in self.stream(which):
            produced = False
            for v in self.embed(self._index(lst, i)):
                produced = True
                yield v
            idle = 0 if produced else idle + 1
            if idle > IDLE_LIMIT:
                raise NonProductive('Pswitch')

    def _Pswitch1(self, lst, which=0):
        lst = self._list(lst)
        streams = [self.stream(x) for x in lst]
        for i in self.stream(which):
            self._index(lst, i)
            try:
                yield next(streams[i])
            except StopIteration:
                return

    def _Pslide(self, lst, repeats=1, length=3, step=1, start=0, wrap=True):
        lst = self._list(lst)
        size = len(lst)
        if isinstance(start, bool) or not isinstance(start, int):
            raise Unspecified('Pslide start')
        pos = start
        lens = self.stream(length)
        steps = self.stream(step)
        idle = 0
        for _ in _count(repeats):
            try:
                n = next(lens)
            except StopIteration:
                return
            _nat(n, 'Pslide len')
            produced = False
            for j in range(n):
                idx = pos + j
                if wrap:
                    idx %= size
                elif not 0 <= idx < size:
                    return      # "the pattern stops if it goes outside the list bounds"
                for v in self.embed(lst[idx]):
                    produced = True
                    yield v
            idle = 0 if produced else idle + 1
            if idle > IDLE_LIMIT:
                raise NonProductive('Pslide')
            try:
                s = next(steps)
            except StopIteration:
                return
            if isinstance(s, bool) or not isinstance(s, int):
                raise Unspecified('Pslide step')
            pos += s

    # ---- filter patterns ---------------------------------------------------

    def _Pn(self, pattern, repeats=INF):
        for _ in _count(repeats):
            produced = False
            for v in self.embed(pattern):
                produced = True
                yield v
            if repeats == INF and not produced:
                raise NonProductive('Pn')

    def _Plen(self, n, pattern):
        _nat(n, 'Plen n')
        return itertools.islice(self.stream(pattern), n)

    def _Pdrop(self, n, pattern):
        _nat(n, 'Pdrop n')
        return itertools.islice(self.stream(pattern), n, None)

    def _Pstutter(self, n, pattern):
        ns = self.stream(n)
        idle = 0
        for v in self.stream(pattern):
            try:
                k = next(ns)
            except StopIteration:
                return
            _nat(k, 'Pstutter n')
            # reading taken for n = 0: "repeat each element n times" -> the
            # element is consumed and contributes nothing
            for _ in range(k):
                yield v
            idle = 0 if k else idle + 1
            if idle > IDLE_LIMIT:
                raise NonProductive('Pstutter')

    def _Pclump(self, n, pattern):
        ns = self.stream(n)
        src = self.stream(pattern)
        while True:
            try:
                k = next(ns)
            except StopIteration:
                return
            _nat(k, 'Pclump n', 1)
            group = list(itertools.islice(src, k))
            if group:
                yield group
            if len(group) < k:
                return

    def _Pflatten(self, n, pattern):
        ns = self.stream(n)
        for v in self.stream(pattern):
            try:
                k = next(ns)
            except StopIteration:
                return
            _nat(k, 'Pflatten n', 1)
            if isinstance(v, tuple):
                raise Unspecified('Pflatten on a tuple')
            if isinstance(v, list):
                if any(isinstance(x, (list, tuple)) for x in v):
                    raise Unspecified('Pflatten on nested lists')
                yield from v
            else:
                yield v

    def _Pdiff(self, pattern):
        src = self.stream(pattern)
        try:
            prev = next(src)
        except StopIteration:
            return
        for v in src:
            yield v - prev
            prev = v

    def _Pconst(self, total, pattern, tolerance=0.001):
        from fractions import Fraction

        def exact(x):
            # decimal value of a literal: 0.1 means 1/10 (the tolerance exists to
            # absorb the binary rounding of such sums)
            return Fraction(repr(x)) if isinstance(x, float) else Fraction(x)
        acc = 0
        acc_x = Fraction(0)
        total_x = exact(total)
        for v in self.stream(pattern):
            nxt = acc + v
            nxt_x = acc_x + exact(v) if isinstance(v, (int, float)) and not isinstance(v, bool) else None
            if nxt >= total or (nxt_x is not None and nxt_x >= total_x):
                # reaching the sum exactly (in exact arithmetic) ends the stream
                # there, whatever the binary rounding of the partial sums
                yield total - acc
                return
            if nxt > total - 2 * tolerance:
                raise Unspecified('Pconst partial sum inside the tolerance band')
            acc = nxt
            acc_x = nxt_x if nxt_x is not None else acc_x
            yield v
        # reading taken: the sum is constrained to `total` also when the
        # source ends early (class summary "constrain the sum of a value
        # pattern"; sclang does the same)
        yield total - acc

    def _Pcollect(self, fname, pattern):
        f = FUNCS[fname]
        return (f(v) for v in self.stream(pattern))

    def _filter(self, fname, pattern, keep):
        f = FUNCS[fname]
        idle = 0
        for v in self.stream(pattern):
            if bool(f(v)) is keep:
                idle = 0
                yield v
            else:
                idle += 1
                if idle > IDLE_LIMIT:
                    raise NonProductive('Pselect/Preject')

    def _Pselect(self, fname, pattern):
        return self._filter(fname, pattern, True)

    def _Preject(self, fname, pattern):
        return self._filter(fname, pattern, False)

    def _Pwrap(self, pattern, lo, hi):
        return (_wrap(v, a, b) for v, a, b in
                zip(self.stream(pattern), self.stream(lo), self.stream(hi)))

    # ---- value / function patterns ---------------------------------------

    def _series(self, start, step, length, op, name):
        if is_pat(start) or isinstance(start, (list, tuple)):
            raise Unspecified(name + ' start must be a plain number')
        cur = start
        steps = self.stream(step)
        for i in _count(length):
            try:
                s = next(steps)
            except StopIteration:
                raise Unspecified(
                    name + ' step stream ends before length') from None
            yield cur
            cur = op(cur, s)

    def _Pseries(self, start=0, step=1, length=INF):
        return self._series(start, step, length, operator.add, 'Pseries')

    def _Pgeom(self, start=1, grow=1, length=INF):
        return self._series(start, grow, length, operator.mul, 'Pgeom')

    def _Pif(self, condition, iftrue, iffalse):
        t = self.stream(iftrue)
        f = self.stream(iffalse)
        for c in self.stream(condition):
            try:
                yield next(t if c else f)
            except StopIteration:
                return

    # ---- operators: element-wise, end with the shortest operand ----------

    def _Punop(self, op, a):
        f = UNOPS[op]
        return (f(x) for x in self.stream(a))

    def _Pbinop(self, op, a, b):
        if not (is_pat(a) or is_pat(b)):
            raise Unspecified('operator without a pattern operand')
        f = BINOPS[op]
        return (f(x, y) for x, y in zip(self.stream(a), self.stream(b)))

    def _Pnarop(self, op, a, *args):
        f = NAROPS[op]
        return (f(*xs) for xs in zip(self.stream(a),
                                     *[self.stream(x) for x in args]))

    # ---- random ------------------------------------------------------------

    def _Pseed(self, seed, pattern):
        if self.oracle is None:
            raise Unspecified('Pseed without an oracle')
        idle = 0
        for s in self.stream(seed):
            values = self.oracle(s, pattern)
            yield from values
            idle = 0 if values else idle + 1
            if idle > 2:
                raise NonProductive('Pseed')

    def _random(self, *a):
        raise Unspecified('random pattern outside Pseed')

    _Pwhite = _Prand = _Pxrand = _Pshuffle = _Pbrown = _random


def den(expr, limit=64, oracle=None):
    """First `limit` values denoted by `expr` (a list).  `oracle(seed, rexpr)`
    must return the (finite) list of values of Pseed(Pn(seed, 1), rexpr)."""
    if not is_pat(expr):
        raise Unspecified('not a pattern expression')
    return list(itertools.islice(_Den(oracle).embed(expr), limit))


# -- what a random leaf may produce ------------------------------------------

def _blocks(values, alternatives, count):
    """Can `values` be split into exactly `count` consecutive blocks, each one
    of `alternatives` (lists)?  Returns the list of chosen alternative indices
    of one such split, or None."""
    memo = {}

    def go(pos, k):
        if k == count:
            return [] if pos == len(values) else None
        key = (pos, k)
        if key in memo:
            return memo[key]
        res = None
        for i, alt in enumerate(alternatives):
            if values[pos:pos + len(alt)] == alt:
                rest = go(pos + len(alt), k + 1)
                if rest is not None:
                    res = [i] + rest
                    break
        memo[key] = res
        return res

    return go(0, 0)


def support(rexpr, values):
    """None if `values` (all values of the finite random leaf `rexpr`, a list)
    is a possible outcome by the documentation, else a reason (str).
    Raises Unspecified for leaves it does not cover."""
    name = rexpr[0]
    if name == 'Pwhite' or name == 'Pbrown':
        lo, hi = rexpr[1], rexpr[2]
        length = rexpr[-1]
        if is_pat(lo) or is_pat(hi) or length == INF:
            raise Unspecified('random leaf with stream bounds/inf length')
        if len(values) != length:
            return 'length %d != %d' % (len(values), length)
        for v in values:
            if isinstance(v, bool) or not isinstance(v, (int, float)):
                return 'non-numeric value %r' % (v,)
            if not lo <= v <= hi:
                return 'value %r outside [%r, %r]' % (v, lo, hi)
        if name == 'Pbrown':
            step = rexpr[3]
            if is_pat(step):
                raise Unspecified('Pbrown with stream step')
            for a, b in zip(values, values[1:]):
                if abs(b - a) > abs(step) * (1 + 1e-9) + 1e-12:
                    return 'step %r -> %r larger than %r' % (a, b, step)
        return None
    if name in ('Prand', 'Pxrand', 'Pshuffle'):
        lst, repeats = rexpr[1], rexpr[2]
        if repeats == INF:
            raise Unspecified('random leaf with inf repeats')
        alts = []
        for item in lst:
            alts.append(den(item, 4096) if is_pat(item) else [item])
        if any(alts.count(a) > 1 for a in alts) or any(not a for a in alts):
            raise Unspecified('random list with equal or empty items')
        if name == 'Pshuffle':
            idx = _blocks(values, alts, len(lst) * repeats)
            if idx is None:
                return 'not a sequence of %d list items' % (len(lst) * repeats)
            first = idx[:len(lst)]
            if sorted(first) != list(range(len(lst))):
                return 'first cycle %r is not a permutation' % (first,)
            for k in range(repeats):
                if idx[k * len(lst):(k + 1) * len(lst)] != first:
                    return 'cycle %d differs from the first (order must be constant)' % k
            return None
        idx = _blocks(values, alts, repeats)
        if idx is None:
            return 'not a sequence of %d list items' % repeats
        if name == 'Pxrand' and len(lst) > 1:
            # block splits are unique when no item value-list is a prefix
            # combination of others; the driver uses such lists only
            for a, b in zip(idx, idx[1:]):
                if a == b:
                    return 'item %d chosen twice in a row' % a
        return None
    raise Unspecified('no support rule for ' + name)


# -- equality of observed and denoted sequences -----------------------------

def same(a, b):
    """Structural equality; list == tuple (Ptuple/Pclump container type is not
    documented), ints exact, floats to 1e-9 relative."""
    if isinstance(a, (list, tuple)) and isinstance(b, (list, tuple)):
        return len(a) == len(b) and all(same(x, y) for x, y in zip(a, b))
    if isinstance(a, (list, tuple)) or isinstance(b, (list, tuple)):
        return False
    if isinstance(a, bool) or isinstance(b, bool):
        return isinstance(a, bool) and isinstance(b, bool) and a == b
    if isinstance(a, int) and isinstance(b, int):
        return a == b
    if isinstance(a, (int, float)) and isinstance(b, (int, float)):
        if a == b:
            return True
        return math.isclose(a, b, rel_tol=1e-9, abs_tol=1e-12)
    return type(a) is type(b) and a == b


# -- the real thing ------------------------------------------------------------

def build(expr):
    """Construct the real sc3 pattern for `expr` (sc3 must be initialised)."""
    from sc3.seq.patterns import listpatterns as lp
    from sc3.seq.patterns import filterpatterns as fp
    from sc3.seq.patterns import valuepatterns as vp
    from sc3.seq.patterns import funcpatterns as up

    def b(e):
        if is_pat(e):
            return make(e)
        if isinstance(e, list):
            return [b(x) for x in e]
        return e

    def make(e):
        name, a = e[0], e[1:]
        if name in ('Pseq', 'Pser', 'Place'):
            return getattr(lp, name)(b(a[0]), a[1], a[2])
        if name in ('Ptuple', 'Prand', 'Pxrand', 'Pshuffle'):
            return getattr(lp, name)(b(a[0]), a[1])
        if name in ('Pswitch', 'Pswitch1'):
            return getattr(lp, name)(b(a[0]), b(a[1]))
        if name == 'Pslide':
            lst, repeats, length, step, start, wrap = a
            return lp.Pslide(b(lst), b(length), b(step), start, wrap, repeats)
        if name == 'Pn':
            return fp.Pn(b(a[0]), a[1])
        if name in ('Plen', 'Pdrop'):
            return getattr(fp, name)(b(a[1]), a[0])
        if name in ('Pstutter', 'Pclump', 'Pflatten'):
            return getattr(fp, name)(b(a[1]), b(a[0]))
        if name == 'Pdiff':
            return fp.Pdiff(b(a[0]))
        if name == 'Pconst':
            if len(a) > 2:
                return fp.Pconst(b(a[1]), a[0], a[2])
            return fp.Pconst(b(a[1]), a[0])
        if name in ('Pcollect', 'Pselect', 'Preject'):
            return getattr(fp, name)(FUNCS[a[0]], b(a[1]))
        if name == 'Pwrap':
            return fp.Pwrap(b(a[0]), b(a[1]), b(a[2]))
        if name == 'Pseed':
            return fp.Pseed(b(a[0]), b(a[1]))
        if name in ('Pseries', 'Pgeom'):
            return getattr(vp, name)(a[0], b(a[1]), a[2])
        if name == 'Pwhite':
            return vp.Pwhite(b(a[0]), b(a[1]), a[2])
        if name == 'Pbrown':
            return vp.Pbrown(b(a[0]), b(a[1]), b(a[2]), a[3])
        if name == 'Pif':
            return up.Pif(b(a[0]), b(a[1]), b(a[2]))
        if name == 'Punop':
            x = b(a[1])
            return -x if a[0] == 'neg' else abs(x)
        if name == 'Pbinop':
            x, y = b(a[1]), b(a[2])
            op = a[0]
            if op in ('min', 'max'):
                if is_pat(a[1]):
                    return getattr(x, op)(y)
                from sc3.base import builtins as bi
                return getattr(bi, op)(x, y)
            return getattr(operator, op)(x, y)
        if name == 'Pnarop':
            x = b(a[1])
            return getattr(x, a[0])(*[b(y) for y in a[2:]])
        raise ValueError('unknown pattern %r' % (name,))

    return make(expr)
