"""python3-vt -m vf.mutprobe [stmt|loops|harmless]: how much of a function do its contracts pin down -
and do they stay quiet on rewrites that change nothing?

For every function of /repo/sc3 under a pyvc contract, small changes are applied one at a time to a private
scratch copy (outside /repo and /verif, removed at the end) and the function's contracts are re-run on it:

  stmt    every simple statement (call, assignment, augmented assignment, del) replaced by `pass`
  loops   every `for`/`while` under a loop contract: `break` appended to the body; `for x in xs` over xs[1:];
          `range(n)` over range(n - 1); `enumerate(xs)` over xs[:-1]
  harmless  behaviour-preserving rewrites: each local variable renamed throughout its function; the value of
          each simple assignment taken through a fresh temporary; if/else exchanged under a negated test; two adjacent
          call-free assignments to different locals exchanged.  Here the question is the opposite one: a
          VIOLATION would be a false alarm (undecided - function out of the subset, contract names a local that
          no longer exists - is allowed and counted)

A change is `caught` when an obligation stops discharging, `oos` when the function leaves the provable subset
(reported as undecided by the checks; the bounded drivers decide), `SURVIVED` when every obligation still
discharges.  Survivors are either equivalent changes (dead initialisations, fast paths, logging) or places where
the contract says nothing - the list is what the contracts were strengthened from (DESIGN 0.7).  Writes
mutprobe_<mode>.json.  Not part of any check; takes ~10 min on 12 cores."""
import ast
import importlib
import json
import multiprocessing as mp
import os
import shutil
import subprocess
import sys
import tempfile

VERIF = os.path.dirname(os.path.dirname(os.path.abspath(__file__)))
sys.path.insert(0, VERIF)
from vf import props                                   # noqa: E402
from vf.pyvc.spec import REGISTRY                      # noqa: E402

RUNNER = ("import sys, json\nfrom vf.pyvc import api\n"
          "r = api.verify(sys.argv[1], [sys.argv[2]], 'quick', 0, only=sys.argv[3])\n"
          "red = [x['name'] for x in r['results'] if x['result'] != 'unsat']\n"
          "print(json.dumps({'red': red[:3], 'oos': len(r['out_of_subset']), 'n': r['obligations'], 'viol': [v['obligation'] for v in r['violations']][:3],\n"
          "                  'err': [e[:80] for e in r['errors'] if 'required' not in e][:2]}))\n")


def find_fn(tree, qual):
    setter = qual.endswith('@setter')
    parts = qual.replace('@setter', '').split('.')
    node = tree
    for pi, part in enumerate(parts):
        nxt = [n for n in ast.iter_child_nodes(node)
               if isinstance(n, (ast.ClassDef, ast.FunctionDef)) and n.name == part]
        if not nxt:
            return None
        if pi == len(parts) - 1 and isinstance(node, ast.ClassDef):
            cand = [n for n in nxt if isinstance(n, ast.FunctionDef) and
                    any(isinstance(d, ast.Attribute) and d.attr == 'setter' for d in n.decorator_list) == setter]
            node = cand[-1] if cand else nxt[-1]
        else:
            node = nxt[0]
    return node


def targets():
    """(property, contract modules that speak about the function, file, qualname[, has loop contract])"""
    out, seen = [], set()
    texts = {}
    for pid, p in sorted(props.PROPS.items()):
        for cm in p.get('contracts', []):
            importlib.import_module('vf.contracts.' + cm)
            texts[(pid, cm)] = open(os.path.join(VERIF, 'vf', 'contracts', cm + '.py')).read()
    for key, c in list(REGISTRY.items()):
        f, qual = key.split('::')[0], key.split('::')[1].split('#')[0]
        if not os.path.exists(os.path.join('/repo', f)):
            continue
        for pid in c.props:
            if (pid, f, qual) in seen or pid not in props.PROPS:
                continue
            seen.add((pid, f, qual))
            qq = qual.replace('@setter', '')
            mine = [cm for (p_, cm), t in texts.items() if p_ == pid and ("'%s'" % qq in t or "'%s@setter'" % qq in t)]
            if not mine:
                mine = [cm for (p_, cm), t in texts.items()
                        if p_ == pid and qq.split('.')[-1] in t and qq.split('.')[0] in t]
            if mine:
                out.append((pid, mine, f, qual, bool(getattr(c, 'loops', None))))
    return out


def stmt_mutants(src, fn):
    lines = src.split('\n')
    for n in ast.walk(fn):
        if not isinstance(n, (ast.Expr, ast.Assign, ast.AugAssign, ast.AnnAssign, ast.Delete)):
            continue
        if isinstance(n, ast.Expr) and isinstance(n.value, ast.Constant):
            continue
        seg = ast.get_source_segment(src, n) or ''
        if seg.startswith('_logger.'):
            continue
        first = lines[n.lineno - 1]
        head = first[:n.col_offset] if first[:n.col_offset].strip() else ' ' * n.col_offset
        yield n.lineno, 'delete: ' + seg.split('\n')[0][:70], lines[:n.lineno - 1] + [head + 'pass'] + lines[n.end_lineno:]


def loop_mutants(src, fn):
    lines = src.split('\n')
    for lo in sorted([n for n in ast.walk(fn) if isinstance(n, (ast.For, ast.While))], key=lambda n: n.lineno):
        last, ind = lo.body[-1], ' ' * lo.body[0].col_offset
        yield lo.lineno, 'break appended', lines[:last.end_lineno] + [ind + 'break'] + lines[last.end_lineno:]
        if not isinstance(lo, ast.For):
            continue
        it = lo.iter
        call = it.func.id if isinstance(it, ast.Call) and isinstance(it.func, ast.Name) else None
        if call == 'range':
            a = it.args[1] if len(it.args) > 1 else it.args[0]
            wrap, tgt, what = ('(%s) - 1', a, 'range stop - 1')
        elif call == 'enumerate':
            wrap, tgt, what = ('list(%s)[:-1]', it.args[0], 'enumerate without the last')
        elif call in ('reversed', 'zip'):
            continue
        else:
            wrap, tgt, what = ('list(%s)[1:]', it, 'without the first')
        if tgt.lineno != tgt.end_lineno:
            continue
        L = lines[tgt.lineno - 1]
        new = L[:tgt.col_offset] + wrap % L[tgt.col_offset:tgt.end_col_offset] + L[tgt.end_col_offset:]
        yield lo.lineno, what, lines[:tgt.lineno - 1] + [new] + lines[tgt.lineno:]


class _Rename(ast.NodeTransformer):
    def __init__(self, old, new):
        self.old, self.new = old, new

    def visit_Name(self, n):
        if n.id == self.old:
            n.id = self.new
        return n

    def visit_Nonlocal(self, n):
        n.names = [self.new if x == self.old else x for x in n.names]
        return n


def harmless_mutants(src, fn):
    """behaviour-preserving rewrites: (a) a local variable renamed throughout the function, (b) the value of a
    simple assignment taken through a fresh temporary.  None of them may produce a VIOLATION."""
    import copy
    tree = ast.parse(src)
    params = {a.arg for a in fn.args.args + fn.args.kwonlyargs + fn.args.posonlyargs}
    if fn.args.vararg:
        params.add(fn.args.vararg.arg)
    if fn.args.kwarg:
        params.add(fn.args.kwarg.arg)
    stored = sorted({n.id for n in ast.walk(fn) if isinstance(n, ast.Name) and isinstance(n.ctx, ast.Store)} - params)
    declared = {x for n in ast.walk(fn) if isinstance(n, (ast.Global,)) for x in n.names}

    def rebuilt(mutate):
        t = copy.deepcopy(tree)
        target = [n for n in ast.walk(t) if isinstance(n, ast.FunctionDef) and n.lineno == fn.lineno and n.name == fn.name][0]
        mutate(target)
        ast.fix_missing_locations(t)
        return ast.unparse(t).split('\n')
    for name in stored:
        if name in declared or name.startswith('__'):
            continue
        yield fn.lineno, 'local %s renamed' % name, rebuilt(lambda f: _Rename(name, name + '_r9').visit(f))
    k = 0
    for n in ast.walk(fn):
        if isinstance(n, ast.Assign) and len(n.targets) == 1 and isinstance(n.targets[0], ast.Name) \
                and not isinstance(n.value, (ast.Yield, ast.YieldFrom, ast.Await)):
            k += 1
            ln, col = n.lineno, n.col_offset

            def mut(f, ln=ln, col=col, k=k):
                for parent in ast.walk(f):
                    for field in ('body', 'orelse', 'finalbody'):
                        body = getattr(parent, field, None)
                        if not isinstance(body, list):
                            continue
                        for i, stmt in enumerate(body):
                            if isinstance(stmt, ast.Assign) and stmt.lineno == ln and stmt.col_offset == col:
                                tmp = 'tmp9_%d' % k
                                first = ast.Assign(targets=[ast.Name(id=tmp, ctx=ast.Store())], value=stmt.value)
                                stmt.value = ast.Name(id=tmp, ctx=ast.Load())
                                body.insert(i, first)
                                return
            yield n.lineno, 'value of `%s = ...` through a temporary' % n.targets[0].id, rebuilt(mut)
    # (c) two adjacent assignments to different local names, neither reading the other's target, both without a
    #     call (nothing whose order could be observed), exchanged
    def pure(e):
        return not any(isinstance(x, (ast.Call, ast.Yield, ast.YieldFrom, ast.Await, ast.NamedExpr)) for x in ast.walk(e))

    def names(e):
        return {x.id for x in ast.walk(e) if isinstance(x, ast.Name)}
    for parent in ast.walk(fn):
        for field in ('body', 'orelse', 'finalbody'):
            body = getattr(parent, field, None)
            if not isinstance(body, list):
                continue
            for i in range(len(body) - 1):
                a, b = body[i], body[i + 1]
                if not (isinstance(a, ast.Assign) and isinstance(b, ast.Assign) and len(a.targets) == 1 and len(b.targets) == 1
                        and isinstance(a.targets[0], ast.Name) and isinstance(b.targets[0], ast.Name)):
                    continue
                ta, tb = a.targets[0].id, b.targets[0].id
                if ta == tb or not pure(a.value) or not pure(b.value) or ta in names(b.value) or tb in names(a.value):
                    continue
                la, ca = a.lineno, a.col_offset

                def swap2(f, la=la, ca=ca):
                    for p_ in ast.walk(f):
                        for fld in ('body', 'orelse', 'finalbody'):
                            bd = getattr(p_, fld, None)
                            if not isinstance(bd, list):
                                continue
                            for j in range(len(bd) - 1):
                                if isinstance(bd[j], ast.Assign) and bd[j].lineno == la and bd[j].col_offset == ca:
                                    bd[j], bd[j + 1] = bd[j + 1], bd[j]
                                    return
                yield a.lineno, 'independent assignments `%s`, `%s` exchanged' % (ta, tb), rebuilt(swap2)
    for n in ast.walk(fn):
        if isinstance(n, ast.If) and n.orelse and not (len(n.orelse) == 1 and isinstance(n.orelse[0], ast.If)):
            ln, col = n.lineno, n.col_offset

            def swap(f, ln=ln, col=col):
                for x in ast.walk(f):
                    if isinstance(x, ast.If) and x.lineno == ln and x.col_offset == col:
                        x.test = ast.UnaryOp(op=ast.Not(), operand=x.test)
                        x.body, x.orelse = x.orelse, x.body
                        return
            yield n.lineno, 'if/else swapped under a negated test', rebuilt(swap)


def lane(args):
    scr, tasks = args
    out = []
    for pid, cms, f, qual, lineno, what, new in tasks:
        path = os.path.join(scr, f)
        orig = open(os.path.join('/repo', f)).read()
        open(path, 'w').write('\n'.join(new))
        status, red = 'SURVIVED', []
        errs = 0
        try:
            for cm in cms:
                env = dict(os.environ, SC3_REPO=scr, PYTHONPATH=VERIF)
                try:
                    r = subprocess.run(['python3-vt', '-c', RUNNER, pid, cm, qual.replace('@setter', '').split('.')[-1]],
                                       env=env, capture_output=True, text=True, cwd=VERIF, timeout=600)
                    res = json.loads(r.stdout.strip().split('\n')[-1])
                except Exception:
                    status = 'error'
                    continue
                if res.get('viol'):
                    status, red = 'VIOLATION', res['viol']
                    break
                if res['red']:
                    status, red = 'caught', res['red']
                    break
                if res['err'] or (not res['n'] and not res['oos']):
                    # this module has nothing to say about the function under this property (or tripped over
                    # something else in the file): an error only if no module gives a verdict
                    errs += 1
                    continue
                if res['oos'] and status == 'SURVIVED':
                    status = 'oos'
        finally:
            open(path, 'w').write(orig)
        if errs == len(cms) and status == 'SURVIVED':
            status = 'error'
        out.append({'status': status, 'property': pid, 'file': f, 'function': qual, 'line': lineno, 'change': what,
                    'failed': red[:1]})
    return out


def main():
    mode = sys.argv[1] if len(sys.argv) > 1 else 'stmt'
    n = min(12, os.cpu_count() or 4)
    root = tempfile.mkdtemp(prefix='sc3_mutprobe_')
    try:
        tasks, done = [], set()
        for pid, cms, f, qual, has_loops in targets():
            if mode == 'loops' and not has_loops:
                continue
            src = open(os.path.join('/repo', f)).read()
            fn = find_fn(ast.parse(src), qual)
            if fn is None:
                continue
            gen = {'stmt': stmt_mutants, 'loops': loop_mutants, 'harmless': harmless_mutants}[mode]
            for lineno, what, new in gen(src, fn):
                if (pid, f, lineno, what) in done:
                    continue
                done.add((pid, f, lineno, what))
                tasks.append((pid, cms, f, qual, lineno, what, new))
        lanes = []
        for w in range(n):
            scr = os.path.join(root, 'lane%d' % w)
            os.makedirs(scr)
            shutil.copytree('/repo/sc3', os.path.join(scr, 'sc3'))
            lanes.append((scr, tasks[w::n]))
        results = []
        with mp.Pool(n) as pool:
            for res in pool.imap_unordered(lane, lanes):
                results.extend(res)
    finally:
        shutil.rmtree(root, ignore_errors=True)
    results.sort(key=lambda r: (r['property'], r['file'], r['line']))
    count = {}
    for r in results:
        count[r['status']] = count.get(r['status'], 0) + 1
    with open(os.path.join(VERIF, 'mutprobe_%s.json' % mode), 'w') as fh:
        json.dump({'mode': mode, 'mutants': len(results), 'counts': count,
                   'survivors': [r for r in results if r['status'] == 'SURVIVED'] if mode != 'harmless' else [],
                   'alarms': [r for r in results if r['status'] == 'VIOLATION'] if mode == 'harmless' else [],
                   'undecided': [r for r in results if r['status'] in ('caught', 'oos')] if mode == 'harmless' else [],
                   'errors': [r for r in results if r['status'] == 'error']}, fh, indent=1)
    print(mode, len(results), count)


if __name__ == '__main__':
    main()
