"""Contracts for filter patterns whose __embed__ is a plain loop over the source stream
(C13): Pn, Plen (Pfin), Pconst, Pstutter in sc3/seq/patterns/filterpatterns.py.

Ghost events: ('draw', stream, value, inval) for `stream.next(inval)` (which may instead
raise StopStream: event ('exhausted', stream)), ('yield', v) for `yield v`,
('embed', item, inval, gen) / ('yield-from', gen, r) for `r = yield from stm.embed(...)`.

  Pn       (key None) every pass embeds the SAME pattern once with the threaded input value
  Plen     every pass draws once from the source with the current input value and yields
           exactly that value; at most n passes (range(n)); a source that ends ends it quietly
  Pconst   every pass draws once; either it yields the drawn value and the running sum grows
           by exactly that value, or - when roundup(sum + value, tolerance) >= total - it
           yields (total - running sum) and returns; a source that ends yields the remainder:
           in both endings the yielded values add up to the requested total (telescoping
           lemma below)
  Pstutter every outer pass draws one value and one count; the inner loop runs |count|
           times and yields a copy of that value each time
"""
import z3
from vf.pyvc.spec import contract, lemma, Loop, REGISTRY
from vf.pyvc.values import *
from vf.pyvc import values as VV
from vf.pyvc.engine import Raised, Unsupported

F = 'sc3/seq/patterns/filterpatterns.py'


def make_stream(kind):
    def stream_pol(eng, selfv, args, kwargs, st, node):
        n = next(eng.counter)
        return [(st, V('obj', oid='stream!%d' % n, extra={'of': args[0], 'kind': kind}))]
    return stream_pol


def h_getattr(eng, obj, name, st, node):
    if obj.k == 'obj' and obj.extra and 'of' in obj.extra and name == 'next':
        def nxt(eng, args, kwargs, st, node, _o=obj):
            ok, bad = st, st.fork()
            kind = _o.extra['kind'](_o) if callable(_o.extra['kind']) else _o.extra['kind']
            v = eng.fresh_val(kind, 'drawn')
            ok.trace.append(('draw', _o, v, args[0] if args else None))
            bad.trace.append(('exhausted', _o))
            return [(ok, v), (bad, Raised(eng.make_exc('StopStream', node=node)))]
        return [(st, V('func', py=('spec', nxt)))]
    if obj.k == 'module' and name == 'StopStream':
        return [(st, V('class', py='StopStream'))]
    return None


def embed_pol(eng, selfv, args, kwargs, st, node):
    g = V('obj', oid='gen!%d' % next(eng.counter))
    st.trace.append(('embed', args[0], args[1], g))
    return [(st, g)]


from vf.contracts.seq_common import counter_pol, counts, COUNT


def since(trace, ordinal):
    idx = -1
    for i, e in enumerate(trace):
        if e[0] == 'loop-head' and e[1] == ordinal:
            idx = i
    return trace[idx + 1:] if idx >= 0 else None


def remember(*names):
    def hook(eng, st):
        st.ghost = dict(st.ghost)
        for n in names:
            st.ghost[n + '_at_head'] = st.env.get(n)
    return hook


EVS = ('draw', 'exhausted', 'yield', 'embed', 'yield-from')


def events(c, ordinal):
    ev = since(c.trace, ordinal)
    return None if not ev else [e for e in ev if e[0] in EVS]


def quiet_end(c):
    """after the source is exhausted nothing more is yielded, and no exception escapes"""
    ev = [e for e in c.trace if e[0] in ('yield', 'exhausted')]
    for k, e in enumerate(ev):
        if e[0] == 'exhausted':
            return z3.BoolVal(all(x[0] != 'yield' for x in ev[k:]))
    return z3.BoolVal(True)


common = dict(hooks={'getattr': h_getattr}, opts={'generator_trace': True}, native=False)


def times(count):
    """the loop makes exactly count(c) passes (none for a negative count), pass k carrying k"""
    def over(c, sq, k, elem):
        n = count(c)
        if elem.k != 'int':
            return z3.BoolVal(False), z3.BoolVal(False)
        return sq.extra['len'] == z3.If(n > 0, n, 0), elem.z == k
    return over

# ---- Pn ---------------------------------------------------------------------------------
def pn_pass(c, L):
    ev = events(c, 0)
    if ev is None:
        return z3.BoolVal(True)
    if len(ev) != 2 or ev[0][0] != 'embed' or ev[1][0] != 'yield-from':
        return z3.BoolVal(False)
    pat = c.pre.self.v('pattern')
    ok = (ev[0][1].k == pat.k and ev[0][1].oid == pat.oid                 # the same pattern every pass
          and ev[0][2] is c.st.ghost.get('inevent_at_head')               # with the threaded input
          and ev[1][1] is ev[0][3] and c.st.env['inevent'] is ev[1][2])   # and keeps what it returns
    return z3.BoolVal(bool(ok))


contract(F, 'Pn.__embed__', props=('C13',), params={'self': 'self', 'inevent': 'obj'},
         ensures=[('returns-the-threaded-input-value', lambda c: z3.BoolVal(c.resultv is c.st.env['inevent']))],
         fields={'Pn': {'pattern': 'obj', 'key': 'none', 'repeats': 'obj'}},
         loops={0: Loop(inv=pn_pass, over=counts('repeats'), kinds={'inevent': 'obj', '_': 'int'},
                        havoc_hook=remember('inevent'))},
         policies={'sc3/base/stream.py::embed': embed_pol, 'counter': counter_pol},
         class_modules={'Pn': F}, note='key None (the variant with a key writes into the event: bounded only)',
         **common)


# Pn with a key: every pass first marks the event it is about to hand down (event[key] = True), and after the
# last repetition the event that came back is marked False - on that event, not on an earlier one.
def pnk_setitem(eng, obj, idx, v, st, node):
    if obj.k == 'obj' and idx.k == 'obj' and idx.oid == 'self.key':
        st.trace.append(('set-key', obj, v))
        return [('next', st)]
    return None


def pnk_pass(c, L):
    ev = since(c.trace, 1)
    if not ev:
        return z3.BoolVal(True)
    ev = [e for e in ev if e[0] in EVS + ('set-key',)]
    if [e[0] for e in ev] != ['set-key', 'embed', 'yield-from']:
        return z3.BoolVal(False)
    head = c.st.ghost.get('inevent_at_head')
    pat = c.pre.self.v('pattern')
    ok = (ev[0][1] is head and ev[0][2].k == 'bool' and z3.is_true(z3.simplify(ev[0][2].z))    # marked BEFORE it goes down
          and ev[1][1].k == pat.k and ev[1][1].oid == pat.oid and ev[1][2] is head
          and ev[2][1] is ev[1][3] and c.st.env['inevent'] is ev[2][2])
    return z3.BoolVal(bool(ok))


def pnk_post(c):
    sets = [e for e in c.trace if e[0] == 'set-key']
    ok = (sets and sets[-1][1] is c.st.env['inevent'] and sets[-1][2].k == 'bool'
          and z3.is_false(z3.simplify(sets[-1][2].z)) and c.trace[-1] is sets[-1]               # last thing: unmarked
          and c.resultv is c.st.env['inevent'])
    return z3.BoolVal(bool(ok))


_pn_no_key = REGISTRY.pop('%s::Pn.__embed__' % F)
contract(F, 'Pn.__embed__', props=('C13',), params={'self': 'self', 'inevent': 'obj'},
         ensures=[('event-unmarked-at-the-end-and-returned', pnk_post)],
         fields={'Pn': {'pattern': 'obj', 'key': 'obj', 'repeats': 'obj'}},
         loops={1: Loop(inv=pnk_pass, over=counts('repeats'), kinds={'inevent': 'obj', '_': 'int'},
                        havoc_hook=remember('inevent'))},
         policies={'sc3/base/stream.py::embed': embed_pol, 'counter': counter_pol},
         class_modules={'Pn': F}, hooks={'getattr': h_getattr, 'setitem': pnk_setitem},
         opts={'generator_trace': True}, native=False, note='the variant with a key')
_k = '%s::Pn.__embed__#with-key' % F
REGISTRY[_k] = REGISTRY.pop('%s::Pn.__embed__' % F)
REGISTRY[_k].key = _k
REGISTRY['%s::Pn.__embed__' % F] = _pn_no_key


# ---- Plen -------------------------------------------------------------------------------
def plen_pass(c, L):
    ev = events(c, 0)
    if ev is None:
        return z3.BoolVal(True)
    if len(ev) != 2 or ev[0][0] != 'draw' or ev[1][0] != 'yield':
        return z3.BoolVal(False)
    ok = (ev[0][3] is c.st.ghost.get('inval_at_head')      # the source gets the current input value
          and ev[1][1] is ev[0][2])                        # and exactly what it gives is yielded
    return z3.BoolVal(bool(ok))


contract(F, 'Plen.__embed__', props=('C13',), params={'self': 'self', 'inval': 'obj'},
         ensures=[('ends-quietly-when-the-source-ends', quiet_end)],
         fields={'Plen': {'pattern': 'obj', 'n': 'int'}},
         loops={0: Loop(inv=plen_pass, over=times(lambda c: c.pre.self.n), kinds={'inval': 'obj', '_': 'int'},
                        havoc_hook=remember('inval'))},
         policies={'sc3/base/stream.py::stream': make_stream('any')},
         class_modules={'Plen': F}, **common)


# ---- Pconst -----------------------------------------------------------------------------
ROUNDUP = z3.Function('roundup', z3.RealSort(), z3.RealSort(), z3.RealSort())


def roundup_pol(eng, selfv, args, kwargs, st, node):
    return [(st, vreal(ROUNDUP(to_real(args[0]), to_real(args[1]))))]


def pconst_pass(c, L):
    """continuing pass: one draw, the drawn value is yielded and the running sum grows by it"""
    ev = events(c, 0)
    if ev is None:
        return z3.BoolVal(True)
    if len(ev) != 2 or ev[0][0] != 'draw' or ev[1][0] != 'yield':
        return z3.BoolVal(False)
    s0 = c.st.ghost.get('sum_at_head')
    drawn = ev[0][2]
    return z3.And(z3.BoolVal(ev[1][1] is drawn and ev[0][3] is c.st.ghost.get('inval_at_head')),
                  to_real(c.st.env['sum']) == to_real(s0) + to_real(drawn),
                  ROUNDUP(to_real(s0) + to_real(drawn), to_real(c.st.env['tolerance'])) < c.pre.self.sum)


def pconst_end(c):
    """both endings (total reached, source exhausted): the LAST value yielded is exactly
    total - running sum, so that the yielded values add up to the total"""
    ys = [e for e in c.trace if e[0] == 'yield']
    if not ys:
        return z3.BoolVal(False)
    return to_real(ys[-1][1]) == c.pre.self.sum - to_real(c.st.env['sum'])


contract(F, 'Pconst.__embed__', props=('C13',), params={'self': 'self', 'inval': 'obj'},
         ensures=[('last-value-is-the-remainder', pconst_end)],
         fields={'Pconst': {'pattern': 'obj', 'sum': 'real', 'tolerance': 'real'}},
         loops={0: Loop(early_exit=True, inv=pconst_pass, kinds={'inval': 'obj', 'sum': 'real', 'next_sum': 'real',
                                                'value': 'real'}, havoc_hook=remember('inval', 'sum'))},
         policies={'sc3/base/stream.py::stream': make_stream('real'),
                   'sc3/base/builtins.py::roundup': roundup_pol},
         class_modules={'Pconst': F}, **common)


def _telescope():
    """k continuing passes yield v_1..v_k with sum_k = v_1 + ... + v_k (per-pass obligation), the
    last value is total - sum_k (ensures): the values add up to total.  Instance k = 3."""
    v1, v2, v3, last, total = z3.Reals('Lv1 Lv2 Lv3 Llast Ltotal')
    s0, s1, s2, s3 = z3.Reals('Ls0 Ls1 Ls2 Ls3')
    a = [s0 == 0, s1 == s0 + v1, s2 == s1 + v2, s3 == s2 + v3, last == total - s3]
    return a, v1 + v2 + v3 + last == total


lemma('pconst-values-add-up-to-the-total', props=('C13',), over=(F + '::Pconst.__embed__',),
      vcs=[('three-passes-then-the-remainder', _telescope)],
      note='the arithmetic is the same for any number of passes; floats as reals')


# ---- Pstutter ---------------------------------------------------------------------------
def h_ext(eng, mod, name, args, kwargs, st, node):
    if mod == 'copy' and name == 'copy':
        return [(st, V('obj', oid='copy!%d' % next(eng.counter), extra={'copy_of': args[0]}))]
    return None


def stutter_outer(c, L):
    ev = since(c.trace, 0)
    if not ev:
        return z3.BoolVal(True)
    draws = [e for e in ev if e[0] == 'draw']
    # one value and one count per outer pass, both with the input value of the pass start
    ok = (len(draws) == 2 and draws[0][1].extra['of'].oid == 'self.pattern'
          and draws[1][1].extra['of'].oid == 'self.n')
    return z3.BoolVal(bool(ok))


def stutter_inner(c, L):
    ev = events(c, 1)
    if ev is None:
        return z3.BoolVal(True)
    if len(ev) != 1 or ev[0][0] != 'yield':
        return z3.BoolVal(False)
    y = ev[0][1]
    value = c.st.env['value']
    return z3.BoolVal(y.k == 'obj' and bool(y.extra) and y.extra.get('copy_of') is value)


def stream_kind(o):
    return 'int' if o.extra['of'].oid == 'self.n' else 'any'


contract(F, 'Pstutter.__embed__', props=('C13',), params={'self': 'self', 'inval': 'obj'},
         ensures=[('ends-quietly-when-a-source-ends', quiet_end)],
         fields={'Pstutter': {'pattern': 'obj', 'n': 'obj'}},
         loops={0: Loop(inv=stutter_outer, kinds={'inval': 'obj', 'value': 'any', 'n': 'int', '_': 'int'}),
                1: Loop(inv=stutter_inner, over=times(lambda c: z3.If(c.st.env['n'].z >= 0, c.st.env['n'].z, -c.st.env['n'].z)),
                        kinds={'inval': 'obj', '_': 'int'})},
         policies={'sc3/base/stream.py::stream': make_stream(stream_kind)},
         class_modules={'Pstutter': F}, hooks={'getattr': h_getattr, 'ext': h_ext},
         opts={'generator_trace': True}, native=False)


# ---- function filters: Pcollect / Pselect / Preject / Pwhile -----------------------------------------
# fn.value(func, ...) is an uninterpreted call ('apply', args, result); the result is a boolean for the
# two selecting filters and the loop test, any value for Pcollect.
FN = 'sc3/base/functions.py'


def value_pol(kind):
    def pol(eng, selfv, args, kwargs, st, node):
        r = eng.fresh_val(kind, 'applied')
        st.trace.append(('apply', tuple(args), r))
        return [(st, r)]
    return pol


def fcompare(eng, op, a, b, st, node):
    import ast
    # `x is True` / `x is False` on the boolean result of the function
    if isinstance(op, (ast.Is, ast.IsNot)) and a.k == 'bool' and b.k == 'bool':
        r = a.z == b.z
        return z3.Not(r) if isinstance(op, ast.IsNot) else r
    return None


def func_pass(mode):
    def inv(c, L):
        ev = events(c, 0)
        if ev is None:
            return z3.BoolVal(True)
        ev = [e for e in since(c.trace, 0) if e[0] in ('draw', 'apply', 'yield', 'exhausted')]
        head_inval = c.st.ghost.get('inval_at_head')
        if len(ev) < 2 or ev[0][0] != 'draw' or ev[1][0] != 'apply':
            return z3.BoolVal(False)
        drawn, applied = ev[0][2], ev[1]
        func = c.pre.self.v('func')
        args_ok = (len(applied[1]) == 3 and applied[1][0].k == func.k and applied[1][0].oid == func.oid
                   and applied[1][1] is drawn and applied[1][2] is head_inval           # func(value, input value)
                   and ev[0][3] is head_inval)                                          # the source gets the input value
        ys = [e for e in ev[2:] if e[0] == 'yield']
        if not args_ok or len(ev) != 2 + len(ys) or len(ys) > 1:
            return z3.BoolVal(False)
        if mode == 'collect':
            return z3.BoolVal(len(ys) == 1 and ys[0][1] is applied[2])                  # the function's result is yielded
        keep = applied[2].z if mode == 'select' else z3.Not(applied[2].z)
        if ys:
            return z3.And(keep, z3.BoolVal(ys[0][1] is drawn))                          # kept: the value itself
        return z3.Not(keep)                                                             # dropped: nothing yielded
    return inv


for cls, mode, kind in (('Pcollect', 'collect', 'any'), ('Pselect', 'select', 'bool'), ('Preject', 'reject', 'bool')):
    contract(F, cls + '.__embed__', props=('C13',), params={'self': 'self', 'inval': 'obj'},
             ensures=[('ends-quietly-when-the-source-ends', quiet_end)],
             fields={cls: {'pattern': 'obj', 'func': 'obj'}},
             loops={0: Loop(inv=func_pass(mode), kinds={'inval': 'obj', 'outval': 'any'},
                            havoc_hook=remember('inval'))},
             policies={'sc3/base/stream.py::stream': make_stream('any'), FN + '::value': value_pol(kind)},
             hooks={'getattr': h_getattr, 'compare': fcompare}, class_modules={cls: F},
             opts={'generator_trace': True}, native=False,
             note='the function returns a bool (Pselect/Preject compare with `is True` / `is False`: a truthy '
                  'non-bool result selects nothing - bounded driver)' if mode != 'collect' else None)


def pwhile_pass(c, L):
    ev = since(c.trace, 0)
    if not ev:
        return z3.BoolVal(True)
    ev = [e for e in ev if e[0] in ('apply', 'embed', 'yield-from', 'yield')]
    # test(func, inval) was true at the head; then exactly one embed of the pattern with that input value
    if [e[0] for e in ev] != ['apply', 'embed', 'yield-from']:
        return z3.BoolVal(False)
    pat = c.pre.self.v('pattern')
    head_inval = c.st.ghost.get('inevent_at_head') or c.st.ghost.get('inval_at_head')
    ok = (ev[1][1].k == pat.k and ev[1][1].oid == pat.oid and ev[1][2] is head_inval
          and ev[2][1] is ev[1][3] and c.st.env['inval'] is ev[2][2]
          and len(ev[0][1]) == 2 and ev[0][1][1] is head_inval)
    return z3.And(z3.BoolVal(bool(ok)), ev[0][2].z)


contract(F, 'Pwhile.__embed__', props=('C13',), params={'self': 'self', 'inval': 'obj'},
         ensures=[('returns-the-threaded-input-value-once-the-test-fails', lambda c: z3.BoolVal(
             c.resultv is c.st.env['inval']))],
         fields={'Pwhile': {'pattern': 'obj', 'func': 'obj'}},
         loops={0: Loop(inv=pwhile_pass, kinds={'inval': 'obj'}, havoc_hook=remember('inval'))},
         policies={'sc3/base/stream.py::embed': embed_pol, FN + '::value': value_pol('bool')},
         hooks={'getattr': h_getattr}, class_modules={'Pwhile': F},
         opts={'generator_trace': True}, native=False)


# ---- Pclump: groups of n consecutive values ------------------------------------------------------------------
# every outer pass starts a NEW list (before anything is drawn), draws the group size once, fills the list with
# exactly the values drawn in this pass and yields that list; when a source ends in the middle of a pass the
# list of THAT pass is yielded as the remainder iff it is not empty - never a list of an earlier pass again.
def pc_new_list(eng, items, st):
    if items == []:
        n = next(eng.counter)
        st.trace.append(('new-buffer', n))
        return V('ref', cls='Buf', oid='buf!%d' % n, extra={'truth': z3.Bool('buf!%d.nonempty' % n), 'buf': n})
    return None


def pc_getattr(eng, obj, name, st, node):
    if obj.k == 'ref' and obj.cls == 'Buf' and name == 'append':
        def app(eng, args, kwargs, st, node, _o=obj):
            st.trace.append(('buffer-append', _o, args[0]))
            return [(st, NONE)]
        return [(st, V('func', py=('spec', app)))]
    return h_getattr(eng, obj, name, st, node)


def buf_kind(eng, name):
    return V('ref', cls='Buf', oid='buf-of-an-earlier-pass', extra={'truth': z3.Bool('old-buffer.nonempty'), 'buf': 'old'})


def pc_inner(c, L):
    ev = since(c.trace, 1)
    if not ev:
        return z3.BoolVal(True)
    ev = [e for e in ev if e[0] in ('draw', 'buffer-append', 'yield', 'new-buffer')]
    if [e[0] for e in ev] != ['draw', 'buffer-append']:
        return z3.BoolVal(False)
    cur = c.st.env['lst']
    ok = (ev[1][1] is cur and ev[1][2] is ev[0][2]                         # the value just drawn goes into the current list
          and ev[0][1].extra['of'].oid == 'self.pattern')
    return z3.BoolVal(bool(ok))


def pc_outer(c, L):
    ev = since(c.trace, 0)
    if not ev:
        return z3.BoolVal(True)
    ev = [e for e in ev if e[0] in ('new-buffer', 'draw', 'yield', 'loop-head')]
    kinds = [e[0] for e in ev]
    # new list FIRST, then the size, (inner loop), then the list of this pass is yielded
    if kinds[:2] != ['new-buffer', 'draw'] or kinds[-1] != 'yield' or kinds.count('new-buffer') != 1 \
            or kinds.count('yield') != 1:
        return z3.BoolVal(False)
    y = ev[-1][1]
    ok = (ev[1][1].extra['of'].oid == 'self.n' and y.k == 'ref' and y.cls == 'Buf' and y.extra['buf'] == ev[0][1])
    return z3.BoolVal(bool(ok))


def pc_post(c):
    t = c.trace
    heads = [i for i, e in enumerate(t) if e[0] == 'loop-head' and e[1] == 0]
    if not heads:
        return z3.BoolVal(False)
    tail = t[heads[-1]:]
    ys = [e for e in tail if e[0] == 'yield']
    made = [e for e in tail if e[0] == 'new-buffer']
    if not ys:
        if not made:
            return z3.BoolVal(False)                                          # a pass always starts with a new list
        return z3.Not(z3.Bool('buf!%d.nonempty' % made[-1][1]))              # nothing left over
    y = ys[-1][1]
    ok = len(ys) == 1 and bool(made) and y.k == 'ref' and y.cls == 'Buf' and y.extra['buf'] == made[-1][1]
    return z3.And(z3.BoolVal(bool(ok)), z3.Bool('buf!%d.nonempty' % made[-1][1]) if made else z3.BoolVal(False))


contract(F, 'Pclump.__embed__', props=('C13',), params={'self': 'self', 'inval': 'obj'},
         ensures=[('remainder-of-the-last-pass-yielded-iff-non-empty,no-earlier-list-again', pc_post)],
         fields={'Pclump': {'pattern': 'obj', 'n': 'obj'}, 'Buf': {}},
         loops={0: Loop(inv=pc_outer, kinds={'inval': 'obj', 'lst': buf_kind, 'n': 'int', 'value': 'any', '_': 'int'}),
                1: Loop(inv=pc_inner, over=times(lambda c: c.st.env['n'].z), kinds={'value': 'any', '_': 'int'})},
         policies={'sc3/base/stream.py::stream': make_stream(stream_kind)},
         hooks={'getattr': pc_getattr, 'new_list': pc_new_list}, class_modules={'Pclump': F, 'Buf': F},
         opts={'generator_trace': True}, native=False)
