"""Contracts for Condition (C11): sc3/base/stream.py Condition.wait / signal / unhang.

  wait()    body of the generator: outside a routine it raises before yielding anything; in a
            routine it yields exactly once: 'hang' after appending the routine's thread player
            to the waiting list when the test is false, 0 (resume at once) and nothing appended
            when the test is true
  signal()  test true: the waiting list is replaced by a new empty list BEFORE anything is
            rescheduled, and every routine that was waiting is scheduled exactly once, with
            delta 0, on its own clock, in waiting order; test false: nothing happens
  unhang()  as signal() with the test ignored

The waiting list is a sequence of symbolic length; `tt._clock.sched(0, tt)` is a ghost event
(what sched does is C05/C08's contract); the state lock is an opaque context manager.
"""
import z3
from vf.pyvc.spec import contract, Loop
from vf.pyvc.values import *
from vf.pyvc import values as VV
from vf.pyvc.engine import Raised, Unsupported
from ._common import MAIN_FIELDS

F = 'sc3/base/stream.py'
ITEMS = z3.Array('waiting.items', z3.IntSort(), VV.Any)


def waiting_kind(eng, name):
    n = z3.Int('waiting.len')
    return V('seq', extra={'len': n, 'facts': [n >= 0], 'waiting': True,
                           'get': (lambda eng_, i, st_: V('any', z3.Select(ITEMS, i)))})


def h_getattr(eng, obj, name, st, node):
    if obj.k == 'seq' and obj.extra.get('waiting') and name == 'append':
        def app(eng, args, kwargs, st, node):
            st.trace.append(('append', args[0]))
            return [(st, NONE)]
        return [(st, V('func', py=('spec', app)))]
    if obj.k == 'any' and name == '_clock':
        return [(st, V('obj', oid='clock-of', extra={'tt': obj}))]
    if obj.k == 'obj' and obj.oid == 'clock-of' and name == 'sched':
        def sched(eng, args, kwargs, st, node, _o=obj):
            st.trace.append(('sched', _o.extra['tt'], tuple(args)))
            return [(st, NONE)]
        return [(st, V('func', py=('spec', sched)))]
    if obj.k == 'ref' and obj.cls == 'TimeThread' and name == 'thread_player':
        return [(st, V('obj', oid='player-of-current'))]
    return None


def h_setattr(eng, obj, name, v, st, node):
    if name == '_waiting_threads':
        st.trace.append(('swap', v))
    return None


FIELDS = {'Condition': {'_test': 'bool', '_state_lock': 'obj', '_waiting_threads': waiting_kind},
          'Main': dict(MAIN_FIELDS, main_tt='aref:TimeThread', current_tt='aref:TimeThread'),
          'TimeThread': {}}


def since_head(trace, ordinal=0):
    idx = -1
    for i, e in enumerate(trace):
        if e[0] == 'loop-head' and e[1] == ordinal:
            idx = i
    return trace[idx + 1:] if idx >= 0 else None


def per_waiter(c, L):
    ev = since_head(c.trace)
    if not ev:
        return z3.BoolVal(True)
    ev = [e for e in ev if e[0] in ('sched', 'append')]
    if len(ev) != 1 or ev[0][0] != 'sched':
        return z3.BoolVal(False)
    tt, args = ev[0][1], ev[0][2]
    if len(args) != 2 or args[0].k != 'int' or args[1].k != 'any' or tt.k != 'any':
        return z3.BoolVal(False)
    item = z3.Select(ITEMS, L.i - 1)
    # the routine waiting at position i-1, on ITS clock, with delta 0, as the task itself
    return z3.And(tt.z == item, args[1].z == item, args[0].z == 0)


def swapped_before_scheduling(c):
    """the object's waiting list is a NEW empty list (so that a routine that waits again while
    being resumed is not lost or resumed twice)"""
    w = c.post.self.v('_waiting_threads')
    sw = [i for i, e in enumerate(c.trace) if e[0] == 'swap']
    heads = [i for i, e in enumerate(c.trace) if e[0] == 'loop-head']
    return z3.BoolVal(w.k == 'list' and w.items == [] and len(sw) == 1 and bool(heads) and sw[0] < heads[0])


def signal_post(ignore_test):
    def post(c):
        heads = [e for e in c.trace if e[0] == 'loop-head']
        test = c.pre.self._test
        if heads:
            return z3.And(z3.BoolVal(True) if ignore_test else test, swapped_before_scheduling(c))
        untouched = c.post.self.v('_waiting_threads').k == 'seq'
        return z3.And(z3.Not(test) if not ignore_test else z3.BoolVal(False),
                      z3.BoolVal(untouched and not [e for e in c.trace if e[0] == 'sched']))
    return post


for meth, ignore in (('signal', False), ('unhang', True)):
    contract(F, 'Condition.' + meth, props=('C11', 'C08'), params={'self': 'self'},
             ensures=[('all-waiters-rescheduled-once-in-order-from-a-swapped-list', signal_post(ignore))],
             modifies=[('self', '_waiting_threads')],
             loops={0: Loop(inv=per_waiter, kinds={'tt': 'any'})},
             fields=FIELDS, hooks={'getattr': h_getattr, 'setattr': h_setattr},
             class_modules={'Condition': F, 'TimeThread': F}, inline=('Condition.test',), native=False)


# ---- wait(): the generator body -------------------------------------------------------------
def wait_post(c):
    ys = [e for e in c.trace if e[0] == 'yield']
    ap = [e for e in c.trace if e[0] == 'append']
    test = c.pre.self._test
    if len(ys) != 1:
        return z3.BoolVal(False)
    y = ys[0][1]
    if ap:
        ok = (len(ap) == 1 and ap[0][1].k == 'obj' and ap[0][1].oid == 'player-of-current'
              and y.k == 'str' and y.py == 'hang'
              and c.trace.index(ap[0]) < c.trace.index(ys[0]))      # queued BEFORE giving up control
        return z3.And(z3.Not(test), z3.BoolVal(bool(ok)))
    return z3.And(test, z3.BoolVal(y.k == 'int'), y.z == 0 if y.k == 'int' else z3.BoolVal(False))


def outside_routine(c):
    cur = c.st.objs.get('main', {}).get('current_tt')
    mt = c.st.objs.get('main', {}).get('main_tt')
    return z3.Const('main.current_tt#id', VV.Any) == z3.Const('main.main_tt#id', VV.Any)


contract(F, 'Condition.wait', props=('C11',), params={'self': 'self'},
         raises={'Exception': outside_routine},
         ensures=[('one-yield:hang-after-queueing-the-player,or-0-when-the-test-holds', wait_post)],
         on_raise=[('nothing-queued-nothing-yielded',
                    lambda c: z3.BoolVal(not [e for e in c.trace if e[0] in ('yield', 'append')]))],
         modifies=[], fields=FIELDS, hooks={'getattr': h_getattr},
         class_modules={'Condition': F, 'TimeThread': F}, inline=('Condition.test',),
         opts={'generator_trace': True}, native=False)


# ---- FlowVar --------------------------------------------------------------------------------
def fv_getattr(eng, obj, name, st, node):
    if obj.k == 'ref' and obj.oid == 'self' and name == '_UNBOUND':
        return [(st, V('obj', oid='FlowVar._UNBOUND'))]
    if obj.k == 'obj' and obj.oid == 'self.condition' and name in ('signal', 'wait'):
        def call(eng, args, kwargs, st, node, _n=name):
            r = V('obj', oid='cond.%s!%d' % (_n, next(eng.counter)))
            st.trace.append(('condition', _n, r))
            return [(st, r)]
        return [(st, V('func', py=('spec', call)))]
    return None


def fv_compare(eng, op, a, b, st, node):
    import ast
    if isinstance(op, (ast.Is, ast.IsNot)):
        for p, q in ((a, b), (b, a)):
            if p.k == 'obj' and p.oid == 'FlowVar._UNBOUND':
                r = z3.BoolVal(q.k == 'obj' and q.oid == 'FlowVar._UNBOUND')
                return z3.Not(r) if isinstance(op, ast.IsNot) else r
    return None


def fv_setattr(eng, obj, name, v, st, node):
    if name == '_value':
        st.trace.append(('bind', v))
    return None


def set_post(c):
    ev = [e for e in c.trace if e[0] in ('condition', 'bind')]
    v = c.post.self.v('_value')
    # bound FIRST (the condition's test reads the value), then signalled once
    return z3.BoolVal(v is c._params['inval'] and [e[0] for e in ev] == ['bind', 'condition']
                      and ev[1][1] == 'signal')


for bound in (False, True):
    contract(F, 'FlowVar.value@setter', props=('C11',), params={'self': 'self', 'inval': 'any'},
             raises={'Exception': (lambda c, _b=bound: z3.BoolVal(_b))},         # a second binding is refused
             ensures=[('bound-to-the-value-then-signalled-once', set_post)],
             on_raise=[('value-kept-nobody-signalled', lambda c: z3.BoolVal(
                 not [e for e in c.trace if e[0] == 'condition'] and not c.st.ghost.get('written')))],
             modifies=[('self', '_value')],
             fields={'FlowVar': {'_value': ('any' if bound else (lambda eng, name: V('obj', oid='FlowVar._UNBOUND'))),
                                 'condition': 'obj'}},
             hooks={'getattr': fv_getattr, 'compare': fv_compare, 'setattr': fv_setattr},
             class_modules={'FlowVar': F}, native=False)
    from vf.pyvc.spec import REGISTRY
    key = '%s::FlowVar.value@setter#%s' % (F, 'bound' if bound else 'unbound')
    REGISTRY[key] = REGISTRY.pop('%s::FlowVar.value@setter' % F)
    REGISTRY[key].key = key


def get_post(c):
    ev = [e for e in c.trace if e[0] in ('condition', 'yield-from', 'yield')]
    ok = (len(ev) == 2 and ev[0][0] == 'condition' and ev[0][1] == 'wait'
          and ev[1][0] == 'yield-from' and ev[1][1] is ev[0][2])      # waits on ITS condition, nothing else
    r = c.resultv
    cur = c.post.self.v('_value')
    return z3.BoolVal(bool(ok) and r.k == 'any' and cur.k == 'any' and z3.eq(r.z, cur.z)
                      and '@resumed' in str(r.z))                  # returns the value as it is AFTER the wait


contract(F, 'FlowVar.value', props=('C11',), params={'self': 'self'},
         ensures=[('waits-on-its-condition-then-returns-the-current-value', get_post)],
         modifies=[], fields={'FlowVar': {'_value': 'any', 'condition': 'obj'}},
         hooks={'getattr': fv_getattr, 'compare': fv_compare}, class_modules={'FlowVar': F},
         opts={'generator_trace': True, 'yield_havoc': [('self', '_value')]}, native=False)
