"""Evaluate seeded property-breaking changes (python3-vt -m vf.seedeval <dir> ...).

For each directory holding patch.diff + demo.py (+ notes.txt):
  1. demo passes (exit 0) on the unchanged /repo,
  2. the patch applies; the demo fails (exit 1) with it,
  3. the repository suite still gives the baseline (60 passed) with it,
  4. ./check <property> --tier quick is run against /repo with the patch applied
     (git apply ... ; git checkout -- . afterwards) and its verdict recorded.
Confirmed seeds are copied to /verif/seeded/<id>/ with meta.json.
"""
import json
import os
import re
import shutil
import subprocess
import sys
import time

VERIF = os.path.dirname(os.path.dirname(os.path.abspath(__file__)))
REPO = os.environ.get('SEED_TREE', '/repo')   # a scratch worktree of /repo, or /repo itself
PY = '/venv/bin/python'


def sh(cmd, cwd=None, env=None, timeout=3600):
    e = dict(os.environ)
    e.update(env or {})
    p = subprocess.run(cmd, shell=True, cwd=cwd, env=e, capture_output=True, text=True, timeout=timeout)
    return p.returncode, p.stdout + p.stderr


def demo(tree, path):
    rc, out = sh('%s -W ignore %s' % (PY, path), cwd='/tmp', env={'PYTHONPATH': tree}, timeout=600)
    return rc, out[-1500:]


def suite(tree):
    rc, out = sh('%s -W ignore -m pytest -q -p no:cacheprovider --timeout=900 '
                 '--continue-on-collection-errors 2>&1 | tail -3' % PY, cwd=tree,
                 env={'PYTHONPATH': tree}, timeout=1800)
    m = re.search(r'(\d+) failed, (\d+) passed', out)
    return (int(m.group(2)), int(m.group(1))) if m else (None, out[-300:])


def clean_repo():
    sh('git checkout -- . && git clean -fdq sc3', cwd=REPO)


def evaluate(d, extra_props=()):
    name = os.path.basename(d.rstrip('/'))
    prop = name.split('_')[0]
    name = os.environ.get('SEED_PREFIX', '') + name      # e.g. r2_ for a second round
    patch = os.path.join(d, 'patch.diff')
    dm = os.path.join(d, 'demo.py')
    meta = {'id': name, 'property': prop, 'source_dir': d,
            'needs': open(os.path.join(d, 'notes.txt')).read()[:3000] if os.path.exists(os.path.join(d, 'notes.txt')) else ''}
    clean_repo()
    rc0, out0 = demo(REPO, dm)
    meta['demo_unchanged'] = rc0
    rc, out = sh('git apply --check %s' % patch, cwd=REPO)
    if rc != 0:
        meta['status'] = 'patch does not apply: ' + out[-300:]
        return meta
    sh('git apply %s' % patch, cwd=REPO)
    try:
        rc1, out1 = demo(REPO, dm)
        meta['demo_changed'] = rc1
        meta['demo_output_changed'] = out1[-800:]
        meta['suite_changed'] = suite(REPO)
        meta['confirmed'] = (rc0 == 0 and rc1 == 1 and meta['suite_changed'][0] == 60)
        checks = {}
        for p in (prop,) + tuple(extra_props):
            t0 = time.time()
            rc, out = sh('./check %s --tier quick' % p, cwd=VERIF, timeout=3600,
                         env=dict({'VERIF_EVIDENCE_DIR': os.path.join(VERIF, '.work', 'seed_evidence')},
                                  **({'SC3_REPO': REPO} if REPO != '/repo' else {})))
            vl = [l for l in out.split('\n') if l.startswith('VIOLATION')]
            checks[p] = {'exit': rc, 'violations': len(vl),
                         'first': [l[:400] for l in vl[:3]],
                         'summary': [l for l in out.split('\n') if l.startswith(p + ' tier=')][-1:],
                         'deciders': sorted(set(('pyvc' if '.py::' in l or 'table:' in l or 'lemma:' in l else 'bounded') for l in vl)),
                         'wall_s': round(time.time() - t0, 1)}
        meta['checks'] = checks
        meta['caught'] = checks[prop]['exit'] == 1 and checks[prop]['violations'] > 0
    finally:
        clean_repo()
    return meta


def main():
    dirs = [a for a in sys.argv[1:] if not a.startswith('--')]
    res = []
    for d in dirs:
        m = evaluate(d)
        res.append(m)
        print(json.dumps({k: m.get(k) for k in ('id', 'confirmed', 'caught', 'demo_unchanged',
                                                'demo_changed', 'suite_changed', 'status')}))
        if m.get('confirmed'):
            dst = os.path.join(VERIF, 'seeded', m['id'])
            os.makedirs(dst, exist_ok=True)
            shutil.copy(os.path.join(d, 'patch.diff'), dst)
            shutil.copy(os.path.join(d, 'demo.py'), dst)
            m2 = dict(m)
            m2.pop('source_dir', None)
            m2['what_was_run'] = ('demo.py on the unchanged tree (exit 0) and with the patch (exit 1); '
                                  'repository suite with the patch (60 passed); ./check %s --tier quick with '
                                  'the patch applied to %s (git apply; git checkout -- . afterwards)' % (m['property'], REPO))
            with open(os.path.join(dst, 'meta.json'), 'w') as f:
                json.dump(m2, f, indent=1)
    with open(os.path.join(VERIF, '.work', 'seedeval_%d.json' % int(time.time())), 'w') as f:
        json.dump(res, f, indent=1)


if __name__ == '__main__':
    main()
