"""Contracts for where and when clocks schedule (C05, C10): the real-time and
the non-real-time branch of every scheduling method put the same task at the
same logical time; ClockTask._wakeup re-schedules at scheduled time + delta
through the clock's own map."""
import ast
import z3
from vf.pyvc.spec import contract
from vf.pyvc.values import *
from vf.pyvc.engine import Raised
from ._common import MAIN_FIELDS, TT_FIELDS, ghost_int, ghost_bool
from .base_clock_loops import awake_call, AWAKE

F = 'sc3/base/clock.py'
FIELDS = {'SystemClock': {'_sched_cond': 'obj', '_task_queue': 'obj'},
          'TempoClock': {'_sched_cond': 'obj', '_task_queue': 'obj', '_tempo': 'real',
                         '_beat_dur': 'real', '_base_seconds': 'real', '_base_beats': 'real'},
          'ClockTask': {'clock': 'obj', 'task': 'obj', 'scheduler': 'obj'},
          'Main': MAIN_FIELDS, 'TimeThread': TT_FIELDS,
          'Routine': {'_clock': 'obj'}}
CM = {'SystemClock': F, 'TempoClock': F, 'ClockTask': F, 'Routine': 'sc3/base/stream.py'}
INF = 'inf'


def sched_events(c):
    return [e for e in c.trace
            if (e[0] == 'call' and e[1] in ('SystemClock._sched_add', 'TempoClock._sched_add'))
            or (e[0] == 'new' and e[1] == 'ClockTask')]


def one_sched_at(when):
    def f(c):
        ev = sched_events(c)
        if len(ev) != 1:
            return z3.BoolVal(False)
        args = ev[0][2]
        task_ok = any(isinstance(a, V) and a.k == 'ref' and a.oid == 'item' for a in args)
        return z3.And(to_real(args[0]) == when(c), z3.BoolVal(task_ok))
    return f


def task_clock_is(which):
    """the task remembers the clock that schedules it (a routine re-schedules itself on `_clock`)"""
    def f(c):
        v = c.post.item.v('_clock')
        if which == 'self':
            return z3.BoolVal(v.k == 'ref' and v.oid == 'self')
        return z3.BoolVal(v.k == 'class' and v.py == which)
    return f


def logical_now(c):
    return c.pre.main.current_tt._seconds


def h_mode(eng, obj, name, st, node):
    # SystemClock.mode is a property of the metaclass: rt/nrt flag as a ghost int
    if obj.k == 'class' and obj.py == 'SystemClock' and name == 'mode':
        z = z3.Int('cls:SystemClock.__mode')
        st.pc.append(z3.And(z >= 0, z <= 1))
        return [(st, vint(z))]
    return None


common = dict(fields=FIELDS, class_modules=CM, native=False, hooks={'getattr': h_mode},
              policies={'SystemClock.mode': ghost_int('__mode', 0, 1),
                        'TempoClock.mode': ghost_int('__mode', 0, 1),
                        'TempoClock.running': ghost_bool('__running'),
                        'SystemClock._sched_add': 'opaque', 'TempoClock._sched_add': 'opaque'},
              opts={'opaque_construct': ('ClockTask', 'Function')})

# in BOTH modes: one scheduling of this task at logical now + delta
contract(F, 'SystemClock.sched', props=('C05', 'C10'),
         params={'cls': 'cls', 'delta': 'num', 'item': 'ref:Routine'},
         ensures=[('same-task-same-logical-time-in-rt-and-nrt',
                   one_sched_at(lambda c: logical_now(c) + c.delta)),
                  ('task-remembers-this-clock', task_clock_is('SystemClock'))],
         **common)
contract(F, 'SystemClock.sched_abs', props=('C05', 'C10'),
         params={'cls': 'cls', 'time': 'num', 'item': 'ref:Routine'},
         ensures=[('same-task-same-logical-time-in-rt-and-nrt', one_sched_at(lambda c: c.time)),
                  ('task-remembers-this-clock', task_clock_is('SystemClock'))],
         **common)


def tbeats(c, secs):
    s = c.pre.self
    return (secs - s._base_seconds) * s._tempo + s._base_beats


contract(F, 'TempoClock.sched', props=('C05', 'C10'),
         params={'self': 'self', 'delta': 'num', 'item': 'ref:Routine'},
         requires=lambda c: z3.Bool('self.__running'),
         ensures=[('same-task-same-logical-beat-in-rt-and-nrt',
                   one_sched_at(lambda c: tbeats(c, logical_now(c)) + c.delta)),
                  ('task-remembers-this-clock', task_clock_is('self'))],
         inline=('TempoClock._calc_sched_beats', 'TempoClock.secs2beats', 'TempoClock._sched_add_nrt'),
         **common)
contract(F, 'TempoClock.sched_abs', props=('C05', 'C10'),
         params={'self': 'self', 'beat': 'num', 'item': 'ref:Routine'},
         requires=lambda c: z3.Bool('self.__running'),
         ensures=[('same-task-same-logical-beat-in-rt-and-nrt', one_sched_at(lambda c: c.beat)),
                  ('task-remembers-this-clock', task_clock_is('self'))],
         inline=('TempoClock._sched_add_nrt',), **common)


# ---- NRT wake-up -------------------------------------------------------------------
S2B = z3.Function('clock_secs2beats', z3.RealSort(), z3.RealSort())
B2S = z3.Function('clock_beats2secs', z3.RealSort(), z3.RealSort())


def h_getattr(eng, obj, name, st, node):
    if obj.k == 'obj' and obj.oid == 'self.clock' and name in ('secs2beats', 'beats2secs'):
        fn = S2B if name == 'secs2beats' else B2S

        def conv(eng, args, kwargs, st, node):
            return [(st, vreal(fn(to_real(args[0]))))]
        return [(st, V('func', py=('spec', conv)))]
    if obj.k == 'obj' and obj.oid == 'self.task' and name == '__awake__':
        return [(st, V('func', py=('spec', awake_call(obj))))]
    if obj.k == 'obj' and obj.oid == 'self.scheduler' and name == 'add':
        def add(eng, args, kwargs, st, node):
            st.trace.append(('scheduler.add', to_real(args[0]), args[1]))
            return [(st, NONE)]
        return [(st, V('func', py=('spec', add)))]
    if obj.k == 'ref' and obj.oid == 'main' and name == '_update_logical_time':
        def ult(eng, args, kwargs, st, node):
            st.trace.append(('logical-time', to_real(args[0])))
            return [(st, NONE)]
        return [(st, V('func', py=('spec', ult)))]
    if obj.k == 'module' and name == 'StopStream':
        return [(st, V('class', py='StopStream'))]
    return None


def wakeup_post(c):
    lts = [e for e in c.trace if e[0] == 'logical-time']
    aw = [e for e in c.trace if e[0] == 'awake']
    adds = [e for e in c.trace if e[0] == 'scheduler.add']
    if len(lts) != 1 or len(aw) != 1:
        return z3.BoolVal(False)
    t = c.time if not z3.is_int(c.time) else z3.ToReal(c.time)
    kind, val = aw[0][2], aw[0][3]
    clauses = [lts[0][1] == t, z3.BoolVal(c.trace.index(lts[0]) < c.trace.index(aw[0]))]
    if kind in ('int', 'real'):
        if len(adds) != 1:
            return z3.BoolVal(False)
        clauses += [adds[0][1] == B2S(S2B(t) + to_real(val)),
                    z3.BoolVal(adds[0][2].k == 'ref' and adds[0][2].oid == 'self')]
    else:
        clauses.append(z3.BoolVal(len(adds) == 0))
    return z3.And(*clauses)


contract(F, 'ClockTask._wakeup', props=('C05', 'C10'),
         params={'self': 'self', 'time': 'num'},
         ensures=[('logical-time-then-reschedule-at-scheduled-plus-delta', wakeup_post)],
         hooks={'getattr': h_getattr}, fields=FIELDS, class_modules=CM, native=False,
         note='no exception of the task escapes (StopStream silently, others logged)')


# ---- AppClock in non-real-time mode (in RT it is documented to drift) ----------------
def h_mode_app(eng, obj, name, st, node):
    if obj.k == 'class' and obj.py == 'AppClock' and name == 'mode':
        return [(st, vint(0))]           # NRT_MODE
    return None


contract(F, 'AppClock.sched', props=('C05', 'C10'),
         params={'cls': 'cls', 'delta': 'num', 'item': 'ref:Routine'},
         ensures=[('nrt-schedules-at-logical-time-plus-delta',
                   one_sched_at(lambda c: logical_now(c) + c.delta)),
                  ('task-remembers-this-clock', task_clock_is('AppClock'))],
         **dict(common, hooks={'getattr': h_mode_app},
                fields=dict(FIELDS, AppClock={'_sched_lock': 'obj', '_scheduler': 'obj', '_tick_cond': 'obj'}),
                class_modules=dict(CM, AppClock=F)))


# ---- the non-real-time scheduler loop and the task wrapper ----------------------------------------------
# ClockScheduler.run: every pass pops ONE entry and wakes exactly that task with exactly the popped
# time; it stops only when the queue is empty.  With the TaskQueue contract (C09: entries come out in
# stable priority order) and ClockTask._wakeup (re-schedules at popped time + delta through the clock's
# map) this gives: the logical time handed to tasks never decreases as long as deltas are not negative.
# ClockTask.__init__: the new wrapper is queued once, at clock.beats2secs(beats), as itself.
from vf.pyvc.spec import Loop as _Loop2


def nrt_getattr(eng, obj, name, st, node):
    if obj.k == 'obj' and obj.oid == 'self.queue' and name in ('empty', 'pop'):
        def q(eng, args, kwargs, st, node, _n=name):
            if _n == 'empty':
                return [(st, vbool(eng.fresh('queue.empty', z3.BoolSort())))]
            t = vreal(eng.fresh('popped.time', z3.RealSort()))
            k = V('ref', cls='ClockTask', oid='popped!%d' % next(eng.counter))
            st.trace.append(('pop', t, k))
            return [(st, vtuple([t, k]))]
        return [(st, V('func', py=('spec', q)))]
    if obj.k == 'ref' and obj.cls == 'ClockTask' and str(obj.oid).startswith('popped') and name == '_wakeup':
        def wk(eng, args, kwargs, st, node, _o=obj):
            st.trace.append(('wakeup', _o, tuple(args)))
            return [(st, NONE)]
        return [(st, V('func', py=('spec', wk)))]
    if obj.k == 'obj' and obj.oid in ('scheduler',) and name == 'add':
        def add(eng, args, kwargs, st, node):
            st.trace.append(('sched-add', tuple(args)))
            return [(st, NONE)]
        return [(st, V('func', py=('spec', add)))]
    if obj.k == 'obj' and obj.oid == 'clock' and name == 'beats2secs':
        def b2s(eng, args, kwargs, st, node):
            r = vreal(eng.fresh('secs', z3.RealSort()))
            st.trace.append(('beats2secs', tuple(args), r))
            return [(st, r)]
        return [(st, V('func', py=('spec', b2s)))]
    return None


def _since(trace):
    idx = -1
    for i, e in enumerate(trace):
        if e[0] == 'loop-head':
            idx = i
    return trace[idx + 1:] if idx >= 0 else None


def run_pass(c, L):
    ev = _since(c.trace)
    if not ev:
        return z3.BoolVal(True)
    ev = [e for e in ev if e[0] in ('pop', 'wakeup')]
    if [e[0] for e in ev] != ['pop', 'wakeup']:
        return z3.BoolVal(False)
    pop, wk = ev
    ok = wk[1] is pop[2] and len(wk[2]) == 1 and wk[2][0] is pop[1]      # THAT task, with THAT time
    return z3.BoolVal(bool(ok))


contract(F, 'ClockScheduler.run', props=('C05', 'C10'), params={'self': 'self'},
         ensures=[('nothing-outside-the-passes', lambda c: z3.BoolVal(True))],
         loops={0: _Loop2(inv=run_pass, kinds={'time': 'real', 'clock_task': (lambda eng, n: V('obj', oid='havoc'))})},
         modifies=[], fields={'ClockScheduler': {'queue': 'obj'}, 'ClockTask': {}},
         hooks={'getattr': nrt_getattr}, class_modules={'ClockScheduler': F, 'ClockTask': F}, native=False)


def ct_init_post(c):
    ev = [e for e in c.trace if e[0] in ('sched-add', 'beats2secs')]
    if [e[0] for e in ev] != ['beats2secs', 'sched-add']:
        return z3.BoolVal(False)
    b2s, add = ev
    me = c.post.self
    ok = (len(b2s[1]) == 1 and b2s[1][0] is c._params['beats']
          and len(add[1]) == 2 and add[1][0] is b2s[2] and add[1][1].k == 'ref' and add[1][1].oid == 'self'
          and me.v('clock') is c._params['clock'] and me.v('task') is c._params['task']
          and me.v('scheduler') is c._params['scheduler'])
    return z3.BoolVal(bool(ok))


contract(F, 'ClockTask.__init__', props=('C05', 'C10'),
         params={'self': 'self', 'beats': 'num', 'clock': 'obj', 'task': 'obj', 'scheduler': 'obj'},
         ensures=[('queued-once-as-itself-at-the-clocks-seconds-for-these-beats', ct_init_post)],
         modifies=[('self', 'clock'), ('self', 'task'), ('self', 'scheduler')],
         fields={'ClockTask': {'clock': 'obj', 'task': 'obj', 'scheduler': 'obj'}},
         hooks={'getattr': nrt_getattr}, class_modules={'ClockTask': F}, native=False)


# ---- Quant.as_quant: what a `quant` argument means (C05: "routines start ... on the grid asked for") -------
def q_construct(eng, f, args, kwargs, st, node):
    if f.k in ('class', 'cls') or (f.k == 'ref' and f.oid == 'cls'):
        r = V('obj', oid='a-quant', extra={'args': tuple(args)})
        st.trace.append(('quant', tuple(args)))
        return [(st, r)]
    return None


def q_call(eng, f, args, kwargs, st, node):
    if f.k == 'ref' and f.oid == 'cls':
        r = V('obj', oid='a-quant', extra={'args': tuple(args)})
        st.trace.append(('quant', tuple(args)))
        return [(st, r)]
    return None


def q_builtin(eng, name, args, kwargs, st, node):
    if name == 'isinstance' and len(args) == 2 and (
            (args[1].k == 'ref' and args[1].oid == 'cls') or (args[1].k == 'class' and args[1].py == 'Quant')):
        v = args[0]
        return [(st, vbool(v.k == 'obj' and v.oid == 'already-a-quant'))]
    return None


def q_post(kind):
    def post(c):
        made = [e for e in c.trace if e[0] == 'quant']
        r = c.resultv
        q = c._params['quant']
        if kind == 'quant':
            return z3.BoolVal(r is q and not made)                       # a Quant is passed through
        if len(made) != 1 or r.k != 'obj' or r.oid != 'a-quant':
            return z3.BoolVal(False)
        a = made[0][1]
        if kind in ('int', 'real'):
            return z3.BoolVal(len(a) == 1 and a[0] is q)                 # Quant(number): that quant, default phase
        if kind == 'pair':
            return z3.BoolVal(len(a) == 2 and a[0] is q.items[0] and a[1] is q.items[1])   # Quant(quant, phase)
        return z3.BoolVal(len(a) == 0)                                    # None: the defaults
    return post


def pair_kind(eng, name):
    return vtuple([vreal(z3.Real('pair.quant')), vreal(z3.Real('pair.phase'))])


def aq_kind(eng, name):
    return V('obj', oid='already-a-quant')


for kind, pk in (('quant', aq_kind), ('int', 'int'), ('real', 'real'), ('pair', pair_kind), ('none', 'none')):
    contract(F, 'Quant.as_quant', props=('C05', 'C12'), params={'cls': 'cls', 'quant': pk},
             ensures=[('quant-passed-through,number->Quant(n),pair->Quant(q,phase),None->defaults', q_post(kind))],
             hooks={'construct': q_construct, 'call': q_call, 'builtin_first': q_builtin},
             class_modules={'Quant': F}, native=False)
    from vf.pyvc.spec import REGISTRY
    key = '%s::Quant.as_quant#%s' % (F, kind)
    REGISTRY[key] = REGISTRY.pop('%s::Quant.as_quant' % F)
    REGISTRY[key].key = key


def q_other_kind(eng, name):
    return V('obj', oid='something-else')


contract(F, 'Quant.as_quant', props=('C05', 'C12'), params={'cls': 'cls', 'quant': q_other_kind},
         raises={'TypeError': lambda c: z3.BoolVal(True)}, ensures=[],
         on_raise=[('no-quant-made', lambda c: z3.BoolVal(not [e for e in c.trace if e[0] == 'quant']))],
         hooks={'construct': q_construct, 'call': q_call, 'builtin_first': q_builtin},
         class_modules={'Quant': F}, native=False)
key = '%s::Quant.as_quant#other' % F
REGISTRY[key] = REGISTRY.pop('%s::Quant.as_quant' % F)
REGISTRY[key].key = key


# ---- scheduling something that is not a task (no __awake__): it is wrapped, and the WRAPPER is what is scheduled ----
from vf.pyvc.spec import REGISTRY


def wrapped_and_scheduled(when, clock):
    def f(c):
        news = [e for e in c.trace if e[0] == 'new' and e[1] == 'Function']
        ev = sched_events(c)
        if len(news) != 1 or len(ev) != 1:
            return z3.BoolVal(False)
        made = news[0]
        wrapper = made[3] if len(made) > 3 else None
        args = ev[0][2]
        ok = (len(made[2]) == 1 and made[2][0].k == 'ref' and made[2][0].oid == 'item'        # Function(item)
              and wrapper is not None and any(a is wrapper for a in args if isinstance(a, V)))  # the wrapper is scheduled
        if not ok:
            return z3.BoolVal(False)
        wc = c.st.objs.get(wrapper.oid, {}).get('_clock') if wrapper.oid else None
        right_clock = wc is not None and ((clock == 'self' and wc.k == 'ref' and wc.oid == 'self')
                                          or (wc.k == 'class' and wc.py == clock))
        return z3.And(to_real(args[0]) == when(c), z3.BoolVal(bool(right_clock)))
    return f


def wrap_construct(eng, f, args, kwargs, st, node):
    if f.k == 'class' and f.py == 'Function':
        r = V('ref', cls='FnWrapper', oid='the-wrapper')
        st.trace.append(('new', 'Function', tuple(args), r))
        return [(st, r)]
    return None


for _qual, _params, _when, _clock, _extra in (
        ('SystemClock.sched', {'cls': 'cls', 'delta': 'num', 'item': 'ref:PlainCallable'},
         (lambda c: logical_now(c) + c.delta), 'SystemClock', {}),
        ('SystemClock.sched_abs', {'cls': 'cls', 'time': 'num', 'item': 'ref:PlainCallable'},
         (lambda c: c.time), 'SystemClock', {}),
        ('TempoClock.sched', {'self': 'self', 'delta': 'num', 'item': 'ref:PlainCallable'},
         (lambda c: tbeats(c, logical_now(c)) + c.delta), 'self',
         dict(requires=lambda c: z3.Bool('self.__running'),
              inline=('TempoClock._calc_sched_beats', 'TempoClock.secs2beats', 'TempoClock._sched_add_nrt'))),
        ('TempoClock.sched_abs', {'self': 'self', 'beat': 'num', 'item': 'ref:PlainCallable'},
         (lambda c: c.beat), 'self',
         dict(requires=lambda c: z3.Bool('self.__running'), inline=('TempoClock._sched_add_nrt',)))):
    _saved = REGISTRY.pop('%s::%s' % (F, _qual))
    contract(F, _qual, props=('C05', 'C10'), params=_params,
             ensures=[('plain-callable-wrapped;the-wrapper-scheduled-at-the-same-logical-time-and-remembers-this-clock',
                       wrapped_and_scheduled(_when, _clock))],
             **dict(common, fields=dict(FIELDS, PlainCallable={}, FnWrapper={'_clock': 'obj'}),
                    hooks={'getattr': h_mode, 'construct': wrap_construct},
                    class_modules=dict(CM, PlainCallable=F, FnWrapper=F)), **_extra)
    _key = '%s::%s#plain-callable' % (F, _qual)
    REGISTRY[_key] = REGISTRY.pop('%s::%s' % (F, _qual))
    REGISTRY[_key].key = _key
    REGISTRY['%s::%s' % (F, _qual)] = _saved


# ---- AppClock: plain callable in non-real-time; the real-time branch hands the item to the tick scheduler and wakes it
_saved = REGISTRY.pop('%s::AppClock.sched' % F)
contract(F, 'AppClock.sched', props=('C05', 'C10'),
         params={'cls': 'cls', 'delta': 'num', 'item': 'ref:PlainCallable'},
         ensures=[('plain-callable-wrapped;the-wrapper-scheduled-at-the-same-logical-time-and-remembers-this-clock',
                   wrapped_and_scheduled(lambda c: logical_now(c) + c.delta, 'AppClock'))],
         **dict(common, hooks={'getattr': h_mode_app, 'construct': wrap_construct},
                fields=dict(FIELDS, AppClock={'_sched_lock': 'obj', '_scheduler': 'obj', '_tick_cond': 'obj'},
                            PlainCallable={}, FnWrapper={'_clock': 'obj'}),
                class_modules=dict(CM, AppClock=F, PlainCallable=F, FnWrapper=F)))
_key = '%s::AppClock.sched#plain-callable' % F
REGISTRY[_key] = REGISTRY.pop('%s::AppClock.sched' % F)
REGISTRY[_key].key = _key


def h_mode_app_rt(eng, obj, name, st, node):
    if obj.k == 'class' and obj.py == 'AppClock' and name == 'mode':
        return [(st, vint(1))]           # the real-time mode
    if obj.k == 'obj' and obj.oid == 'cls:AppClock._scheduler' and name == 'sched':
        def sch(eng, args, kwargs, st, node):
            st.trace.append(('tick-scheduler.sched', tuple(args)))
            return [(st, NONE)]
        return [(st, V('func', py=('spec', sch)))]
    return None


def app_rt_post(c):
    t = c.trace
    sch = [e for e in t if e[0] == 'tick-scheduler.sched']
    notes = [e for e in t if e[0] == 'call' and e[2] == 'notify' and 'tick_cond' in str(e[1])]
    ok = (len(sch) == 1 and len(sch[0][1]) == 2 and sch[0][1][0] is c._params['delta']
          and sch[0][1][1] is c._params['item']                                  # this delta, this item
          and len(notes) == 1 and t.index(sch[0]) < t.index(notes[0])             # THEN the tick thread is woken
          and not sched_events(c))
    return z3.BoolVal(bool(ok))


contract(F, 'AppClock.sched', props=('C05', 'C10'),
         params={'cls': 'cls', 'delta': 'num', 'item': 'ref:Routine'},
         ensures=[('real-time:handed-to-the-tick-scheduler-once,then-the-tick-thread-is-woken', app_rt_post)],
         **dict(common, hooks={'getattr': h_mode_app_rt},
                fields=dict(FIELDS, AppClock={'_sched_lock': 'obj', '_scheduler': 'obj', '_tick_cond': 'obj'}),
                class_modules=dict(CM, AppClock=F)))
_key = '%s::AppClock.sched#real-time' % F
REGISTRY[_key] = REGISTRY.pop('%s::AppClock.sched' % F)
REGISTRY[_key].key = _key
REGISTRY['%s::AppClock.sched' % F] = _saved
