"""C13 - patterns denote the sequences their definitions say, compositionally.

Sub-checks (``--only``):

den      every enumerated / generated pattern expression, streamed through the
         public routes (``iter(pattern)`` + ``itertools.islice``,
         ``stream.next()`` until ``StopStream``, and for finite ones
         ``stream.all()`` / ``list(pattern)``), equals ``den(expr)`` of
         vf/specs/patterns.py on the first 64 items.
immut    (same expressions) a second stream of the same pattern object gives
         the same sequence, two streams advanced alternately give what they
         give apart, and the attribute state of the pattern object (recursive
         snapshot of ``__dict__`` through sub-patterns and lists) is the same
         before and after streaming.
random   Pseed-wrapped random leaves (Pwhite, Prand, Pxrand, Pshuffle, Pbrown):
         determinism (fresh stream, fresh object, fresh sub-processes, draws
         of other routines in between), support, length, re-seeding with a
         constant seed, and embedding inside deterministic patterns (``den``
         with the observed leaf values as oracle - the generator is never
         replayed).
"""

import itertools
import json
import math
import multiprocessing
import os
import signal
import subprocess
import sys

from vf.common import Report, driver_main, wants, silence_sc3_logging
from vf.specs import patterns as ps
from vf.specs.patterns import INF, Unspecified, is_pat

LIMIT = 64
NPROC = 16
CASE_TIMEOUT = 5      # s; a pattern that needs longer for 64 items hangs
I = INF


# ---------------------------------------------------------------------------
# expressions
# ---------------------------------------------------------------------------

def enc(expr):
    return repr(expr)


def dec(text):
    return eval(text, {'__builtins__': {}}, {'inf': INF})


def subpatterns(e):
    """Proper sub-expressions that are patterns (pre-order)."""
    def walk(x, top):
        if is_pat(x):
            if not top:
                yield x
            for a in x[1:]:
                yield from walk(a, False)
        elif isinstance(x, list):
            for a in x:
                yield from walk(a, False)
    return walk(e, True)


def depth(e):
    if is_pat(e):
        return 1 + max([depth(a) for a in e[1:]] + [0])
    if isinstance(e, list):
        return max([depth(a) for a in e] + [0])
    return 0


def variant(e):
    name = e[0]
    if name in ('Punop', 'Pbinop', 'Pnarop'):
        return name + '.' + e[1]
    if name == 'Pslide':
        return 'Pslide.' + ('wrap' if e[6] else 'nowrap')
    return name


POOL = [
    ('Pseq', [1, 2, 3], 1, 0), ('Pseq', [1, 2, 3], 2, 1),
    ('Pseq', [1, 2, 3], I, 0), ('Pseq', [4], 1, 0), ('Pseq', [1, 2, 3], 0, 0),
    ('Pser', [1, 2, 3], 4, 1), ('Pser', [1, 2, 3], I, 0),
    ('Pn', 7, 3), ('Pn', 7, I),
    ('Pseries', 0, 1, 3), ('Pseries', 5, -2, I), ('Pseries', 0.0, 0.5, 4),
    ('Pseries', 0, 1, 0),
    ('Pgeom', 1, 2, 4), ('Pgeom', 3, -1, I),
    ('Place', [1, [2, 3]], 2, 0), ('Place', [1, [2, 3]], I, 1),
    ('Pslide', [1, 2, 3, 4], 2, 3, 1, 0, True),
    ('Pslide', [1, 2, 3, 4], 3, 2, 2, 1, False),
    ('Pslide', [1, 2, 3, 4], I, 2, -1, 0, True),
    ('Plen', 2, 7),
    ('Pseq', [1, 2], 2, 0), ('Pseq', [3, 1, 2], 1, 2), ('Pser', [1, 2, 3], 2, 2),
    ('Pseries', 1, 2, 5), ('Pseries', -3, 1, I), ('Pgeom', 1, -2, 6),
    ('Pgeom', 2, 1, I), ('Place', [[1, 2], [3, 4, 5]], 3, 0),
    ('Pslide', [1, 2, 3, 4], 3, 1, -1, 2, False),
    ('Pslide', [1, 2, 3, 4], 2, 2, 1, 3, False),
    ('Pconst', 5, 2), ('Pswitch1', [1, 2, 3], 1), ('Pser', [4, 5], 8, 0),
]
SMALL = [POOL[0], POOL[2], POOL[9], POOL[7], POOL[4], POOL[13], POOL[24],
         POOL[33]]
NATS = [('Pseq', [1, 2], 1, 0), ('Pseq', [2, 0, 1], I, 0), ('Pseries', 0, 1, 3)]
IDX2 = [0, 1, ('Pseq', [0, 1, 1, 0], 1, 0), ('Pseq', [1, 0], I, 0)]
BOOLS = [True, False, ('Pseq', [True, False, False, True], 1, 0),
         ('Pseq', [True, False], I, 1), ('Pser', [False, True, True], 5, 0)]
FLOATS = [('Pseries', 0.0, 0.5, 6), ('Pgeom', 4.0, 0.5, I)]


def offsets(lst):
    return range(min(len(lst), 3))


def depth1():
    for lst in ([1, 2, 3], [4], [1, 2]):
        for o in offsets(lst):
            for r in (0, 1, 2, I):
                yield ('Pseq', lst, r, o)
            for r in (0, 1, 2, 4, I):
                yield ('Pser', lst, r, o)
    for r in (0, 1, 3, I):
        yield ('Pn', 7, r)
    for n in (0, 1, 2, 3):
        yield ('Plen', n, 7)
        yield ('Pdrop', n, 7)
        yield ('Pstutter', n, 7)
    for n in (1, 2, 3):
        yield ('Pclump', n, 7)
        yield ('Pflatten', n, 7)
    yield ('Pdiff', 7)
    for s in (0, 3, 5, -1):
        yield ('Pconst', s, 2)
        yield ('Pconst', s, 2, 0.001)
    # decimal steps whose binary partial sums land just below the target: the
    # tolerance must make the stream end exactly where the exact sum is reached
    yield ('Pconst', 1.0, 0.1)
    yield ('Pconst', 1.0, 0.1, 0.001)
    yield ('Pconst', 1, ('Pseq', [0.7, 0.1, 0.1, 0.1, 5], 1, 0))
    yield ('Pconst', 0.3, ('Pseq', [0.1, 0.2, 4], 1, 0))
    yield ('Pconst', 2.4, 0.3, 0.01)
    for w in (0, 1, 2):
        yield ('Pswitch', [1, 2, 3], w)
        yield ('Pswitch1', [1, 2, 3], w)
    for lst in ([1, [2, 3], [4, 5, 6]], [[1, 2]], [1, 2], [[1, 2, 3], 9]):
        for o in offsets(lst):
            for r in (0, 1, 2, 3, 4, I):
                yield ('Place', lst, r, o)
    for lst in ([1, 2], [5]):
        for r in (1, 2):
            yield ('Ptuple', lst, r)
    for r in (0, 1, 2, 3, I):
        for ln in (0, 1, 3, 6):
            for st in (1, -1, 2, 0):
                for start in (0, 2):
                    for wr in (True, False):
                        yield ('Pslide', [1, 2, 3, 4, 5], r, ln, st, start, wr)
    for start in (0, 5, 0.5):
        for st in (1, -2, 0.5, 0):
            for ln in (0, 1, 3, I):
                yield ('Pseries', start, st, ln)
    for start in (1, 3, -2):
        for gr in (2, -1, 0.5):
            for ln in (0, 1, 3, I):
                yield ('Pgeom', start, gr, ln)
    for f in ('inc', 'dbl'):
        yield ('Pcollect', f, 7)
    for f in ('pos', 'even'):
        yield ('Pselect', f, 7)
        yield ('Preject', f, 7)
    for c in (True, False):
        yield ('Pif', c, 1, 2)
    yield ('Pwrap', 7, 0, 3)
    yield ('Pwrap', 7.5, 0.0, 3.0)
    yield ('Pwrap', -1, 2, 5)


def depth2():
    P = POOL
    for p in P:
        for r in (0, 1, 2, I):
            yield ('Pn', p, r)
        for n in (0, 1, 2, 3):
            yield ('Plen', n, p)
            yield ('Pdrop', n, p)
        for n in [0, 1, 2, 3] + NATS:
            yield ('Pstutter', n, p)
        for n in [1, 2, 3] + NATS[:1] + [('Pseq', [2, 1], I, 0)]:
            yield ('Pclump', n, p)
            for k in (1, 2):
                yield ('Pflatten', k, ('Pclump', n, p))     # depth-3 slice
        for k in (1, 2):
            yield ('Pflatten', k, p)
        yield ('Pdiff', p)
        for s in (0, 3, 5, 10):
            yield ('Pconst', s, p)
        yield ('Pconst', 4, p, 0.01)
        for f in ('inc', 'dbl', 'sqr'):
            yield ('Pcollect', f, p)
        for f in ('even', 'pos', 'small'):
            yield ('Pselect', f, p)
            yield ('Preject', f, p)
        for lo, hi in ((0, 3), (1, 2), (-2, 2)):
            yield ('Pwrap', p, lo, hi)
        yield ('Pwrap', p, ('Pseq', [0, 1], I, 0), 3)
        yield ('Pwrap', p, 0, ('Pseq', [2, 3, 4], 1, 0))
        for op in ('neg', 'abs'):
            yield ('Punop', op, p)
        for op in ('add', 'sub', 'mul', 'lt', 'ge', 'min', 'max'):
            for k in (2, -1):
                yield ('Pbinop', op, p, k)
                yield ('Pbinop', op, k, p)
            for q in SMALL:
                yield ('Pbinop', op, p, q)
        for lo, hi in ((0, 2), (1, 1), (-3, 5)):
            yield ('Pnarop', 'clip', p, lo, hi)
        for q in SMALL:
            yield ('Pnarop', 'clip', p, 0, q)
            yield ('Pnarop', 'clip', p, q, 9)
        # list patterns with the sub-pattern in every slot
        shapes = [[p], [0, p], [p, 0], [0, p, 9]] + [[p, q] for q in SMALL]
        for lst in shapes:
            for o in offsets(lst)[:2]:
                for r in (1, 2, I):
                    yield ('Pseq', lst, r, o)
                for r in (1, 2, 4, I):
                    yield ('Pser', lst, r, o)
        for lst in ([p, 9], [9, p]) + tuple([p, q] for q in SMALL):
            for w in IDX2:
                yield ('Pswitch', lst, w)
                yield ('Pswitch1', lst, w)
        for lst in ([p, [2, 3]], [[p, 8], 1], [0, [8, p, 9]]):
            for o in (0, 1):
                for r in (1, 2, 3, I):
                    yield ('Place', lst, r, o)
        for q in SMALL:
            yield ('Place', [1, [p, q]], 3, 0)
        for lst in ([p, 1], [1, p]) + tuple([p, q] for q in SMALL):
            for r in (1, 2, I):
                yield ('Ptuple', lst, r)
        for r in (1, 2, I):
            for ln in (1, 2, 3):
                for st in (1, -1):
                    for wr in (True, False):
                        yield ('Pslide', [p, 8, 9], r, ln, st, 0, wr)
        for q in NATS:
            yield ('Pslide', [1, 2, 3, 4], 3, q, 1, 0, True)
            yield ('Pslide', [1, 2, 3, 4], I, 2, q, 0, True)
            yield ('Pslide', [1, 2, 3, 4], 4, q, q, 1, False)
        for ln in (3, I):
            yield ('Pseries', 0, p, ln)
            yield ('Pgeom', 1, p, ln)
        for c in BOOLS:
            for q in SMALL + [5]:
                yield ('Pif', c, p, q)
                yield ('Pif', c, q, p)
    for p in FLOATS:
        for lo, hi in ((0.0, 1.5), (-1.0, 1.0)):
            yield ('Pwrap', p, lo, hi)
            yield ('Pnarop', 'clip', p, lo, hi)
            yield ('Pnarop', 'wrap', p, lo, hi)
        for k in (0.5, 2.0):
            for op in ('add', 'sub', 'mul', 'lt'):
                yield ('Pbinop', op, p, k)
    for p in POOL[:6]:
        yield ('Pnarop', 'wrap', p, 0, 2)


# -- seeded random expressions ------------------------------------------------

def gen_nat(rng, hi=3, allow_zero=True):
    lo = 0 if allow_zero else 1
    k = rng.randrange(5)
    vals = [rng.randint(lo, hi) for _ in range(rng.randint(1, 3))]
    if k == 0:
        return rng.randint(lo, hi)
    if k == 1:
        return ('Pseq', vals, rng.choice([1, 2, I]), 0)
    if k == 2:
        return ('Pser', vals, rng.choice([1, 3, 5, I]), 0)
    if k == 3:
        return ('Pn', rng.randint(lo, hi), rng.choice([2, I]))
    return ('Pseries', lo, 1, hi - lo + 1)


def gen_bool(rng, d):
    k = rng.randrange(4)
    if d <= 1 or k == 0:
        vals = [rng.random() < 0.5 for _ in range(rng.randint(1, 4))]
        return ('Pseq', vals, rng.choice([1, 2, I]), 0)
    if k == 1:
        return ('Pbinop', rng.choice(['lt', 'ge', 'le', 'gt']),
                gen_num(rng, d - 1), rng.randint(-1, 4))
    if k == 2:
        return ('Pcollect', rng.choice(['even', 'pos', 'small']),
                gen_num(rng, d - 1))
    return ('Pif', gen_bool(rng, d - 1), gen_bool(rng, d - 1),
            rng.random() < 0.5)


def gen_item(rng, d, gen):
    if d <= 0 or rng.random() < 0.35:
        return rng.randint(-3, 9)
    return gen(rng, d)


def gen_list(rng, d, gen):
    return [gen_item(rng, d, gen) for _ in range(rng.randint(1, 3))]


def gen_generic(rng, d, gen):
    """Constructors that work on any kind of value; children from `gen`."""
    k = rng.randrange(12)
    sub = lambda: gen(rng, d - 1) if d > 1 else rng.randint(-3, 9)
    if k == 0:
        lst = gen_list(rng, d - 1, gen)
        return ('Pseq', lst, rng.choice([0, 1, 2, 3, I]),
                rng.randrange(len(lst)))
    if k == 1:
        lst = gen_list(rng, d - 1, gen)
        return ('Pser', lst, rng.choice([0, 1, 2, 4, 7, I]),
                rng.randrange(len(lst)))
    if k == 2:
        return ('Pn', sub(), rng.choice([0, 1, 2, 3, I]))
    if k == 3:
        return ('Plen', rng.randint(0, 9), sub())
    if k == 4:
        return ('Pdrop', rng.randint(0, 5), sub())
    if k == 5:
        return ('Pstutter', gen_nat(rng), sub())
    if k == 6:
        lst = gen_list(rng, d - 1, gen)
        return ('Pswitch', lst, gen_nat(rng, len(lst) - 1))
    if k == 7:
        lst = gen_list(rng, d - 1, gen)
        return ('Pswitch1', lst, gen_nat(rng, len(lst) - 1))
    if k == 8:
        lst = gen_list(rng, d - 1, gen)
        j = rng.randrange(len(lst))
        if rng.random() < 0.7:
            lst[j] = gen_list(rng, d - 1, gen)
        return ('Place', lst, rng.choice([0, 1, 2, 3, 5, I]),
                rng.randrange(len(lst)))
    if k == 9:
        lst = [gen_item(rng, d - 1, gen) for _ in range(rng.randint(2, 5))]
        return ('Pslide', lst, rng.choice([0, 1, 2, 3, I]),
                gen_nat(rng, 4), rng.choice([1, 1, 2, -1, -2, 0]),
                rng.randrange(len(lst)), rng.random() < 0.6)
    if k == 10:
        return ('Pif', gen_bool(rng, d - 1), sub(), sub())
    lst = gen_list(rng, d - 1, gen)
    return ('Pser', lst, rng.choice([1, 2, 4, I]), 0)


def gen_num(rng, d):
    if d <= 1:
        k = rng.randrange(6)
        if k == 0:
            return ('Pseries', rng.randint(-2, 5), rng.choice([1, 2, -1, 0]),
                    rng.choice([0, 1, 3, 6, I]))
        if k == 1:
            return ('Pgeom', rng.choice([1, 2, -1, 3]), rng.choice([2, -1, 1]),
                    rng.choice([0, 1, 3, 5, I]))
        return gen_generic(rng, 1, gen_num)
    k = rng.randrange(16)
    sub = lambda: gen_num(rng, d - 1)
    if k < 6:
        return gen_generic(rng, d, gen_num)
    if k == 6:
        return ('Pdiff', sub())
    if k == 7:
        return ('Pconst', rng.randint(-2, 12), sub())
    if k == 8:
        name = rng.choice(['Pcollect', 'Pselect', 'Preject'])
        f = rng.choice(['inc', 'dbl', 'sqr'] if name == 'Pcollect'
                       else ['even', 'pos', 'small'])
        return (name, f, sub())
    if k == 9:
        lo = rng.randint(-2, 2)
        return ('Pwrap', sub(), lo, lo + rng.randint(1, 4))
    if k == 10:
        return ('Punop', rng.choice(['neg', 'abs']), sub())
    if k == 11:
        op = rng.choice(['add', 'sub', 'mul', 'min', 'max'])
        a = sub()
        b = sub() if rng.random() < 0.6 else rng.randint(-2, 4)
        return ('Pbinop', op, b, a) if rng.random() < 0.3 else \
            ('Pbinop', op, a, b)
    if k == 12:
        lo = rng.randint(-2, 2)
        hi = lo + rng.randint(0, 5)
        return ('Pnarop', 'clip', sub(),
                lo if rng.random() < 0.7 else ('Pn', lo, rng.choice([3, I])),
                hi)
    if k == 13:
        return ('Pflatten', rng.choice([1, 2]),
                ('Pclump', gen_nat(rng, 3, False), sub()))
    if k == 14:
        name = rng.choice(['Pseries', 'Pgeom'])
        return (name, rng.randint(-1, 3),
                ('Pseq', [rng.randint(-2, 2) for _ in range(rng.randint(1, 3))],
                 I, 0), rng.choice([2, 5, I]))
    return ('Pstutter', gen_nat(rng), sub())


def gen_any(rng, d):
    if d <= 1 or rng.random() < 0.5:
        return gen_num(rng, max(d, 1))
    k = rng.randrange(4)
    if k == 0:
        return ('Pclump', gen_nat(rng, 3, False), gen_num(rng, d - 1))
    if k == 1:
        return ('Ptuple', [gen_item(rng, d - 1, gen_num)
                           for _ in range(rng.randint(1, 3))],
                rng.choice([1, 1, 2, I]))
    return gen_generic(rng, d, gen_any)


# ---------------------------------------------------------------------------
# observation of the real pattern
# ---------------------------------------------------------------------------

class Hang(BaseException):
    pass


def _alarm(signum, frame):
    raise Hang()


def real_iter(p, limit=LIMIT):
    return list(itertools.islice(iter(p), limit))


def real_next(p, limit=LIMIT):
    from sc3.base.stream import StopStream, stream
    s = stream(p)
    out = []
    try:
        while len(out) < limit:
            out.append(s.next())
    except StopStream:
        pass
    return out


def real_interleaved(p, limit=LIMIT):
    from sc3.base.stream import StopStream
    a, b = p.__stream__(), p.__stream__()
    oa, ob = [], []
    da = db = False
    while not (da and db) and (len(oa) < limit or len(ob) < limit):
        if not da and len(oa) < limit:
            try:
                oa.append(a.next())
            except StopStream:
                da = True
        if not db and len(ob) < limit:
            try:
                ob.append(b.next())
            except StopStream:
                db = True
        if (da or len(oa) >= limit) and (db or len(ob) >= limit):
            break
    return oa, ob


def snapshot(o, seen=None):
    """Recursive attribute state of a pattern; no sc3 object ends up inside
    (AbstractObject overloads ==)."""
    from sc3.seq.pattern import Pattern
    if seen is None:
        seen = set()
    if isinstance(o, Pattern):
        if id(o) in seen:
            return ('cycle', type(o).__name__)
        seen = seen | {id(o)}
        return (type(o).__name__,
                tuple(sorted((k, snapshot(v, seen))
                             for k, v in vars(o).items())))
    if isinstance(o, (list, tuple)):
        return (type(o).__name__, tuple(snapshot(x, seen) for x in o))
    if isinstance(o, dict):
        return ('dict', tuple(sorted((repr(k), snapshot(v, seen))
                                     for k, v in o.items())))
    if isinstance(o, (int, float, str, bool, type(None))):
        return ('v', repr(o))
    return ('obj', type(o).__name__, id(o))


def finite_ok(values):
    for v in values:
        if isinstance(v, (list, tuple)):
            if not finite_ok(v):
                return False
        elif isinstance(v, float) and not math.isfinite(v):
            return False
    return True


def first_diff(a, b):
    for i, (x, y) in enumerate(zip(a, b)):
        if not ps.same(x, y):
            return i
    return min(len(a), len(b))


def check_expr(expr, oracle=None, routes=True):
    """Returns (status, fails); status in ok/unspec; fails = list of dicts
    {ob, what, observed, expected} (empty = contract holds)."""
    signal.setitimer(signal.ITIMER_PROF, CASE_TIMEOUT)
    try:
        want = ps.den(expr, LIMIT + 1, oracle)
    except Unspecified as e:
        return 'unspec:' + type(e).__name__, []
    except (OverflowError, ZeroDivisionError):
        return 'unspec:arith', []
    except Hang:
        return 'unspec:den-timeout', []
    finally:
        signal.setitimer(signal.ITIMER_PROF, 0)
    if not finite_ok(want):
        return 'unspec:nonfinite', []
    finite = len(want) <= LIMIT
    want = want[:LIMIT]
    fails = []

    def fail(ob, what, observed=None, expected=None):
        fails.append({'ob': ob, 'what': what, 'observed': observed,
                      'expected': expected})

    signal.setitimer(signal.ITIMER_PROF, CASE_TIMEOUT)
    try:
        try:
            p = ps.build(expr)
            before = snapshot(p)
            got = real_iter(p)
        except Hang:
            fail('hang', 'no 64 values within %d s of CPU time' % CASE_TIMEOUT,
                 None, want)
            return 'ok', fails
        except Exception as e:
            fail('exception', 'streaming raised %s: %s' % (type(e).__name__, e),
                 repr(e), want)
            return 'ok', fails
        if not ps.same(got, want):
            i = first_diff(got, want)
            fail('den', 'item %d: got %r, documented %r' % (
                i, got[i:i + 1], want[i:i + 1]), got, want)
        try:
            got2 = real_next(p)
            if not ps.same(got2, got):
                fail('immut.second-stream',
                     'a second stream of the same pattern object differs '
                     'at item %d' % first_diff(got2, got), got2, got)
            oa, ob = real_interleaved(p)
            if not (ps.same(oa, got) and ps.same(ob, got)):
                fail('immut.interleave',
                     'two streams advanced alternately differ from a '
                     'stream run alone', [oa, ob], got)
            if routes and finite and not fails:
                got3 = p.__stream__().all()
                got4 = list(p)
                if not (ps.same(got3, got) and ps.same(got4, got)):
                    fail('den', 'stream.all()/list(pattern) differ from '
                         'islice(iter(pattern))', [got3, got4], got)
            after = snapshot(p)
            if after != before:
                fail('immut.state', 'attribute state of the pattern object '
                     'changed by streaming', repr(after)[:400],
                     repr(before)[:400])
        except Hang:
            fail('hang', 'second stream: no 64 values within %d s of CPU time'
                 % CASE_TIMEOUT, None, want)
        except Exception as e:
            fail('immut.exception', 'second/interleaved stream raised %s: %s'
                 % (type(e).__name__, e), repr(e), got)
    finally:
        signal.setitimer(signal.ITIMER_PROF, 0)
    return 'ok', fails


def group(ob):
    return 'immut' if ob.startswith('immut') else 'den'


def fails_with(expr, grp, oracle=None):
    try:
        _, fails = check_expr(expr, oracle)
    except Exception:
        return None
    for f in fails:
        if group(f['ob']) == grp:
            return f
    return None


def shrink(expr, grp, oracle=None):
    """Smallest failing sub-expression (sub-pattern descent)."""
    cur = expr
    progress = True
    while progress:
        progress = False
        subs = sorted(set(enc(s) for s in subpatterns(cur)), key=len)
        for s in subs:
            e = dec(s)
            if fails_with(e, grp, oracle) is not None:
                cur = e
                progress = True
                break
    return cur


def _worker(text):
    expr = dec(text)
    status, fails = check_expr(expr)
    if any(f['ob'] == 'hang' for f in fails):
        status, fails = check_expr(expr)        # a hang must repeat
    out = []
    done = set()
    for f in fails:
        grp = group(f['ob'])
        if grp in done:
            continue
        done.add(grp)
        small = shrink(expr, grp)
        if small is not expr:
            g = fails_with(small, grp)
            if g is not None:
                f = dict(g)
        f['expr'] = enc(small)
        f['variant'] = variant(small)
        out.append(f)
    n = 0
    if status == 'ok':
        try:
            n = len(ps.den(expr, 1))
        except Exception:
            n = 0
    return text, status, n, out


def _init_worker():
    signal.signal(signal.SIGPROF, _alarm)


def run_cases(rep, name, texts, bound, rule, exhaustive):
    """Runs the den+immut contract over `texts` (encoded expressions)."""
    texts = list(dict.fromkeys(texts))
    ctx = multiprocessing.get_context('fork')
    stats = {}
    nontrivial = set()
    samples = []
    nfail = 0
    with ctx.Pool(NPROC, initializer=_init_worker) as pool:
        for text, status, n, fails in pool.imap(_worker, texts, chunksize=64):
            stats[status] = stats.get(status, 0) + 1
            if status == 'ok' and n > 0:
                nontrivial.add(text)
                if len(samples) < 5 and len(nontrivial) % 997 == 1:
                    samples.append(text)
            for f in fails:
                nfail += 1
                ob = f['ob']
                rep.violation(
                    obligation='C13.' + ob,
                    what='%s: %s' % (f['expr'], f['what']),
                    input=f['expr'], observed=f['observed'],
                    expected=f['expected'],
                    key='C13.%s:%s' % (group(ob), f['variant']),
                    replay={'func': 'expr', 'args': f['expr'], 'ob': ob})
    checked = stats.get('ok', 0)
    unspec = {k: v for k, v in stats.items() if k != 'ok'}
    extra = {'unspecified_left_out': unspec, 'failing_checks': nfail}
    if wants(rep, 'den'):
        rep.bounded(
            name='den-' + name,
            function='sc3.seq.patterns.* / sc3.seq.pattern.P{un,bin,nar}op '
                     '__stream__/__embed__ via iter(), Stream.next(), all()',
            bound=bound, evaluations=checked,
            distinct_nontrivial=len(nontrivial), rule=rule, samples=samples,
            exhaustive=exhaustive, extra=extra)
    if wants(rep, 'immut'):
        rep.bounded(
            name='immut-' + name,
            function='Pattern.__stream__ (two streams, alternating next, '
                     'recursive __dict__ snapshot)',
            bound=bound, evaluations=checked,
            distinct_nontrivial=len(nontrivial),
            rule='same expressions as den-%s; non-trivial = yields a value'
                 % name, samples=samples, exhaustive=exhaustive)
    return stats


# ---------------------------------------------------------------------------
# random patterns
# ---------------------------------------------------------------------------

LEAVES = [
    ('Pwhite', 0, 3, 8), ('Pwhite', 0.0, 1.0, 8), ('Pwhite', -2, 2, 5),
    ('Pwhite', 5, 5, 3), ('Pwhite', 0, 100, 0),
    ('Prand', [1, 2, 3], 6), ('Prand', [4], 3),
    ('Prand', [1, ('Pseq', [7, 8], 1, 0)], 5),
    ('Pxrand', [1, 2, 3], 8), ('Pxrand', [1, 2], 6),
    ('Pxrand', [1, 2, 3, 4, 5], 16),
    ('Pshuffle', [1, 2, 3], 2), ('Pshuffle', [1, 2, 3, 4], 1),
    ('Pshuffle', [1, ('Pseq', [7, 8], 1, 0), 3], 2),
    ('Pbrown', 0, 10, 2, 8), ('Pbrown', 0.0, 1.0, 0.125, 12),
    ('Pbrown', -5, 5, 1, 16),
]
COMPOSITES = [      # determinism only
    ('Pseq', [('Prand', [1, 2, 3], 3), ('Pwhite', 0.0, 1.0, 2)], 2, 0),
    ('Pbinop', 'add', ('Pwhite', 0, 9, 6), ('Pxrand', [10, 20, 30], 6)),
    ('Pstutter', ('Pwhite', 1, 3, 4), ('Prand', [1, 2, 3], 4)),
    ('Pswitch', [1, 2, 3], ('Pwhite', 0, 2, 7)),
    ('Pn', ('Pwhite', 0, 1000, 2), 3),
]
SEEDS = [0, 1, 12345]


def one_shot(seed, rexpr):
    return ('Pseed', ('Pn', seed, 1), rexpr)


def contexts(x):
    return [
        ('Pseq', [1, x], 2, 0), ('Pseq', [x, x], 1, 1), ('Pn', x, 2),
        ('Pser', [x, 0], 3, 0),
        ('Pstutter', 2, x), ('Plen', 3, x), ('Pdrop', 2, x),
        ('Pclump', 2, x), ('Pflatten', 1, ('Pclump', 3, x)),
        ('Ptuple', [x, x], 1), ('Ptuple', [x, 5], 2),
        ('Pswitch', [x, 9], ('Pseq', [0, 1, 0], 1, 0)),
        ('Pswitch1', [x, 9], ('Pseq', [0, 1, 0, 0], 1, 0)),
        ('Place', [0, [x, 5]], 3, 0),
        ('Pif', ('Pseq', [True, False], I, 0), x, 0),
        ('Pslide', [x, 8, 9], 2, 2, 1, 0, True),
    ]


def num_contexts(x):
    return [
        ('Pbinop', 'add', x, 10), ('Pbinop', 'sub', 10, x),
        ('Pbinop', 'add', x, x), ('Punop', 'neg', x), ('Pdiff', x),
        ('Pcollect', 'dbl', x), ('Pbinop', 'mul', x, ('Pseries', 1, 1, 3)),
    ]


def observe_leaves(pairs):
    """[(seed, rexpr)] -> {enc: values | {'exc': ...}} on this process."""
    out = {}
    for seed, rexpr in pairs:
        key = enc((seed, rexpr))
        try:
            p = ps.build(one_shot(seed, rexpr))
            out[key] = real_iter(p, 4096)
        except Exception as e:
            out[key] = {'exc': '%s: %s' % (type(e).__name__, e)}
    return out


def _child_random():
    """Entry of the fresh sub-process: stdin = encoded pair list."""
    silence_sc3_logging()
    import warnings
    warnings.simplefilter('ignore')
    import sc3
    sc3.init('nrt')
    pairs = dec(sys.stdin.read())
    res = observe_leaves(pairs)
    sys.stdout.write(json.dumps({k: (v if isinstance(v, dict) else enc(v))
                                 for k, v in res.items()}))


def run_child(pairs, hashseed):
    env = dict(os.environ)
    env['PYTHONHASHSEED'] = str(hashseed)
    r = subprocess.run(
        [sys.executable, '-W', 'ignore', '-c',
         'from vf.drivers.C13 import _child_random; _child_random()'],
        input=enc(pairs), capture_output=True, text=True, env=env, timeout=300)
    if r.returncode != 0:
        raise RuntimeError('random child failed: ' + r.stderr[-2000:])
    data = json.loads(r.stdout)
    return {k: (v if isinstance(v, dict) else dec(v)) for k, v in data.items()}


def check_random(rep):
    from sc3.base import builtins as bi
    from sc3.base.stream import StopStream, Routine
    signal.signal(signal.SIGPROF, _alarm)
    n = 0
    nontrivial = set()
    samples = []
    pairs = [(s, x) for x in LEAVES + COMPOSITES for s in SEEDS]
    table = observe_leaves(pairs)
    broken = set()       # leaf classes that cannot be streamed at all

    def viol(ob, key, what, inp, observed=None, expected=None):
        rep.violation(obligation='C13.random.' + ob, what=what, input=enc(inp),
                      observed=observed, expected=expected,
                      key='C13.random:' + key,
                      replay={'func': 'random', 'args': enc(inp), 'ob': ob})

    for seed, rexpr in pairs:
        key = enc((seed, rexpr))
        vals = table[key]
        n += 1
        if isinstance(vals, dict):
            names = [rexpr[0]] + [s[0] for s in subpatterns(rexpr)]
            cls = next((x for x in names if x in ps.RANDOM), rexpr[0])
            if cls not in broken:
                viol('streams', cls + '-raises',
                     'Pseed(Pn(%r, 1), %s) cannot be streamed: %s'
                     % (seed, enc(rexpr), vals['exc']), (seed, rexpr),
                     vals['exc'], 'a sequence')
            broken.add(cls)
            continue
        nontrivial.add(key)
        if len(samples) < 4 and seed == 1:
            samples.append([key, vals])
        # support / length
        if rexpr in LEAVES:
            try:
                why = ps.support(rexpr, vals)
            except Unspecified:
                why = None
            if why:
                viol('support', rexpr[0] + '-support',
                     'Pseed(%r, %s) gave %r: %s' % (seed, enc(rexpr), vals, why),
                     (seed, rexpr), vals, why)
        # determinism: second stream, fresh object
        p = ps.build(one_shot(seed, rexpr))
        again = real_iter(p, 4096)
        again2 = real_iter(p, 4096)
        n += 2
        if not (ps.same(again, vals) and ps.same(again2, vals)):
            viol('determinism', rexpr[0] + '-determinism',
                 'equal seeds gave different sequences in fresh streams',
                 (seed, rexpr), [again, again2], vals)
        # determinism under draws of other routines / the main thread
        other = ps.build(('Pseed', 999, ('Pwhite', 0, 1000, 5))).__stream__()
        unseeded = ps.build(('Pwhite', 0.0, 1.0, I)).__stream__()

        def rfunc():
            while True:
                yield bi.rand(1000)
        rout = Routine(rfunc)
        s = p.__stream__()
        inter = []
        try:
            while len(inter) < 4096:
                bi.rand(1.0)
                other.next()
                unseeded.next()
                rout.next()
                inter.append(s.next())
        except StopStream:
            pass
        n += 1
        if not ps.same(inter, vals):
            viol('isolation', rexpr[0] + '-isolation',
                 'draws made by other routines between next() calls changed '
                 'the seeded sequence', (seed, rexpr), inter, vals)
        # constant seed: re-seeded on every restart -> periodic
        if vals:
            cyc = real_iter(ps.build(('Pseed', seed, rexpr)), LIMIT)
            want = list(itertools.islice(itertools.cycle(vals), LIMIT))
            n += 1
            if not ps.same(cyc, want):
                viol('reseed', rexpr[0] + '-reseed',
                     'Pseed with a constant seed is not the one-shot sequence '
                     'repeated', (seed, rexpr), cyc, want)

    # fresh processes
    live = [(s, x) for s, x in pairs if not isinstance(table[enc((s, x))], dict)]
    for hs in (0, 4242):
        child = run_child(live, hs)
        for s, x in live:
            k = enc((s, x))
            n += 1
            if isinstance(child[k], dict) or not ps.same(child[k], table[k]):
                viol('process', x[0] + '-process',
                     'equal seeds gave another sequence in a fresh process '
                     '(PYTHONHASHSEED=%d)' % hs, (s, x), child[k], table[k])

    # embedding of seeded leaves inside deterministic patterns
    def oracle(seed, rexpr):
        k = enc((seed, rexpr))
        if k not in table:
            table.update(observe_leaves([(seed, rexpr)]))
        v = table[k]
        if isinstance(v, dict):
            raise Unspecified('leaf does not stream')
        return v

    emb = 0
    emb_unspec = 0
    for seed in SEEDS[:2]:
        for rexpr in LEAVES:
            if rexpr[0] in broken:
                continue
            x = one_shot(seed, rexpr)
            ctxs = contexts(x) + num_contexts(x)
            ctxs.append(('Pseq', [('Pseed', seed, rexpr)], 1, 0))
            for c in ctxs:
                status, fails = check_expr(c, oracle)
                if status != 'ok':
                    emb_unspec += 1
                    continue
                emb += 1
                nontrivial.add(enc(c))
                for f in fails:
                    viol('embed.' + f['ob'], 'embed-in-%s' % variant(c),
                         '%s: %s' % (enc(c), f['what']), c, f['observed'],
                         f['expected'])
    if broken:
        rep.note('C13 random: %s cannot be streamed on this tree; its other '
                 'random contracts were skipped' % sorted(broken))
    rep.bounded(
        name='random',
        function='sc3.seq.patterns.filterpatterns.Pseed + Pwhite/Prand/Pxrand/'
                 'Pshuffle/Pbrown',
        bound='%d leaves + %d composites x seeds %r; 2 fresh sub-processes; '
              '%d embedding contexts' % (len(LEAVES), len(COMPOSITES), SEEDS,
                                         emb),
        evaluations=n + emb, distinct_nontrivial=len(nontrivial),
        rule='determinism (streams, objects, processes, foreign draws), '
             'support per documentation, constant-seed periodicity, den() of '
             'deterministic contexts with observed leaf values as oracle; '
             'the generator is never replayed',
        samples=samples, exhaustive=True,
        extra={'embedding_unspecified': emb_unspec})


# ---------------------------------------------------------------------------

# ---- input threading: a sub-pattern embedded in place sees the same input values as when it is streamed alone ----------
def _echo_gen(inval):
    while True:
        inval = yield inval


def _echo_gen_twice(inval):
    while True:
        inval = yield (inval, 'a')
        inval = yield (inval, 'b')


def _echo_fn(inval):
    return inval


THREADING = {
    'Prout(echo)': lambda P: P['Prout'](_echo_gen),
    'Prout(echo2)': lambda P: P['Prout'](_echo_gen_twice),
    'Pfuncn(echo,inf)': lambda P: P['Pfuncn'](_echo_fn, float('inf')),
    'Plazy(Pfuncn(echo))': lambda P: P['Plazy'](lambda inval: P['Pfuncn'](_echo_fn, float('inf'))),
    'Pfunc(echo)': lambda P: P['Pfunc'](_echo_fn),
}
WRAPS = {
    'Pseq([x])': lambda P, x: P['Pseq']([x]),
    'Pn(x,1)': lambda P, x: P['Pn'](x, 1),
    'Pseq([Pseq([x])])': lambda P, x: P['Pseq']([P['Pseq']([x])]),
    'Pswitch([x],0)': lambda P, x: P['Pswitch']([x], P['Pseq']([0])),
    # filters that are the identity for these arguments
    'Plen(x,10)': lambda P, x: P['Plen'](x, 10),
    'Pdrop(x,0)': lambda P, x: P['Pdrop'](x, 0),
    'Pstutter(x,1)': lambda P, x: P['Pstutter'](x, 1),
    'Pcollect(id,x)': lambda P, x: P['Pcollect'](lambda v: v, x),
    'Pselect(true,x)': lambda P, x: P['Pselect'](lambda v: True, x),
    'Place([x])': lambda P, x: P['Place']([x]),
    'Platch(x,True)': lambda P, x: P['Platch'](x, True),
    'Plazy(->x)': lambda P, x: P['Plazy'](lambda inval: x),
}
INPUT_RUNS = [(10, 20, 30, 40), ('u', 'v', 'w'), (1,), (0, 0, 7, 0, 9)]


def check_threading(rep, only_case=None):
    from sc3.base.stream import stream, StopStream
    from sc3.seq.patterns import funcpatterns as fp, listpatterns as lp, filterpatterns as flp
    P = {'Prout': fp.Prout, 'Pfuncn': fp.Pfuncn, 'Plazy': fp.Plazy, 'Pfunc': fp.Pfunc,
         'Pseq': lp.Pseq, 'Pn': flp.Pn, 'Pswitch': lp.Pswitch, 'Plen': flp.Plen, 'Pdrop': flp.Pdrop,
         'Pstutter': flp.Pstutter, 'Pcollect': flp.Pcollect, 'Pselect': flp.Pselect, 'Place': lp.Place,
         'Platch': flp.Platch}

    def run(pat, inputs):
        st = stream(pat)
        out = []
        for i in inputs:
            try:
                out.append(st.next(i))
            except StopStream:
                out.append('<end>')
                break
        return out

    n = 0
    seen = set()
    samples = []
    for name, mk in THREADING.items():
        for wname, wrap in WRAPS.items():
            for inputs in INPUT_RUNS:
                case = '%s in %s with inputs %r' % (name, wname, inputs)
                if only_case and case != only_case:
                    continue
                n += 1
                try:
                    alone = run(mk(P), inputs)
                    inside = run(wrap(P, mk(P)), inputs)
                except Exception as e:                      # a pattern that cannot be streamed at all is C13.den's business
                    continue
                seen.add((name, wname))
                if len(samples) < 5:
                    samples.append({'case': case, 'alone': alone})
                if alone != inside:
                    rep.violation(obligation='C13.threading.embedded-sees-the-same-inputs',
                                  what='%s: alone %r, embedded %r' % (case, alone, inside),
                                  input=case, observed=inside, expected=alone,
                                  key='C13.threading:%s' % name,
                                  replay={'func': 'threading', 'args': case, 'ob': 'threading'})
    rep.bounded('input-threading', 'Prout/Pfuncn/Plazy/Pfunc embedded in Pseq/Pn/Pswitch',
                bound='%d function patterns that echo their input x %d identity wrappers x %d input runs'
                      % (len(THREADING), len(WRAPS), len(INPUT_RUNS)),
                evaluations=n, distinct_nontrivial=len(seen),
                rule='stream(x).next(i) for the input run == stream(wrap(x)).next(i) for the same run '
                     '(a one-element list pattern, one repetition, or a filter with identity arguments denotes its element)',
                samples=samples, exhaustive=True)


def main(rep):
    silence_sc3_logging()
    import warnings
    warnings.simplefilter('ignore')
    import sc3
    sc3.init('nrt')
    signal.signal(signal.SIGPROF, _alarm)
    rep.note('C13 corners left unspecified (expressions hitting them are '
             'left out and counted in unspecified_left_out): '
             + '; '.join(ps.OPEN))
    rep.note('C13 readings taken: Pstutter n=0 drops the element (finite '
             'sources only); Pconst yields the remainder when the source ends '
             'early (sum always constrained); Pclump yields a final partial '
             'group; Pswitch1/Pif end when the selected stream ends; Pslide '
             'wrap=False ends the whole pattern at the first index outside '
             '0..len-1 (both ends); Pseed with a constant seed restarts the '
             'pattern re-seeded for ever; Pshuffle keeps one order for all '
             'repeats ("constant, but random order").')
    if wants(rep, 'den') or wants(rep, 'immut'):
        texts = [enc(e) for e in depth1()] + [enc(e) for e in depth2()]
        run_cases(
            rep, 'depth2', texts,
            bound='all expressions of depth <= 2 (plus the depth-3 slice '
                  'Pflatten(Pclump(.))) over 27 constructors: depth-1 '
                  'parameter grids (repeats {0,1,2,inf}, offsets < len, n 0..3, '
                  'Pslide 320 combinations, ...) and every constructor over a '
                  'pool of %d depth-1 sub-patterns in each pattern slot' % len(POOL),
            rule='enumerated by depth1()/depth2(); non-trivial = den defined '
                 'and non-empty; unspecified corners counted separately',
            exhaustive=True)
        if rep.tier == 'thorough':
            total, depths = 400000, (3, 4)
        else:
            total, depths = 100000, (2, 3)
        texts = []
        seen = set()
        tries = 0
        while len(texts) < total and tries < total * 3:
            tries += 1
            d = depths[tries % len(depths)]
            e = gen_any(rep.rng, d)
            t = enc(e)
            if t not in seen and is_pat(e):
                seen.add(t)
                texts.append(t)
        texts.sort(key=len)
        run_cases(
            rep, 'random-depth%d' % depths[-1], texts,
            bound='%d distinct seeded random typed expressions of depth <= %d'
                  % (len(texts), depths[-1]),
            rule='gen_any(rng, depth): typed generator over the same '
                 'constructors (numbers / lists / tuples), failing cases are '
                 'shrunk to the smallest failing sub-expression',
            exhaustive=False)
    if wants(rep, 'random'):
        check_random(rep)
    if wants(rep, 'threading'):
        check_threading(rep)


def replay(case, rep):
    silence_sc3_logging()
    import warnings
    warnings.simplefilter('ignore')
    import sc3
    sc3.init('nrt')
    signal.signal(signal.SIGPROF, _alarm)
    r = case.get('replay') or {}
    if r.get('func') == 'expr':
        expr = dec(r['args'])
        status, fails = check_expr(expr)
        for f in fails:
            if group(f['ob']) == group(r.get('ob') or 'den'):
                rep.violation(obligation='C13.' + f['ob'],
                              what='%s: %s' % (enc(expr), f['what']),
                              input=enc(expr), observed=f['observed'],
                              expected=f['expected'], key=case.get('key'))
        return not rep.violations
    if r.get('func') == 'threading':
        check_threading(rep, only_case=r.get('args'))
        return not rep.violations
    if r.get('func') == 'random':
        only = getattr(rep, 'only', None)
        rep.only = {'random'}
        sub = Report('C13', 'quick', 0)
        sub.only = {'random'}
        check_random(sub)
        for v in sub.violations:
            if v['key'] == case.get('key'):
                rep.violations.append(v)
        rep.only = only
        return not rep.violations
    return True


if __name__ == '__main__':
    driver_main('C13', main, replay)
