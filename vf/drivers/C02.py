# C02 -- Emitted definitions are well-formed, topologically ordered SCgf v2.
#
#   /venv/bin/python -m vf.drivers.C02 --tier quick --seed 0 --out f.json
#
# Sub-checks
#   format   bytes of every compiled program parse strictly as ONE SCgf-2
#            definition (vf/specs/scgf.py), scgf.wellformed == [], units with
#            ordering side effects precede every unit created after them, unit
#            names/rates/input and output counts agree with the source objects,
#            sc3's reader (SynthDesc.new_from and SynthDesc._read_stream) accepts
#            the bytes and recovers name, controls per slot (name, default as
#            float32, rate), has_gate and the In/Out bus units.
#            Programs: the C01 generator (vf/specs/graphgen.py) and a structural
#            generator (below): multi-output units, nested multichannel
#            expansion, controls of all rates incl. arrays and `gate`,
#            width-first units, up to ~300 units and hundreds of constants.
#   names    definition names: every length 0..255 over ASCII is written and
#            read back; length >= 256 or a non-ASCII character must raise and
#            leave no bytes.
#   invalid  graphs the statement calls invalid (audio-rate unit fed a slower
#            signal, NaN / None / str unit inputs) must raise.
import io
import multiprocessing as mp
import random
import struct

from vf.common import Report, driver_main, wants, silence_sc3_logging
from vf.specs import scgf
from vf.specs import graphgen as gg

NPROC = 16

RATE_NAMES = ('scalar', 'control', 'audio', 'demand')
CONTROL_CLASSES = ('Control', 'TrigControl', 'AudioControl', 'LagControl')
IN_CLASSES = ('In', 'LocalIn', 'LagIn', 'InFeedback', 'InTrig')
OUT_FIXED = {'Out': 1, 'ReplaceOut': 1, 'OffsetOut': 1, 'LocalOut': 0, 'XOut': 2}
# units with ordering side effects (local buffer set-up, FFT chains, random
# seeding): the statement's list, by class name
WIDTH_FIRST = ('LocalBuf', 'SetBuf', 'ClearBuf', 'FFT', 'IFFT', 'RandSeed',
               'RandID')

def is_width_first(name):
    return name in WIDTH_FIRST or name.startswith('PV_')


def _init_sc3():
    import warnings
    warnings.simplefilter('ignore')
    silence_sc3_logging()
    import sc3
    sc3.init('nrt')
    gg.install_bytesio_guard()


# ---------------------------------------------------------------------------
# structural program generator (data = a spec dict; deterministic in 'seed')

def random_struct_spec(rng, steps):
    names = ['freq', 'amp', 'pan', 'bus', 'cut', 'res', 'x', 'y', 'gate',
             'trig', 'inbus', 'w']
    rng.shuffle(names)
    params = []
    for nm in names[:rng.randint(0, 8)]:
        rate = rng.choice(['kr', 'kr', 'kr', 'ir', 'tr', 'ar'])
        if rate == 'kr' and rng.random() < 0.25:
            default = [round(rng.uniform(-10, 10), 3)
                       for _ in range(rng.randint(2, 4))]
        else:
            default = rng.choice([0, 1, 0.1, 440, -3.25, 1e-7, 123456.789,
                                  round(rng.uniform(-1000, 1000), 4)])
        params.append([nm, default, rate])
    return {'kind': 'struct', 'seed': rng.randrange(1 << 30), 'steps': steps,
            'params': params, 'name': 'c02_%d' % rng.randrange(10 ** 6)}


def make_struct_func(spec, log):
    """Graph function of a structural program.  log['units'] receives one entry
    per created tagged unit, in creation order:
    {order, cls, rate, nin, nout, tagpos, tag}; log['io'] the In/Out units."""
    parts = []
    for nm, default, rate in spec['params']:
        d = tuple(default) if isinstance(default, list) else default
        parts.append("%s: '%s' = %r" % (nm, rate, d))
    names = [p[0] for p in spec['params']]
    src = 'def graph_func(%s):\n    return _run({%s})\n' % (
        ', '.join(parts), ', '.join('%r: %s' % (n, n) for n in names))

    def _run(ctl):
        return _struct_body(spec, ctl, log)
    ns = {'_run': _run}
    exec(src, ns)
    return ns['graph_func']


def _flat(x):
    if isinstance(x, list):
        r = []
        for y in x:
            r.extend(_flat(y))
        return r
    return [x]


def _struct_body(spec, ctl, log):
    from sc3.synth import ugens as ug
    from sc3.synth.ugen import ChannelList
    rng = random.Random(spec['seed'])
    units = []
    io_units = []
    counter = [0]
    tagc = [1000]
    constc = [0]

    def tag():
        tagc[0] += 1
        return float(tagc[0])

    def newconst():
        constc[0] += 1
        return constc[0] * 0.1 + 2000.0          # distinct after float32 rounding

    def rec(cls, rate, nin, nout, tagpos, t):
        counter[0] += 1
        units.append({'order': counter[0], 'cls': cls, 'rate': rate,
                      'nin': nin, 'nout': nout, 'tagpos': tagpos, 'tag': t})

    ar, kr = [], []
    bufs, chains = [], []
    kr_params = [nm for nm, d, r in spec['params']
                 if r in ('kr', 'tr') and not isinstance(d, list)]
    for nm, d, r in spec['params']:
        v = ctl[nm]
        tgt = ar if r == 'ar' else kr
        tgt.extend(_flat(v))

    def osc(rate, t=None):
        cls = rng.choice(['SinOsc', 'LFSaw', 'LFNoise0'])
        t = tag() if t is None else t
        if cls == 'LFNoise0':
            u = getattr(ug.LFNoise0, rate)(t)
            rec(cls, 2 if rate == 'ar' else 1, 1, 1, 0, t)
        else:
            u = getattr(getattr(ug, cls), rate)(t, 0)
            rec(cls, 2 if rate == 'ar' else 1, 2, 1, 0, t)
        (ar if rate == 'ar' else kr).append(u)
        return u

    def pick_ar():
        if not ar:
            osc('ar')
        return rng.choice(ar[-12:]) if rng.random() < 0.7 else rng.choice(ar)

    def pick_kr():
        if not kr:
            osc('kr')
        return rng.choice(kr[-12:]) if rng.random() < 0.7 else rng.choice(kr)

    def pick_any():
        r = rng.random()
        if r < 0.5:
            return pick_ar()
        if r < 0.85:
            return pick_kr()
        return newconst()

    def push(v):
        for x in _flat(v):
            if isinstance(x, (int, float)):
                continue
            (ar if x.rate == 'audio' else kr).append(x)

    osc('ar')
    for _ in range(spec['steps']):
        r = rng.random()
        if r < 0.14:
            osc(rng.choice(['ar', 'ar', 'kr']))
        elif r < 0.20:
            # nested multichannel expansion: [t1, [t2, t3]] -> [u1, [u2, u3]]
            t1, t2, t3 = tag(), tag(), tag()
            cls = rng.choice(['SinOsc', 'LFSaw'])
            res = getattr(ug, cls).ar([t1, [t2, t3]], 0)
            for t in (t1, t2, t3):
                rec(cls, 2, 2, 1, 0, t)
            if not (isinstance(res, list) and len(res) == 2
                    and isinstance(res[1], list) and len(res[1]) == 2):
                log['expansion_shape'] = repr(res)
            push(res)
        elif r < 0.40:
            a, b = pick_any(), pick_any()
            op = rng.choice(['+', '-', '*', '+', '*'])
            if isinstance(a, float) and isinstance(b, float):
                a = pick_ar()
            if rng.random() < 0.2:
                b = a                      # the same signal as both operands
            v = a + b if op == '+' else a - b if op == '-' else a * b
            push(v)
        elif r < 0.50:
            push(pick_ar() * newconst() + newconst())
        elif r < 0.56:
            push(pick_ar().madd(pick_any(), pick_any()))
        elif r < 0.62:
            push(ChannelList([pick_any() for _ in range(rng.randint(2, 5))]
                             + [pick_ar()]).sum())
        elif r < 0.68:
            # list (op) list: element-wise expansion
            n = rng.randint(2, 3)
            v = ChannelList([pick_ar() for _ in range(n)]) * \
                [pick_any() for _ in range(rng.randint(1, 3))]
            push(v)
        elif r < 0.74:
            t = tag()
            res = ug.Pan2.ar(pick_ar(), pick_kr() if rng.random() < 0.5
                             else newconst(), t)
            rec('Pan2', 2, 3, 2, 2, t)
            push(res)
        elif r < 0.79:
            t = tag()
            n = rng.randint(1, 4)
            if rng.random() < 0.6:
                res = ug.In.ar(t, n)
                rec('In', 2, 1, n, 0, t)
                io_units.append(('In', 'audio', n, t))
            else:
                res = ug.In.kr(t, n)
                rec('In', 1, 1, n, 0, t)
                io_units.append(('In', 'control', n, t))
            push(res)
        elif r < 0.83:
            t = tag()
            bufs.append(ug.LocalBuf.new(t, 1))
            rec('LocalBuf', 0, 3, 1, 1, t)
        elif r < 0.86 and bufs:
            t = tag()
            b = bufs.pop(rng.randrange(len(bufs)))
            chains.append(ug.FFT.kr(b, pick_ar(), 0.5, 0, 1, t))
            rec('FFT', 1, 6, 1, 5, t)
        elif r < 0.89 and chains:
            t = tag()
            i = rng.randrange(len(chains))
            k = rng.choice(['PV_MagAbove', 'PV_MagSmear', 'PV_MagSquared'])
            if k == 'PV_MagSquared':
                chains[i] = ug.PV_MagSquared.new(chains[i])
            else:
                chains[i] = getattr(ug, k).new(chains[i], t)
                rec(k, 1, 2, 1, 1, t)
        elif r < 0.91 and chains:
            t = tag()
            c = chains.pop(rng.randrange(len(chains)))
            push(ug.IFFT.ar(c, 0, t))
            rec('IFFT', 2, 3, 1, 2, t)
        elif r < 0.93:
            t = tag()
            if rng.random() < 0.5:
                ug.RandSeed.kr(pick_kr() if rng.random() < 0.5 else 1, t)
                rec('RandSeed', 1, 2, 1, 1, t)
            else:
                if rng.random() < 0.5:
                    ug.RandID.kr(t)
                    rec('RandID', 1, 1, 1, 0, t)
                else:
                    ug.RandID.ir(t)
                    rec('RandID', 0, 1, 1, 0, t)
        elif r < 0.95 and bufs:
            t = tag()
            b = rng.choice(bufs)
            if rng.random() < 0.7:
                vals = [newconst() for _ in range(rng.randint(1, 4))]
                ug.SetBuf.new(b, vals, t)
                rec('SetBuf', 0, 3 + len(vals), 1, 1, t)
            else:
                ug.ClearBuf.new(b)
        else:
            n = rng.randint(1, 4)
            if rng.random() < 0.3 and kr_params:
                nm = rng.choice(kr_params)
                bus, t, tp = ctl[nm], None, None
                start = nm
            else:
                t = tag()
                bus, tp, start = t, 0, t
            if rng.random() < 0.65:
                ug.Out.ar(bus, [pick_ar() for _ in range(n)])
                if t is not None:
                    rec('Out', 2, 1 + n, 0, tp, t)
                io_units.append(('Out', 'audio', n, start))
            else:
                ug.Out.kr(bus, [pick_kr() for _ in range(n)])
                if t is not None:
                    rec('Out', 1, 1 + n, 0, tp, t)
                io_units.append(('Out', 'control', n, start))
    t = tag()
    ug.Out.ar(t, pick_ar())
    rec('Out', 2, 2, 0, 0, t)
    io_units.append(('Out', 'audio', 1, t))
    log['units'] = units
    log['io'] = io_units
    return None


# ---------------------------------------------------------------------------
# the contract on one compiled definition

def f32(x):
    return struct.unpack('>f', struct.pack('>f', x))[0]


def check_bytes(data, name, params, log=None):
    """params: [[name, default, rate]] of the source (rate in ir/tr/ar/kr);
    log: unit log of a structural program or None.
    -> list of (clause, key, what, observed, expected)"""
    out = []

    def fail(clause, key, what, observed=None, expected=None):
        out.append((clause, key, what, observed, expected))

    try:
        defs = scgf.parse(data, strict=True)
    except scgf.ScgfError as e:
        fail('C02.parse', 'C02.parse:not-scgf2', 'bytes do not parse: %s' % e,
             observed=data[:64].hex())
        return out, None
    if len(defs) != 1:
        fail('C02.parse', 'C02.parse:def-count', '%d definitions' % len(defs),
             observed=len(defs), expected=1)
        return out, None
    d = defs[0]
    bad = scgf.wellformed(d)
    if bad:
        fail('C02.wellformed', 'C02.wellformed:wires', '; '.join(bad[:3]),
             observed=bad[:5], expected=[])
        return out, d
    if d.name != name:
        fail('C02.consistent', 'C02.consistent:name', 'definition name differs',
             observed=d.name, expected=name)
    for c in d.constants:
        if c != c:
            fail('C02.consistent', 'C02.consistent:nan-constant',
                 'NaN in the constant table', observed=repr(d.constants))
    # units: a unit's outputs run at the unit's rate for every class used here
    for u in d.ugens:
        if u.name in OUT_FIXED and u.outputs:
            fail('C02.consistent', 'C02.consistent:out-has-outputs',
                 'unit %d %s declares outputs' % (u.index, u.name),
                 observed=list(u.outputs), expected=[])
    # controls: every parameter slot is covered by exactly one control unit
    cover = [0] * len(d.params)
    slot_rate = [None] * len(d.params)
    for u in d.ugens:
        if u.name in CONTROL_CLASSES:
            for o in range(len(u.outputs)):
                s = u.special + o
                if 0 <= s < len(cover):
                    cover[s] += 1
                    slot_rate[s] = u.rate
                else:
                    fail('C02.consistent', 'C02.consistent:control-slot',
                         'control unit %d covers slot %d of %d' % (
                             u.index, s, len(cover)), observed=s)
    if any(c != 1 for c in cover):
        fail('C02.consistent', 'C02.consistent:control-cover',
             'parameter slots covered %s times by control units' % cover,
             observed=cover, expected=[1] * len(cover))
    # source parameters <-> names/defaults in the file
    want_rate = {'ir': 0, 'kr': 1, 'tr': 1, 'ar': 2}
    byname = dict(d.param_names)
    if sorted(byname) != sorted(p[0] for p in params) \
            or len(byname) != len(d.param_names):
        fail('C02.consistent', 'C02.consistent:param-names',
             'parameter names differ from the function parameters',
             observed=d.param_names, expected=[p[0] for p in params])
    else:
        nslots = sum(len(p[1]) if isinstance(p[1], list) else 1 for p in params)
        if nslots != len(d.params):
            fail('C02.consistent', 'C02.consistent:param-count',
                 'number of parameter slots', observed=len(d.params),
                 expected=nslots)
        else:
            for nm, default, rate in params:
                ix = byname[nm]
                vals = default if isinstance(default, list) else [default]
                got = d.params[ix:ix + len(vals)]
                if got != [f32(float(v)) for v in vals]:
                    fail('C02.consistent', 'C02.consistent:param-default',
                         'default of %s' % nm, observed=got,
                         expected=[f32(float(v)) for v in vals])
                for s in range(ix, ix + len(vals)):
                    if s < len(slot_rate) and slot_rate[s] is not None \
                            and slot_rate[s] != want_rate[rate]:
                        fail('C02.consistent', 'C02.consistent:param-rate',
                             'control %s (%s) is served by a rate-%d unit' % (
                                 nm, rate, slot_rate[s]),
                             observed=slot_rate[s], expected=want_rate[rate])
    # local buffers: one MaxLocalBufs unit announces room for at least the
    # LocalBuf units of the file (a LocalBuf missing from the file is C01's
    # clause, so "more" is not judged)
    nlb = sum(1 for u in d.ugens if u.name == 'LocalBuf')
    mlb = [u for u in d.ugens if u.name == 'MaxLocalBufs']
    if nlb or mlb:
        val = None
        if len(mlb) == 1 and len(mlb[0].inputs) == 1 and mlb[0].inputs[0][0] == -1:
            val = d.constants[mlb[0].inputs[0][1]]
        if val is None or val < nlb or val != int(val):
            fail('C02.consistent', 'C02.consistent:max-local-bufs',
                 '%d LocalBuf units but MaxLocalBufs says %r (%d MaxLocalBufs '
                 'units)' % (nlb, val, len(mlb)), observed=val,
                 expected='>= %d' % nlb)
    # source units (structural programs)
    if log is not None and 'units' in log:
        if 'expansion_shape' in log:
            fail('C02.consistent', 'C02.consistent:nested-expansion',
                 'SinOsc.ar([t1,[t2,t3]]) did not return [u1,[u2,u3]]',
                 observed=log['expansion_shape'])
        where = {}
        for e in log['units']:
            ms = []
            for u in d.ugens:
                if u.name != e['cls'] or len(u.inputs) <= e['tagpos']:
                    continue
                a, b = u.inputs[e['tagpos']]
                if a == -1 and d.constants[b] == e['tag']:
                    ms.append(u)
            # (whether a unit may be absent is C01's clause, not judged here)
            if len(ms) > 1:
                fail('C02.consistent', 'C02.consistent:unit-count',
                     '%s tagged %s occurs %d times' % (e['cls'], e['tag'], len(ms)),
                     observed=len(ms), expected='at most 1')
            if len(ms) == 1:
                u = ms[0]
                where[e['order']] = u.index
                got = [u.rate, len(u.inputs), list(u.outputs)]
                exp = [e['rate'], e['nin'],
                       [e['rate']] * e['nout']]
                if e['cls'] in ('RandSeed', 'RandID', 'SetBuf', 'ClearBuf'):
                    got[2] = exp[2] = None      # documented as having no output
                if got != exp:
                    fail('C02.consistent', 'C02.consistent:unit-shape',
                         '%s tagged %s: [rate, #inputs, output rates]' % (
                             e['cls'], e['tag']), observed=got, expected=exp)
        for e in log['units']:
            if not is_width_first(e['cls']) or e['order'] not in where:
                continue
            for e2 in log['units']:
                if e2['order'] > e['order'] and e2['order'] in where \
                        and where[e2['order']] <= where[e['order']]:
                    fail('C02.order', 'C02.order:width-first',
                         '%s (tag %s, created #%d) is unit %d but %s (tag %s, '
                         'created later, #%d) is unit %d' % (
                             e['cls'], e['tag'], e['order'], where[e['order']],
                             e2['cls'], e2['tag'], e2['order'],
                             where[e2['order']]),
                         observed=[where[e['order']], where[e2['order']]],
                         expected='first < second')
                    break
    return out, d


def _expected_io(d):
    """In/Out bus units as the file states them: (class, rate name, channels,
    start) with start = constant value or control name or None (unknown)."""
    slot_name = {ix: nm for nm, ix in d.param_names}
    ins, outs = [], []
    for u in d.ugens:
        if u.name in IN_CLASSES or u.name in OUT_FIXED:
            start = None
            if u.inputs:
                a, b = u.inputs[0]
                if a == -1:
                    start = d.constants[b]
                else:
                    src = d.ugens[a]
                    if src.name in ('Control', 'TrigControl', 'LagControl'):
                        start = slot_name.get(src.special + b)
            if u.name in IN_CLASSES:
                ins.append((u.name, RATE_NAMES[u.rate], len(u.outputs), start))
            else:
                outs.append((u.name, RATE_NAMES[u.rate],
                             len(u.inputs) - OUT_FIXED[u.name], start))
    return ins, outs


def check_reader(data, d, sd, params, log=None):
    """sc3's own reader on the bytes."""
    from sc3.synth.synthdesc import SynthDesc
    out = []

    def fail(clause, key, what, observed=None, expected=None):
        out.append((clause, key, what, observed, expected))

    descs = []
    try:
        if sd is not None:
            descs.append(('new_from', SynthDesc.new_from(sd)))
        lst = SynthDesc._read_stream(io.BytesIO(data))
        if len(lst) != 1:
            fail('C02.reader', 'C02.reader:def-count',
                 '_read_stream returned %d descriptions' % len(lst))
            return out
        descs.append(('_read_stream', lst[0]))
    except Exception as e:
        fail('C02.reader', 'C02.reader:rejects-own-bytes',
             "the library's reader raised %s: %s" % (type(e).__name__,
                                                     str(e)[:200]),
             observed=type(e).__name__, expected='a description')
        return out
    exp_names = ['?'] * len(d.params)
    for nm, ix in d.param_names:
        exp_names[ix] = nm
    slot_rate = {}
    for u in d.ugens:
        if u.name in CONTROL_CLASSES:
            for o in range(len(u.outputs)):
                slot_rate[u.special + o] = RATE_NAMES[u.rate]
    exp_defaults = []
    for i, nm in enumerate(exp_names):
        if nm == '?':
            exp_defaults.append(d.params[i])
        else:
            j = i + 1
            while j < len(exp_names) and exp_names[j] == '?':
                j += 1
            exp_defaults.append(d.params[i] if j == i + 1 else d.params[i:j])
    exp_ins, exp_outs = _expected_io(d)
    want_rate = {'ir': 'scalar', 'kr': 'control', 'tr': 'control', 'ar': 'audio'}
    for how, desc in descs:
        if desc.name != d.name:
            fail('C02.reader', 'C02.reader:name', '%s: name' % how,
                 observed=desc.name, expected=d.name)
        got = [c.name for c in desc.controls]
        if got != exp_names:
            fail('C02.reader', 'C02.reader:control-names',
                 '%s: control names by slot' % how, observed=got,
                 expected=exp_names)
            continue
        if sorted(desc.control_names) != sorted(nm for nm, _ in d.param_names):
            fail('C02.reader', 'C02.reader:control-names',
                 '%s: control_names' % how, observed=desc.control_names,
                 expected=[nm for nm, _ in d.param_names])
        got = [c.default_value for c in desc.controls]
        if got != exp_defaults:
            fail('C02.reader', 'C02.reader:defaults',
                 '%s: default values by slot' % how, observed=got,
                 expected=exp_defaults)
        got = [c.rate for c in desc.controls]
        exp = [slot_rate.get(i, '?') for i in range(len(exp_names))]
        if got != exp:
            fail('C02.reader', 'C02.reader:rates', '%s: control rates by slot'
                 % how, observed=got, expected=exp)
        for nm, default, rate in params:
            c = desc.control_dict.get(nm)
            if c is None:
                fail('C02.reader', 'C02.reader:control-names',
                     '%s: parameter %s not in control_dict' % (how, nm))
                continue
            vals = ([f32(float(v)) for v in default]
                    if isinstance(default, list) else f32(float(default)))
            if c.default_value != vals or c.rate != want_rate[rate]:
                fail('C02.reader', 'C02.reader:source-control',
                     '%s: control %s (default, rate)' % (how, nm),
                     observed=[c.default_value, c.rate],
                     expected=[vals, want_rate[rate]])
        gate = any(nm == 'gate' for nm, _ in d.param_names)
        if bool(desc.has_gate) != gate:
            fail('C02.reader', 'C02.reader:has-gate', '%s: has_gate' % how,
                 observed=desc.has_gate, expected=gate)
        for what, lst, exp in (('inputs', desc.inputs, exp_ins),
                               ('outputs', desc.outputs, exp_outs)):
            got = [(x.type.__name__, x.rate, x.channels, x.starting_channel)
                   for x in lst]
            ok = len(got) == len(exp)
            if ok:
                for g, e in zip(got, exp):
                    if g[:3] != e[:3]:
                        ok = False
                    elif e[3] is None:
                        pass
                    elif e[3] == 0:
                        # bus 0: the reader shows '?'; left open (see note)
                        ok = ok and g[3] in (0, '?')
                    elif g[3] != e[3]:
                        ok = False
            if not ok:
                fail('C02.reader', 'C02.reader:io-units',
                     '%s: %s bus units (class, rate, channels, start)' % (
                         how, what), observed=got, expected=exp)
    if log is not None and 'io' in log:
        # against the source: the same multiset of bus units
        # (a bus unit missing from the file is C01's clause; here: no bus
        # unit the source does not have, none altered)
        exp = sorted((c, r, n, str(s)) for c, r, n, s in log['io'])
        got = sorted((c, r, n, str(s)) for c, r, n, s in exp_ins + exp_outs)
        rest = list(exp)
        extra = []
        for g in got:
            if g in rest:
                rest.remove(g)
            else:
                extra.append(g)
        if extra:
            fail('C02.consistent', 'C02.consistent:io-units',
                 'In/Out units of the file that the source does not create',
                 observed=extra, expected=exp)
        # output units have side effects and are never eliminated: each one the
        # source creates has to be among the units the reader recovers
        lost = [e for e in rest if e[0] in OUT_FIXED]
        if lost:
            fail('C02.reader', 'C02.reader:io-units-lost',
                 'output bus units the source creates that neither the file nor '
                 'the reader shows', observed=got, expected=exp)
    return out


# ---------------------------------------------------------------------------
# program kinds

def build_any(prog, log):
    """-> (SynthDef, bytes, name, params) for a graphgen program or a structural
    spec.  Raises what sc3 raises."""
    from sc3.synth.synthdef import SynthDef
    if prog.get('kind') == 'struct':
        func = make_struct_func(prog, log)
        name = prog['name']
        params = prog['params']
    else:
        func = gg.make_func(prog, log)
        name = prog.get('name', 'c02gg')
        params = [[p[0], p[1], 'kr'] for p in prog['params']]
    sd = SynthDef(name, func)
    data = bytes(sd.as_bytes())
    return sd, data, name, params


def check_program(prog):
    """-> (failures, stats).  A program that does not compile is not judged
    here (a well-formed program that fails to compile is C01's finding)."""
    log = {}
    try:
        sd, data, name, params = build_any(prog, log)
    except Exception as e:
        return [], {'compiled': False, 'exc': type(e).__name__}
    fails, d = check_bytes(data, name, params,
                           log if prog.get('kind') == 'struct' else None)
    if d is not None and not any(f[0] in ('C02.parse', 'C02.wellformed')
                                 for f in fails):
        fails += check_reader(data, d, sd, params,
                              log if prog.get('kind') == 'struct' else None)
    st = {'compiled': True, 'units': len(d.ugens) if d else 0,
          'consts': len(d.constants) if d else 0}
    return fails, st


def _task(args):
    kind = args[0]
    res = {'n': 0, 'uncompiled': 0, 'fails': [], 'maxunits': 0,
           'maxconsts': 0, 'wf': 0, 'samples': [], 'keys': set()}

    def run(prog, label):
        fails, st = check_program(prog)
        if not st['compiled']:
            res['uncompiled'] += 1
            return
        res['n'] += 1
        res['maxunits'] = max(res['maxunits'], st['units'])
        res['maxconsts'] = max(res['maxconsts'], st['consts'])
        res['keys'].add(hash(gg.prog_key(prog)))
        if len(res['samples']) < 1:
            res['samples'].append(prog)
        for f in fails:
            if sum(1 for x in res['fails'] if x[2][1] == f[1]) < 3:
                res['fails'].append((_psize(prog), label, f, prog))
    if kind == 'gg-scope':
        _, alpha, opsets, outsets, k, n = args
        for idx, prog in gg.scope_programs(alpha, opsets, outsets, stride=(k, n)):
            ok, _ = gg.wellformed(prog)
            if ok:
                run(prog, 'gg#%d' % idx)
    elif kind == 'gg-random':
        _, seed, count = args
        rng = random.Random(seed)
        for j in range(count):
            prog, _ = gg.random_wellformed(rng, max_ops=(6, 12, 20)[j % 3])
            run(prog, 'gg-random seed=%d #%d' % (seed, j))
    elif kind == 'struct':
        _, seed, count, steps = args
        rng = random.Random(seed)
        for j in range(count):
            spec = random_struct_spec(rng, rng.randint(3, steps))
            run(spec, 'struct seed=%d #%d' % (seed, j))
    return args[0], res


def _psize(prog):
    if prog.get('kind') == 'struct':
        return prog['steps'] + len(prog['params'])
    return gg.prog_size(prog)


def shrink_struct(spec, key):
    """Fewer steps / parameters while the same key fails."""
    cur = spec
    changed = True
    while changed:
        changed = False
        cands = []
        if cur['steps'] > 0:
            cands += [dict(cur, steps=cur['steps'] // 2),
                      dict(cur, steps=cur['steps'] - 1)]
        for i in range(len(cur['params'])):
            cands.append(dict(cur, params=cur['params'][:i] + cur['params'][i + 1:]))
        for c in cands:
            fails, st = check_program(c)
            if st['compiled'] and any(f[1] == key for f in fails):
                cur = c
                changed = True
                break
    return cur


# ---------------------------------------------------------------------------
# names

def check_name(name):
    """-> None or (clause, key, what, observed, expected)"""
    from sc3.synth.synthdef import SynthDef
    from sc3.synth.synthdesc import SynthDesc
    from sc3.synth.ugens import Out, SinOsc

    def func():
        Out.ar(0, SinOsc.ar(440, 0))
    valid = len(name) <= 255 and all(ord(c) < 128 for c in name)
    sd = None
    data = None
    exc = None
    try:
        sd = SynthDef(name, func)
        data = bytes(sd.as_bytes())
    except Exception as e:
        exc = e
    if valid:
        if exc is not None:
            return ('C02.names', 'C02.names:valid-name-refused',
                    'name of %d ASCII characters raised %s' % (
                        len(name), type(exc).__name__),
                    type(exc).__name__, 'bytes')
        try:
            d = scgf.parse(data)[0]
        except scgf.ScgfError as e:
            return ('C02.names', 'C02.names:unparseable', str(e), None, None)
        if d.name != name:
            return ('C02.names', 'C02.names:name-differs', 'written name',
                    d.name, name)
        try:
            n1 = SynthDesc.new_from(sd).name
            n2 = SynthDesc._read_stream(io.BytesIO(data))[0].name
        except Exception as e:
            return ('C02.names', 'C02.names:reader-refuses',
                    'reader raised %s for a %d character ASCII name' % (
                        type(e).__name__, len(name)), type(e).__name__, name)
        if n1 != name or n2 != name:
            return ('C02.names', 'C02.names:reader-name', 'name read back',
                    [n1, n2], name)
        return None
    if exc is None:
        return ('C02.names', 'C02.names:invalid-name-accepted',
                'name %r... (%d characters, %s) produced %d bytes' % (
                    name[:12], len(name),
                    'ASCII' if all(ord(c) < 128 for c in name) else 'non-ASCII',
                    len(data)), len(data), 'an exception')
    if sd is not None:
        left = getattr(sd, '_bytes', None)
        if left is not None:
            return ('C02.names', 'C02.names:bytes-left-after-failure',
                    'as_bytes() raised but the definition keeps bytes',
                    len(bytes(left)), None)
    return None


def name_cases(tier, rng):
    cases = []
    for n in range(0, 256):
        cases.append('n' * n)
    # arbitrary ASCII (including control characters), several lengths
    for n in (1, 2, 7, 31, 32, 33, 127, 128, 200, 254, 255):
        for _ in range(3 if tier == 'quick' else 20):
            cases.append(''.join(chr(rng.randrange(128)) for _ in range(n)))
    cases += [chr(c) for c in range(128)]
    for n in (256, 257, 300, 511, 512, 1000, 65536 + 5):
        cases.append('x' * n)
    for ch in ('\x80', '\xe9', '\xff', 'Ā', '€', '\U0001f600'):
        for n in (1, 5, 255):
            s = ['a'] * n
            s[rng.randrange(n)] = ch
            cases.append(''.join(s))
    return cases


# ---------------------------------------------------------------------------
# invalid graphs

NAN = float('nan')

INVALID = {
    # audio-rate unit fed a slower signal
    'Out.ar<-kr': lambda ug, s, k: ug.Out.ar(900, k),
    'Out.ar<-[ar,kr]': lambda ug, s, k: ug.Out.ar(900, [s, k]),
    'Out.ar<-ir': lambda ug, s, k: ug.Out.ar(900, ug.Rand.new(0, 1)),
    'Out.ar<-const': lambda ug, s, k: ug.Out.ar(900, 0.5),
    'ReplaceOut.ar<-kr': lambda ug, s, k: ug.ReplaceOut.ar(900, k),
    'OffsetOut.ar<-kr': lambda ug, s, k: ug.OffsetOut.ar(900, k),
    'XOut.ar<-kr': lambda ug, s, k: ug.XOut.ar(900, 0.5, k),
    'LocalOut.ar<-kr': lambda ug, s, k: ug.LocalOut.ar(k),
    'Out.ar<-kr*2': lambda ug, s, k: ug.Out.ar(900, k * 2),
    'Out.ar<-kr.madd': lambda ug, s, k: ug.Out.ar(900, k.madd(2, 1)),
    # NaN / None / str as unit inputs of units that stay in the graph
    'osc(nan)->Out': lambda ug, s, k: ug.Out.ar(900, ug.SinOsc.ar(NAN, 0)),
    'osc(None)->Out': lambda ug, s, k: ug.Out.ar(900, ug.SinOsc.ar(None, 0)),
    'osc(str)->Out': lambda ug, s, k: ug.Out.ar(900, ug.SinOsc.ar('440', 0)),
    'osc(phase nan)->Out': lambda ug, s, k: ug.Out.ar(900, ug.SinOsc.ar(1, NAN)),
    'noise(nan)': lambda ug, s, k: ug.Out.kr(900, ug.LFNoise0.kr(NAN)),
    'noise(None)': lambda ug, s, k: ug.Out.kr(900, ug.LFNoise0.kr(None)),
    'noise(str)': lambda ug, s, k: ug.Out.kr(900, ug.LFNoise0.kr('x')),
    'Out.kr<-nan': lambda ug, s, k: ug.Out.kr(900, NAN),
    'Out.kr<-[k,None]': lambda ug, s, k: ug.Out.kr(900, [k, None]),
    'Out.kr<-[k,str]': lambda ug, s, k: ug.Out.kr(900, [k, 'a']),
    'Out bus nan': lambda ug, s, k: ug.Out.ar(NAN, s),
    'Out bus None': lambda ug, s, k: ug.Out.ar(None, s),
    'Out bus str': lambda ug, s, k: ug.Out.ar('0', s),
    'Pan2 pos None': lambda ug, s, k: ug.Out.ar(900, ug.Pan2.ar(s, None, 1)),
    'Pan2 level nan': lambda ug, s, k: ug.Out.ar(900, ug.Pan2.ar(s, 0, NAN)),
    'madd(nan)': lambda ug, s, k: ug.Out.ar(900, s.madd(NAN, 1)),
    'madd(None)': lambda ug, s, k: ug.Out.ar(900, s.madd(2, None)),
    'madd(str)': lambda ug, s, k: ug.Out.ar(900, s.madd('a', 1)),
    's*nan': lambda ug, s, k: ug.Out.ar(900, s * NAN),
    's+None': lambda ug, s, k: ug.Out.ar(900, s + None),
    "s-'a'": lambda ug, s, k: ug.Out.ar(900, s - 'a'),
    'nan*s': lambda ug, s, k: ug.Out.ar(900, NAN * s),
    'sum nan': lambda ug, s, k: ug.Out.ar(900, s + s + NAN),
}


def check_invalid(prog, which):
    """prog: a graphgen program (valid by itself); the invalid construct is
    appended at the end of its graph function.  -> None or failure tuple"""
    from sc3.synth.synthdef import SynthDef
    from sc3.synth import ugens as ug
    bad = INVALID[which]

    def at_end(vals):
        s = ug.SinOsc.ar(901, 0)
        k = ug.LFNoise0.kr(902)
        bad(ug, s, k)
    func = gg.make_func(prog, None, at_end)
    sd = None
    try:
        sd = SynthDef('c02bad', func)
        data = bytes(sd.as_bytes())
    except Exception:
        return None
    return ('C02.invalid', 'C02.invalid:accepted:' + which,
            'invalid graph (%s appended to a valid program) compiled to %d bytes'
            % (which, len(data)), len(data), 'an exception')


def _invalid_task(args):
    seed, count = args
    rng = random.Random(seed)
    fails = []
    n = 0
    empty = {'params': [], 'nodes': [['const', 0]], 'outs': []}
    keys = sorted(INVALID)
    for j in range(count):
        if j < len(keys):
            which = keys[j]
            prog = {'params': [], 'nodes': [['osc', 'SinOsc', 'ar', 5]],
                    'outs': [{'chans': [0]}]}
        else:
            which = rng.choice(keys)
            prog, _ = gg.random_wellformed(rng, max_ops=8)
            try:        # the host program itself must compile on this tree
                from sc3.synth.synthdef import SynthDef
                SynthDef('host', gg.make_func(prog))
            except Exception:
                continue
        n += 1
        f = check_invalid(prog, which)
        if f:
            fails.append((gg.prog_size(prog), which, f, prog))
    return n, fails


# ---------------------------------------------------------------------------

def main(rep):
    silence_sc3_logging()
    quick = rep.tier == 'quick'
    ctx = mp.get_context('fork')
    base = rep.rng.randrange(1 << 30)
    if wants(rep, 'format'):
        tasks = []
        nsplit = 16
        ops3 = ('add', 'sub', 'mul', 'neg')
        wide = ('add', 'sub', 'mul', 'div', 'neg', 'madd', 'sum2', 'sum3')
        for k in range(nsplit):
            tasks.append(('gg-scope', 'ABKLRP012mh', [wide], ('last', 'pair0'),
                          k, nsplit))
            tasks.append(('gg-scope', 'AKP1m', [ops3, ops3],
                          ('last', 'first+last'), k, nsplit))
            tasks.append(('gg-scope', 'AK2' if not quick else 'A2',
                          [ops3, ops3, ops3], ('last', 'first+last'), k, nsplit))
        ngg = 20000 if quick else 120000
        for b in range(ngg // 250):
            tasks.append(('gg-random', base + b, 250))
        nst = 24000 if quick else 100000
        for b in range(nst // 100):
            steps = (12, 40, 120, 330)[b % 4]
            tasks.append(('struct', base + 7919 + b, 100 if steps < 300 else 25,
                          steps))
        tot = {}
        with ctx.Pool(NPROC, initializer=_init_sc3) as pool:
            for kind, res in pool.imap_unordered(_task, tasks, chunksize=1):
                t = tot.setdefault(kind, {'n': 0, 'uncompiled': 0, 'fails': [],
                                          'maxunits': 0, 'maxconsts': 0,
                                          'samples': [], 'keys': set()})
                t['n'] += res['n']
                t['uncompiled'] += res['uncompiled']
                t['fails'] += res['fails']
                t['maxunits'] = max(t['maxunits'], res['maxunits'])
                t['maxconsts'] = max(t['maxconsts'], res['maxconsts'])
                t['keys'] |= res['keys']
                if len(t['samples']) < 3:
                    t['samples'] += res['samples']
        allf = []
        for t in tot.values():
            allf += t['fails']
        if allf:
            _init_sc3()
        bykey = {}
        for size, label, f, prog in sorted(allf, key=lambda x: (x[0], x[1])):
            bykey.setdefault(f[1], []).append((size, label, f, prog))
        for key in sorted(bykey):
            for size, label, f, prog in bykey[key][:3]:
                if prog.get('kind') == 'struct':
                    small = shrink_struct(prog, key)
                    if small != prog:
                        fs, _ = check_program(small)
                        f2 = [x for x in fs if x[1] == key]
                        if f2:
                            prog, f, label = small, f2[0], label + ' (shrunk)'
                rep.violation(obligation=f[0], what='%s [%s]' % (f[2], label),
                              input=prog, observed=f[3], expected=f[4], key=key,
                              replay={'func': 'program', 'args': prog})
        descr = {
            'gg-scope': ('format/c01-small', 'every well-formed program of the '
                         'C01 scopes: 1 operator node over ABKLRP012mh with all '
                         'operators, 2 operator nodes over AKP1m and 3 over A2 '
                         '(thorough: AK2) with + - * neg', True),
            'gg-random': ('format/c01-random', 'seeded random C01 programs '
                          '(graphgen.random_program, up to 6/12/20 operator '
                          'nodes)', False),
            'struct': ('format/structural', 'seeded structural programs: 0-8 '
                       'parameters (ir/tr/ar/kr, arrays, gate), up to 12/40/120/'
                       '330 steps drawing oscillators, nested multichannel '
                       'expansion, arithmetic with fresh constants, Pan2, '
                       'In.ar/kr(bus, 1-4), LocalBuf/SetBuf/ClearBuf, FFT/PV_*/'
                       'IFFT, RandSeed/RandID, Out.ar/kr of 1-4 channels', False),
        }
        for kind, (nm, bound, exh) in descr.items():
            t = tot.get(kind)
            if not t:
                continue
            rep.bounded(
                name=nm, function='SynthDef.as_bytes, SynthDesc.new_from, '
                'SynthDesc._read_stream', bound=bound, evaluations=t['n'],
                distinct_nontrivial=len(t['keys']),
                rule='every compiled program is parsed by vf/specs/scgf.py and '
                     "by sc3's reader; programs that do not compile on this "
                     'tree are left to C01 (%d here); largest definition: %d '
                     'units, %d constants' % (t['uncompiled'], t['maxunits'],
                                              t['maxconsts']),
                samples=t['samples'], exhaustive=exh)
        rep.note("IODesc.starting_channel of a bus-0 unit reads '?' instead of "
                 "0 (`starting_channel or '?'`); the statement only asks that "
                 'the bus units are recovered, so 0 and \'?\' are both accepted.')
    if wants(rep, 'names'):
        _init_sc3()
        cases = name_cases(rep.tier, rep.rng)
        n = 0
        seen = set()
        for nm in cases:
            n += 1
            seen.add(nm)
            f = check_name(nm)
            if f:
                rep.violation(obligation=f[0], what=f[2], input={'name': nm},
                              observed=f[3], expected=f[4], key=f[1],
                              replay={'func': 'name', 'args': nm})
        rep.bounded(name='names', function='SynthDef(name, f).as_bytes()',
                    bound='every length 0..255 (one name each), random ASCII '
                          'names incl. control characters at 11 lengths, each '
                          'single ASCII character; lengths 256..65541; names '
                          'with one non-ASCII character (U+80..U+1F600)',
                    evaluations=n, distinct_nontrivial=len(seen),
                    rule='valid = at most 255 characters, all < U+0080: must be '
                         'written, parsed and read back equal; otherwise '
                         'SynthDef()/as_bytes() must raise and keep no bytes',
                    samples=['', 'n' * 255, 'x' * 256, 'a\xe9'], exhaustive=False)
    if wants(rep, 'invalid'):
        count = 600 if quick else 6000
        tasks = [(base + 31 + i, count // 16 + len(INVALID)) for i in range(16)]
        n = 0
        fails = []
        with ctx.Pool(NPROC, initializer=_init_sc3) as pool:
            for k, fl in pool.imap_unordered(_invalid_task, tasks):
                n += k
                fails += fl
        for size, which, f, prog in sorted(fails, key=lambda x: (x[0], x[1])):
            rep.violation(obligation=f[0], what=f[2],
                          input={'program': prog, 'invalid': which},
                          observed=f[3], expected=f[4], key=f[1],
                          replay={'func': 'invalid', 'args': [prog, which]})
        rep.bounded(name='invalid', function='SynthDef.__init__',
                    bound='%d invalid constructs (%s) alone and appended to '
                          'random valid C01 programs' % (len(INVALID),
                                                         ', '.join(sorted(INVALID))),
                    evaluations=n, distinct_nontrivial=len(INVALID),
                    rule='each construct makes an audio-rate output unit read a '
                         'slower signal or gives NaN/None/str to an input of a '
                         'unit that reaches an output; SynthDef() must raise. '
                         'inf inputs and dead pure units with bad inputs are '
                         'left open (not listed by the statement)',
                    samples=sorted(INVALID)[:5], exhaustive=False)


def replay(case, rep):
    _init_sc3()
    r = case['replay']
    if r['func'] == 'program':
        fails, st = check_program(r['args'])
        for f in fails:
            rep.violation(obligation=f[0], what=f[2], input=r['args'],
                          observed=f[3], expected=f[4], key=f[1], replay=r)
    elif r['func'] == 'name':
        f = check_name(r['args'])
        if f:
            rep.violation(obligation=f[0], what=f[2], input=r['args'],
                          observed=f[3], expected=f[4], key=f[1], replay=r)
    elif r['func'] == 'invalid':
        f = check_invalid(r['args'][0], r['args'][1])
        if f:
            rep.violation(obligation=f[0], what=f[2], input=r['args'],
                          observed=f[3], expected=f[4], key=f[1], replay=r)
    return not rep.violations


if __name__ == '__main__':
    driver_main('C02', main, replay)
