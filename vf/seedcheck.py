"""python3-vt -m vf.seedcheck [ids...]: re-run the committed seeds through the route the brief
names: git -C /repo apply <patch>; ./check <property> --tier quick; git -C /repo checkout -- .
The verdict is added to seeded/<id>/meta.json under 'repo_route'. Evidence of these runs goes to
.work/seed_evidence (never to evidence/)."""
import json
import os
import subprocess
import sys
import time

VERIF = os.path.dirname(os.path.dirname(os.path.abspath(__file__)))


def main():
    ids = sys.argv[1:] or sorted(os.listdir(os.path.join(VERIF, 'seeded')))
    assert subprocess.run('git -C /repo status --porcelain', shell=True, capture_output=True,
                          text=True).stdout.strip() == '', '/repo is not clean'
    missed = []
    for sid in ids:
        d = os.path.join(VERIF, 'seeded', sid)
        mp = os.path.join(d, 'meta.json')
        if not os.path.exists(mp):
            continue
        meta = json.load(open(mp))
        prop = meta['property']
        t0 = time.time()
        try:
            subprocess.run(['git', '-C', '/repo', 'apply', os.path.join(d, 'patch.diff')], check=True)
            p = subprocess.run('./check %s --tier quick' % prop, shell=True, cwd=VERIF, capture_output=True,
                               text=True, env=dict(os.environ, VERIF_EVIDENCE_DIR=os.path.join(
                                   VERIF, '.work', 'seed_evidence')), timeout=3600)
        finally:
            subprocess.run('git -C /repo checkout -- . && git -C /repo clean -fdq sc3', shell=True)
        out = p.stdout + p.stderr
        vl = [l for l in out.split('\n') if l.startswith('VIOLATION')]
        meta['repo_route'] = {'exit': p.returncode, 'violations': len(vl), 'first': [l[:300] for l in vl[:2]],
                              'deciders': sorted(set(('pyvc' if '.py::' in l or 'table:' in l or 'lemma:' in l
                                                      else 'bounded') for l in vl)),
                              'wall_s': round(time.time() - t0, 1),
                              'how': 'git -C /repo apply patch.diff; ./check %s --tier quick; '
                                     'git -C /repo checkout -- .' % prop}
        json.dump(meta, open(mp, 'w'), indent=1)
        ok = p.returncode == 1 and vl
        if not ok:
            missed.append(sid)
        print(sid, 'caught' if ok else 'MISSED', p.returncode, len(vl), flush=True)
    print('missed:', missed)


if __name__ == '__main__':
    main()
