"""Contracts for the constructor-time algebra of operator unit generators in
sc3/synth/ugen.py (C01): every short-cut returns something that denotes the
requested operation; otherwise the unit is built with unchanged arguments; the
rate of an operator unit is the highest rate among its inputs.

A unit-generator operand is a value of kind 'ugen' with an uninterpreted real
denotation and a rate code (0 scalar < 1 control < 2 audio; 3 demand).
"""
import ast
import z3
from vf.pyvc.spec import contract
from vf.pyvc.values import *
from vf.pyvc.engine import Raised, Unsupported

F = 'sc3/synth/ugen.py'
RATE = {'scalar': 0, 'control': 1, 'audio': 2, 'demand': 3}


def ugen_kind(eng, name):
    r = z3.Int(name + '#rate')
    return V('ugen', z=z3.Real(name + '#den'), oid=name,
             extra={'rate': r, 'facts': [r >= 0, r <= 3]})


def den(v):
    """denotation of an operand or result as a z3 Real"""
    if isinstance(v, V):
        if v.k == 'ugen':
            return v.z
        return to_real(v)
    return z3.ToReal(v) if z3.is_int(v) else v


def rate_of(v):
    if isinstance(v, V) and v.k == 'ugen':
        return v.extra['rate']
    return z3.IntVal(0)         # numbers are scalar rate


OPS = {'*': lambda x, y: x * y, '+': lambda x, y: x + y, '-': lambda x, y: x - y,
       '/': lambda x, y: x / y}


def h_unop(eng, op, v, node, st):
    if op == 'neg' and v.k == 'ugen':
        st.trace.append(('op', 'neg', v))
        return V('ugen', z=-v.z, oid='neg(%s)' % v.oid, extra={'rate': v.extra['rate']})
    return None


def h_binop(eng, op, a, b, st, node):
    if a.k == 'ugen' or b.k == 'ugen':
        sym = {ast.Add: '+', ast.Sub: '-', ast.Mult: '*', ast.Div: '/'}.get(type(op))
        if sym is None:
            raise Unsupported(node, 'operator on unit generator')
        st.trace.append(('op', sym, a, b))
        r = z3.If(rate_of(a) >= rate_of(b), rate_of(a), rate_of(b))
        return [(st, V('ugen', z=OPS[sym](den(a), den(b)),
                       oid='(%s%s%s)' % (getattr(a, 'oid', a), sym, getattr(b, 'oid', b)),
                       extra={'rate': r}))]
    return None


def super_new1(eng, args, kwargs, st, node):
    """UGen._new1: builds the unit with exactly these arguments"""
    st.trace.append(('new-unit', tuple(args)))
    return [(st, V('ugen', z=z3.Real('unit!%d' % next(eng.counter)), oid='unit',
                   extra={'rate': z3.Int('unitrate!%d' % next(eng.counter)), 'built': tuple(args)}))]


def h_builtin(eng, name, args, kwargs, st, node):
    if name == 'super':
        return [(st, V('superobj'))]
    return None


def h_getattr(eng, obj, name, st, node):
    if obj.k == 'superobj' and name == '_new1':
        return [(st, V('func', py=('spec', super_new1)))]
    if obj.k == 'rateparam' and name == '_as_ugen_rate':
        def f(eng, args, kwargs, st, node, _o=obj):
            return [(st, V('ratestr', z=_o.z))]
        return [(st, V('func', py=('spec', f)))]
    if obj.k == 'list' and name == 'sort':
        # list.sort permutes; the contracts only speak about the multiset of arguments
        return [(st, V('func', py=('builtin', 'noop')))]
    return None


def ugen_param(eng, selfv, args, kwargs, st, node):
    v = args[0]
    if v.k in ('list', 'tuple') and v.items is not None:
        r = z3.IntVal(0)
        for it in v.items:
            r = z3.If(rate_of(it) > r, rate_of(it), r)
        return [(st, V('rateparam', z=r))]
    return [(st, V('rateparam', z=rate_of(v)))]


def h_compare(eng, op, a, b, st, node):
    for p, q in ((a, b), (b, a)):
        if p.k == 'ratestr' and q.k == 'str' and q.py in RATE and isinstance(op, (ast.Eq, ast.NotEq)):
            r = p.z == RATE[q.py]
            return z3.Not(r) if isinstance(op, ast.NotEq) else r
    return None


HOOKS = {'unop': h_unop, 'binop': h_binop, 'builtin': h_builtin, 'getattr': h_getattr,
         'compare': h_compare}
OPND = ['int', 'real', ugen_kind]
common = dict(hooks=HOOKS, policies={'ugen_param': ugen_param}, native=False,
              class_modules={'BinaryOpUGen': F, 'MulAdd': F, 'Sum3': F, 'Sum4': F})


def built(c):
    ev = [e for e in c.trace if e[0] == 'new-unit']
    return ev[-1][1] if ev else None


def same(v, w):
    if v.k != w.k:
        return False
    if v.k == 'ugen':
        return v.oid == w.oid
    if v.k in ('int', 'real', 'bool'):
        return v.z.eq(w.z)
    return v is w


def binop_post(sel):
    def f(c):
        r = c.resultv
        b = built(c)
        av, bv = c._params['a'], c._params['b']
        if r.k == 'ugen' and r.extra.get('built') is not None:
            # no short-cut: the unit is built with the arguments unchanged
            args = r.extra['built']
            return z3.BoolVal(len(args) == 4 and same(args[2], av) and same(args[3], bv)
                              and args[1].k == 'str' and args[1].py == sel)
        if sel not in OPS:
            return z3.BoolVal(False)       # only the four ring operators have short-cuts
        return den(r) == OPS[sel](den(av), den(bv))
    return f


for sel in ('*', '+', '-', '/', 'min'):
    contract(F, 'BinaryOpUGen._new1', props=('C01',),
             params={'cls': 'cls', 'rate': 'obj', 'selector': 'const:%r' % sel,
                     'a': OPND, 'b': OPND},
             requires=(lambda c: den(c._params['b']) != 0) if sel == '/' else None,
             ensures=[('denotes-the-operation-or-builds-the-unit-unchanged', binop_post(sel))],
             **common)
    from vf.pyvc.spec import REGISTRY
    key = '%s::BinaryOpUGen._new1#%s' % (F, {'*': 'mul', '+': 'add', '-': 'sub', '/': 'div', 'min': 'other'}[sel])
    REGISTRY[key] = REGISTRY.pop('%s::BinaryOpUGen._new1' % F)
    REGISTRY[key].key = key


def muladd_post(c):
    r = c.resultv
    i, m, a = c._params['input'], c._params['mul'], c._params['add']
    want = den(i) * den(m) + den(a)
    if r.k == 'ugen' and r.extra.get('built') is not None:
        args = r.extra['built'][1:]
        if len(args) != 3:
            return z3.BoolVal(False)
        return z3.And(den(args[0]) * den(args[1]) + den(args[2]) == want,
                      z3.BoolVal(same(args[2], a)))
    return den(r) == want


contract(F, 'MulAdd._new1', props=('C01',),
         params={'cls': 'cls', 'rate': 'obj', 'input': [ugen_kind], 'mul': OPND, 'add': OPND},
         ensures=[('denotes-in*mul+add', muladd_post)],
         **dict(common, policies={'ugen_param': ugen_param, 'MulAdd._can_be_muladd': 'opaque'},
                opaque_kinds={'MulAdd._can_be_muladd': 'bool'}))


def sum_post(names):
    def f(c):
        r = c.resultv
        want = sum(den(c._params[n]) for n in names)
        if r.k == 'ugen' and r.extra.get('built') is not None:
            args = r.extra['built'][1:]
            return sum(den(x) for x in args) == want
        return den(r) == want
    return f


contract(F, 'Sum3._new1', props=('C01',),
         params={'cls': 'cls', '_': 'obj', 'in0': OPND, 'in1': OPND, 'in2': OPND},
         ensures=[('denotes-the-sum', sum_post(['in0', 'in1', 'in2']))],
         opts={'opaque_algebra': True}, **common)
contract(F, 'Sum4._new1', props=('C01',),
         params={'cls': 'cls', '_': 'obj', 'in0': OPND, 'in1': OPND, 'in2': OPND, 'in3': OPND},
         ensures=[('denotes-the-sum', sum_post(['in0', 'in1', 'in2', 'in3']))],
         inline=('Sum3._new1',), opts={'opaque_algebra': True}, max_cases=81, **common)


# ---- rate inference -----------------------------------------------------------------
def rate_post(c):
    r = c.resultv
    ra, rb = rate_of(c._params['a']), rate_of(c._params['b'])
    if r.k != 'str' or r.py not in RATE:
        return z3.BoolVal(False)
    got = RATE[r.py]
    # demand wins; otherwise the highest of scalar < control < audio
    want = z3.If(z3.Or(ra == 3, rb == 3), 3, z3.If(ra >= rb, ra, rb))
    return want == got


contract(F, 'BinaryOpUGen._determine_rate', props=('C01',),
         params={'self': 'self', 'a': OPND, 'b': OPND},
         ensures=[('highest-rate-among-inputs', rate_post)],
         **common)


# ---- the rate an operator unit is given when it is initialised ------------------------
def init_rate_post(names):
    def f(c):
        rv = c.post.self.v('_rate')
        want = z3.IntVal(0)
        for n in names:
            r = rate_of(c._params[n])
            want = z3.If(r > want, r, want)
        if rv.k == 'ratestr':
            return rv.z == want
        if rv.k == 'str' and rv.py in RATE:
            return want == RATE[rv.py]
        return z3.BoolVal(False)
    return f


def h_getattr_init(eng, obj, name, st, node):
    r = h_getattr(eng, obj, name, st, node)
    if r is not None:
        return r
    if obj.k == 'ref' and obj.oid == 'self' and name == 'inputs':
        f = st.objs.get('self', {})
        if '_inputs' in f:
            return [(st, f['_inputs'])]
    return None


INIT_FIELDS = {'_rate': 'obj', '_inputs': 'obj', 'operator': 'obj', '_operator': 'obj',
               '_special_index': 'obj'}
for cls, params in (('MulAdd', ['input', 'mul', 'add']),):
    # C03: every unit of an expanded madd gets the rate of ITS OWN inputs, like the single call
    contract(F, cls + '._init_ugen', props=('C01', 'C03'),
             params=dict([('self', 'self')] + [(p, OPND) for p in params]),
             ensures=[('rate-is-the-highest-among-its-own-inputs', init_rate_post(params))],
             fields={cls: INIT_FIELDS},
             **dict(common, hooks=dict(HOOKS, getattr=h_getattr_init)))

def unop_setattr(eng, obj, name, v, st, node):
    if obj.k == 'ref' and name == 'operator':
        st.trace.append(('operator-set', v))            # through the property setter (name -> special index: C01 table)
        return [('next', st)]
    return None


def unop_wired(c):
    ops = [e for e in c.trace if e[0] == 'operator-set']
    ins = c.post.self.v('_inputs')
    ok = (len(ops) == 1 and ops[0][1] is c._params['operator']
          and ins.k == 'tuple' and len(ins.items) == 1 and ins.items[0] is c._params['input'])
    return z3.BoolVal(bool(ok))


contract(F, 'UnaryOpUGen._init_ugen', props=('C01',),
         params={'self': 'self', 'operator': 'obj', 'input': OPND},
         ensures=[('rate-is-the-rate-of-its-input', init_rate_post(['input'])),
                  ('the-given-operator-applied-to-exactly-the-given-input', unop_wired)],
         fields={'UnaryOpUGen': INIT_FIELDS},
         **dict(common, hooks=dict(HOOKS, getattr=h_getattr_init, setattr=unop_setattr)))
