"""Symbolic values of the pyvc executor.

A value is a small tagged record. Numeric kinds carry a z3 term; structured
kinds (tuple/list of statically known length, objects) carry Python-level
structure whose leaves are again values. Everything is immutable from the
executor's point of view except object fields, which live in the path state.
"""
import z3

# universal sort for dynamically typed values (OSC arguments, list elements)
Any = z3.DeclareSort('Any')
tag_of = z3.Function('tag_of', Any, z3.IntSort())
any_int = z3.Function('any_int', Any, z3.IntSort())
any_real = z3.Function('any_real', Any, z3.RealSort())
any_len = z3.Function('any_len', Any, z3.IntSort())       # len() of str/bytes/list
any_bool = z3.Function('any_bool', Any, z3.BoolSort())
any_item = z3.Function('any_item', Any, z3.IntSort(), Any)      # element of a list/tuple value
any_u8 = z3.Function('any_u8', Any, z3.IntSort())               # utf-8 length of a str value
any_nul = z3.Function('any_nul', Any, z3.BoolSort())            # str/bytes value contains NUL
any_ascii = z3.Function('any_ascii', Any, z3.BoolSort())

TAGS = {'int': 1, 'float': 2, 'str': 3, 'bytes': 4, 'list': 5, 'bool': 6,
        'none': 7, 'tuple': 8, 'other': 9, 'bytearray': 10, 'memoryview': 11}


class V:
    __slots__ = ('k', 'z', 'items', 'py', 'cls', 'ival', 'ratio', 'oid',
                 'extra')

    def __init__(self, k, z=None, items=None, py=None, cls=None, ival=None,
                 ratio=None, oid=None, extra=None):
        self.k = k          # int real bool none str tuple list ref any class
        #                     func exc bytes seq dict set module unknown
        self.z = z
        self.items = items
        self.py = py
        self.cls = cls
        self.ival = ival    # for reals that are known integers: the Int term
        self.ratio = ratio  # for reals n/d with Int n, d: (n, d)
        self.oid = oid
        self.extra = extra

    def __repr__(self):
        if self.k in ('int', 'real', 'bool', 'any'):
            return 'V(%s %s)' % (self.k, self.z)
        if self.k in ('tuple', 'list'):
            return 'V(%s %r)' % (self.k, self.items)
        if self.k in ('str', 'class', 'func', 'module'):
            return 'V(%s %r)' % (self.k, self.py)
        if self.k == 'ref':
            return 'V(ref %s#%s)' % (self.cls, self.oid)
        if self.k == 'exc':
            return 'V(exc %s)' % self.cls
        return 'V(%s)' % self.k


def vint(z):
    if isinstance(z, int):
        z = z3.IntVal(z)
    return V('int', z)


def vreal(z, ival=None, ratio=None):
    if isinstance(z, (int, float)):
        from fractions import Fraction
        fr = Fraction(z)
        zz = z3.RealVal(str(fr))
        if fr.denominator == 1:
            ival = z3.IntVal(fr.numerator)
        z = zz
    return V('real', z, ival=ival, ratio=ratio)


def vbool(z):
    if isinstance(z, bool):
        z = z3.BoolVal(z)
    return V('bool', z)


NONE = V('none')


def vstr(s):
    return V('str', py=s)


def vtuple(items):
    return V('tuple', items=list(items))


def vlist(items):
    return V('list', items=list(items))


def is_num(v):
    return v.k in ('int', 'real', 'bool')


def to_real(v):
    """z3 Real term of a numeric value."""
    if v.k == 'real':
        return v.z
    if v.k == 'int':
        return z3.ToReal(v.z)
    if v.k == 'bool':
        return z3.If(v.z, z3.RealVal(1), z3.RealVal(0))
    raise TypeError('not numeric: %r' % (v,))


def to_int(v):
    if v.k == 'int':
        return v.z
    if v.k == 'bool':
        return z3.If(v.z, z3.IntVal(1), z3.IntVal(0))
    raise TypeError('not int: %r' % (v,))


def py_floordiv_int(a, b):
    """Python // on ints (floor), for b != 0. SMT-LIB div floors for b > 0."""
    return z3.If(b > 0, a / b, (-a) / (-b))


def py_mod_int(a, b):
    return a - b * py_floordiv_int(a, b)


def trunc_div_int(a, b):
    """C-like truncating division of ints, b != 0."""
    return z3.If(b > 0,
                 z3.If(a >= 0, a / b, -((-a) / b)),
                 z3.If(a >= 0, -(a / (-b)), (-a) / (-b)))


def real_floor(x):
    return z3.ToInt(x)


def real_ceil(x):
    return -z3.ToInt(-x)


def real_trunc(x):
    return z3.If(x >= 0, z3.ToInt(x), -z3.ToInt(-x))
