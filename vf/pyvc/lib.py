"""Library models: Python built-ins and the few stdlib functions sc3's verified
functions call. Each is part of the trusted base (listed in evidence)."""
import ast
import z3

from .values import *
from . import values as VV
from .engine import Unsupported, Raised

TRUSTED = set()


def _t(name):
    TRUSTED.add(name)


def conv_int(eng, v, st, node):
    if v.k == 'int':
        return [(st, v)]
    if v.k == 'bool':
        return [(st, vint(to_int(v)))]
    if v.k == 'real':
        if v.extra and 'inf' in v.extra:
            return [(st, Raised(eng.make_exc('OverflowError', node=node)))]
        if v.ival is not None:
            return [(st, vint(v.ival))]
        if v.ratio is not None:
            n, d = v.ratio
            return [(st, vint(trunc_div_int(n, d)))]
        t = real_trunc(v.z)
        eng.floor_terms.append(z3.ToInt(v.z))
        return [(st, vint(t))]
    if v.k == 'any':
        # int() of a dynamic value: only numeric tags are convertible
        raise Unsupported(node, 'int() of dynamic value')
    raise Unsupported(node, 'int() of %r' % (v,))


def conv_float(eng, v, st, node):
    if v.k == 'real':
        return [(st, v)]
    if v.k == 'int':
        return [(st, vreal(z3.ToReal(v.z), ival=v.z))]
    if v.k == 'bool':
        return [(st, vreal(to_real(v), ival=to_int(v)))]
    if v.k == 'str' and v.py is not None:
        s = v.py.strip().lower()
        if s in ('inf', '+inf', 'infinity'):
            return [(st, eng.const(float('inf')))]
        if s in ('-inf', '-infinity'):
            return [(st, eng.const(float('-inf')))]
        try:
            return [(st, vreal(float(s)))]
        except ValueError:
            return [(st, Raised(eng.make_exc('ValueError', node=node)))]
    raise Unsupported(node, 'float() of %r' % (v,))


def kind_name(v):
    return {'int': 'int', 'real': 'float', 'bool': 'bool', 'none': 'NoneType',
            'str': 'str', 'tuple': 'tuple', 'list': 'list', 'bytes': 'bytes',
            'func': 'function'}.get(v.k)


def isinstance_z3(eng, v, cls, node):
    """z3 Bool for isinstance(v, cls) where cls is a class V."""
    name = cls.py
    if v.k == 'any':
        t = VV.tag_of(v.z)
        m = {'int': [TAGS['int'], TAGS['bool']], 'float': [TAGS['float']],
             'str': [TAGS['str']], 'bytes': [TAGS['bytes']], 'list': [TAGS['list']],
             'bool': [TAGS['bool']], 'tuple': [TAGS['tuple']],
             'bytearray': [TAGS['bytearray']], 'memoryview': [TAGS['memoryview']],
             'NoneType': [TAGS['none']], 'dict': [], 'set': []}
        if name in m:
            if not m[name]:
                return z3.BoolVal(False)
            return z3.Or(*[t == x for x in m[name]])
        if name == 'object':
            return z3.BoolVal(True)
        # sc3 classes: a dynamic value restricted to primitives is never one
        return z3.BoolVal(False)
    if v.k == 'dyn':
        if name == v.cls:
            return z3.BoolVal(True)
        return z3.BoolVal(False)
    kn = kind_name(v)
    if kn is not None:
        if name == kn:
            return z3.BoolVal(True)
        if kn == 'bool' and name == 'int':
            return z3.BoolVal(True)
        if name == 'object':
            return z3.BoolVal(True)
        return z3.BoolVal(False)
    if v.k == 'ref':
        c = v.cls
        for _ in range(12):
            if c == name:
                return z3.BoolVal(True)
            mod = eng.class_module(c)
            if mod is None or c not in mod.classes or not mod.classes[c].bases:
                break
            b = mod.classes[c].bases[0]
            c = b.id if isinstance(b, ast.Name) else getattr(b, 'attr', None)
        if v.extra and 'isinstance' in v.extra and name in v.extra['isinstance']:
            return v.extra['isinstance'][name]
        return z3.BoolVal(False)
    if v.k == 'exc':
        return z3.BoolVal(eng.is_subclass(v.cls, name))
    if v.k in ('obj', 'class', 'module'):
        if v.k == 'obj' and v.extra and 'isinstance' in v.extra:
            if name in v.extra['isinstance']:
                return v.extra['isinstance'][name]
        return z3.BoolVal(False)
    if name in ('int', 'float', 'str', 'bytes', 'list', 'tuple', 'bool', 'dict', 'set',
                'bytearray', 'memoryview', 'NoneType') and v.k not in ('any', 'dyn', 'opt'):
        return z3.BoolVal(False)        # a contract-defined value kind is none of the builtin types
    raise Unsupported(node, 'isinstance(%r, %s)' % (v, name))


def call_builtin(eng, name, args, kwargs, st, node):
    h0 = eng.contract.hooks.get('builtin_first')
    if h0:
        r0 = h0(eng, name, args, kwargs, st, node)
        if r0 is not None:
            return r0
    if name == 'int':
        if not args:
            return [(st, vint(0))]
        return conv_int(eng, args[0], st, node)
    if name == 'float':
        if not args:
            return [(st, vreal(0.0))]
        return conv_float(eng, args[0], st, node)
    if name == 'bool':
        return [(st, vbool(eng.truth(args[0], node)))]
    if name == 'hash' and len(args) == 1:
        # some int: for str/bytes it depends on the interpreter's hash seed, so nothing more
        # is known about it than its type
        return [(st, vint(eng.fresh('hash', z3.IntSort())))]
    if name == 'abs':
        v = args[0]
        if v.k == 'int':
            return [(st, vint(z3.If(v.z >= 0, v.z, -v.z)))]
        if v.k == 'real':
            iv = z3.If(v.ival >= 0, v.ival, -v.ival) if v.ival is not None else None
            return [(st, vreal(z3.If(v.z >= 0, v.z, -v.z), ival=iv))]
        raise Unsupported(node, 'abs of %r' % (v,))
    if name in ('min', 'max'):
        if len(args) == 1:
            items = eng.static_items(args[0])
            if items is None:
                raise Unsupported(node, '%s of symbolic sequence' % name)
            args = list(items)
        if not args:
            return [(st, Raised(eng.make_exc('ValueError', node=node)))]
        res = [(st, args[0])]
        for b in args[1:]:
            nxt = []
            for st1, a in res:
                # python: min -> b if b < a else a ; max -> b if b > a else a
                op = ast.Lt() if name == 'min' else ast.Gt()
                c = eng.compare(op, b, a, st1, node)
                for st2, side in eng.branch(st1, c, node):
                    nxt.append((st2, b if side else a))
            res = nxt
        return res
    if name == 'len':
        v = args[0]
        if v.k in ('tuple', 'list') and v.items is not None:
            return [(st, vint(len(v.items)))]
        if v.k == 'str' and v.py is not None:
            return [(st, vint(len(v.py)))]
        if v.k == 'bytes':
            return [(st, vint(eng.bytes_len(v)))]
        if v.k == 'str' and v.extra and 'chars' in v.extra:
            return [(st, vint(v.extra['chars']))]
        if v.k == 'dyn':
            ln = VV.any_len(v.z)
            st.pc.append(ln >= 0)
            return [(st, vint(ln))]
        if v.k == 'any':
            t = VV.tag_of(v.z)
            sized = z3.Or(*[t == TAGS[x] for x in ('str', 'bytes', 'list', 'tuple', 'bytearray', 'memoryview')])
            outs = []
            for st1, ok in eng.branch(st, sized, node):
                if ok:
                    ln = VV.any_len(v.z)
                    st1.pc.append(ln >= 0)
                    outs.append((st1, vint(ln)))
                else:
                    outs.append((st1, Raised(eng.make_exc('TypeError', node=node))))
            return outs
        if v.k == 'seq':
            return [(st, vint(v.extra['len']))]
        if v.k == 'list' and v.items is None and v.extra and 'seq' in v.extra:
            return [(st, vint(v.extra['seq'].extra['len']))]
        if v.k == 'obj' and eng.contract.opts.get('opaque_algebra'):
            n = eng.fresh('len', z3.IntSort())
            st.pc.append(n >= 0)
            return [(st, vint(n))]
        h = eng.contract.hooks.get('len')
        if h:
            r = h(eng, v, st, node)
            if r is not None:
                return r
        raise Unsupported(node, 'len of %r' % (v,))
    if name == 'isinstance':
        v, c = args
        classes = c.items if c.k == 'tuple' else [c]
        zs = []
        for cl in classes:
            if cl.k == 'func' and cl.py == ('builtin', 'type'):
                cl = V('class', py='type')
            if cl.k != 'class':
                if cl.k == 'call' or cl.k == 'none':
                    raise Unsupported(node, 'isinstance class expr')
                raise Unsupported(node, 'isinstance class %r' % (cl,))
            zs.append(isinstance_z3(eng, v, cl, node))
        return [(st, vbool(z3.Or(*zs) if len(zs) > 1 else zs[0]))]
    if name == 'type':
        v = args[0]
        kn = kind_name(v)
        if kn is not None:
            return [(st, V('class', py=kn))]
        if v.k == 'ref':
            return [(st, V('class', py=v.cls))]
        if v.k == 'any':
            return [(st, V('dyntype', z=VV.tag_of(v.z)))]
        if v.k == 'dyn':
            return [(st, V('class', py=v.cls))]
        if v.k == 'obj':
            return [(st, V('obj', oid='type(%s)' % v.oid))]
        raise Unsupported(node, 'type of %r' % (v,))
    if name == 'hasattr':
        v, n = args
        if n.k != 'str' or n.py is None:
            raise Unsupported(node, 'hasattr name')
        if v.k in ('int', 'real', 'bool', 'none', 'str', 'tuple', 'list', 'bytes', 'dyn'):
            return [(st, vbool(False))] if n.py.startswith('_') else _unsup(node, 'hasattr public')
        if v.k == 'any':
            if n.py.startswith('_'):
                return [(st, vbool(False))]
        if v.k == 'ref':
            if eng.find_method(v.cls, n.py) is not None or \
                    eng.contract.field_kind(v.cls, n.py) is not None:
                return [(st, vbool(True))]
            if v.extra and 'hasattr' in v.extra and n.py in v.extra['hasattr']:
                return [(st, vbool(v.extra['hasattr'][n.py]))]
            return [(st, vbool(False))]
        if v.k == 'obj' and v.extra and 'hasattr' in v.extra and n.py in v.extra['hasattr']:
            return [(st, vbool(v.extra['hasattr'][n.py]))]
        raise Unsupported(node, 'hasattr(%r, %s)' % (v, n.py))
    if name == 'range':
        vals = []
        for a in args:
            z = z3.simplify(a.z) if a.k == 'int' else None
            if z is None or not z3.is_int_value(z):
                return [(st, V('range', extra={'args': args}))]
            vals.append(z.as_long())
        r = range(*vals)
        if len(r) > 64:
            raise Unsupported(node, 'long constant range')
        return [(st, V('range', items=[vint(i) for i in r]))]
    if name in ('list', 'tuple'):
        if not args:
            return [(st, V(name, items=[]))]
        items = eng.static_items(args[0])
        if items is not None:
            return [(st, V(name, items=list(items)))]
        if args[0].k == 'obj' and eng.contract.opts.get('opaque_algebra'):
            return [(st, V('obj', oid='%s!%d' % (name, next(eng.counter))))]
        if args[0].k == 'seq' and args[0].extra.get('get') is not None:
            # a copy: same length, same elements (sequences are never mutated in place here)
            return [(st, V('seq', extra=dict(args[0].extra, copy_of=args[0].extra)))]
        h = eng.contract.hooks.get('to_' + name)
        if h:
            r = h(eng, args[0], st, node)
            if r is not None:
                return r
        raise Unsupported(node, '%s() of %r' % (name, args[0]))
    if name in ('set', 'dict') and not args:
        return [(st, V('obj', oid='new!%s!%d' % (name, next(eng.counter))))]
    if name == 'pow' and len(args) == 2:
        return eng.num_binop(ast.Pow(), args[0], args[1], st, node)
    if name == 'callable':
        v = args[0]
        return [(st, vbool(v.k in ('func', 'class')))]
    if name in ('print', 'noop', 'repr', 'id'):
        return [(st, NONE)]
    if name == 'str':
        return [(st, V('str', z=eng.fresh('str', z3.StringSort())))]
    if name == 'bytes' and len(args) == 2 and args[0].k == 'str' and args[1].k == 'str' \
            and args[1].py in ('ascii', 'utf-8'):
        sv = args[0]
        if sv.py is not None:
            try:
                return [(st, V('bytes', py=sv.py.encode(args[1].py)))]
            except UnicodeEncodeError:
                return [(st, Raised(eng.make_exc('UnicodeEncodeError', node=node)))]
        if args[1].py == 'utf-8':
            return [(st, V('bytes', py=None, extra={'len': sv.extra['u8'], 'has_nul': sv.extra['has_nul']}))]
        outs = []
        for st1, isascii in eng.branch(st, sv.extra['ascii'], node):
            if isascii:
                st1.pc.append(sv.extra['u8'] == sv.extra['chars'])
                outs.append((st1, V('bytes', py=None, extra={'len': sv.extra['chars'],
                                                             'has_nul': sv.extra['has_nul']})))
            else:
                outs.append((st1, Raised(eng.make_exc('UnicodeEncodeError', node=node))))
        return outs
    if name == 'bytes':
        h = eng.contract.hooks.get('bytes')
        if h:
            r = h(eng, args, kwargs, st, node)
            if r is not None:
                return r
        raise Unsupported(node, 'bytes()')
    if name == 'round':
        raise Unsupported(node, 'builtin round')
    if name == 'enumerate':
        items = eng.static_items(args[0])
        if items is not None:
            return [(st, vlist([vtuple([vint(i), x]) for i, x in enumerate(items)]))]
        if args[0].k == 'seq' and args[0].extra.get('get') is not None and len(args) == 1:
            g = args[0].extra['get']
            return [(st, V('seq', extra={'len': args[0].extra['len'], 'enumerate_of': args[0].extra,
                                         'get': (lambda eng_, i, st_, _g=g: vtuple([vint(i), _g(eng_, i, st_)]))}))]
    if name == 'reversed' and len(args) == 1:
        a = args[0]
        items = eng.static_items(a)
        if items is not None:
            return [(st, vlist(list(reversed(items))))]
        if a.k == 'range' and a.items is None and len(a.extra['args']) in (1, 2) \
                and all(x.k == 'int' for x in a.extra['args']):
            ra = a.extra['args']
            start = ra[0].z if len(ra) == 2 else z3.IntVal(0)
            stop = ra[1].z if len(ra) == 2 else ra[0].z
            n = z3.If(stop > start, stop - start, 0)
            return [(st, V('seq', extra={'len': n, 'get': (lambda eng_, i, st_, _s=stop: vint(_s - 1 - i))}))]
        if a.k == 'seq' and a.extra.get('get') is not None:
            g, n = a.extra['get'], a.extra['len']
            return [(st, V('seq', extra={'len': n, 'get': (lambda eng_, i, st_, _g=g, _n=n: _g(eng_, _n - 1 - i, st_))}))]
    if name == 'zip':
        its = [eng.static_items(a) for a in args]
        if all(i is not None for i in its):
            return [(st, vlist([vtuple(list(t)) for t in zip(*its)]))]
    if name == 'sum':
        items = eng.static_items(args[0])
        if items is not None:
            acc = [(st, vint(0))]
            for it in items:
                nxt = []
                for st1, a in acc:
                    nxt.extend(eng.binop(ast.Add(), a, it, st1, node))
                acc = nxt
            return acc
    h = eng.contract.hooks.get('builtin')
    if h:
        r = h(eng, name, args, kwargs, st, node)
        if r is not None:
            return r
    raise Unsupported(node, 'builtin %s' % name)


def _unsup(node, why):
    raise Unsupported(node, why)


TRANSCENDENTAL = ('log', 'log2', 'log10', 'exp', 'sin', 'cos', 'tan', 'sqrt',
                  'asin', 'acos', 'atan', 'sinh', 'cosh', 'tanh')


def call_ext(eng, mod, name, args, kwargs, st, node):
    if mod == 'math':
        _t('math.' + name)
        if name == 'floor':
            v = args[0]
            if v.k == 'int':
                return [(st, v)]
            if v.k == 'real':
                if v.extra and 'inf' in v.extra:
                    return [(st, Raised(eng.make_exc('OverflowError', node=node)))]
                if v.ival is not None:
                    return [(st, vint(v.ival))]
                if v.ratio is not None:
                    n, d = v.ratio
                    q = py_floordiv_int(n, d)
                    eng.floor_terms.append(q)
                    return [(st, vint(q))]
                t = z3.ToInt(v.z)
                eng.floor_terms.append(t)
                return [(st, vint(t))]
        if name == 'ceil':
            v = args[0]
            if v.k == 'int':
                return [(st, v)]
            if v.k == 'real':
                if v.ival is not None:
                    return [(st, vint(v.ival))]
                if v.ratio is not None:
                    n, d = v.ratio
                    q = -py_floordiv_int(-n, d)
                    eng.floor_terms.append(q)
                    return [(st, vint(q))]
                t = z3.ToInt(-v.z)
                eng.floor_terms.append(t)
                return [(st, vint(-t))]
        if name == 'trunc':
            return conv_int(eng, args[0], st, node)
        if name == 'fabs':
            x = to_real(args[0])
            return [(st, vreal(z3.If(x >= 0, x, -x)))]
        if name == 'fmod':
            a, b = args
            outs = []
            both_int = a.k == 'int' and b.k == 'int'
            bz = b.z if both_int else to_real(b)
            for st1, nz in eng.branch(st, bz != 0, node):
                if not nz:
                    outs.append((st1, Raised(eng.make_exc('ValueError', node=node))))
                    continue
                if both_int:
                    q = trunc_div_int(a.z, b.z)
                    eng.floor_terms.append(q)
                    r = a.z - b.z * q
                    outs.append((st1, vreal(z3.ToReal(r), ival=r)))
                else:
                    x, y = to_real(a), to_real(b)
                    q = real_trunc(x / y)
                    eng.floor_terms.append(z3.ToInt(x / y))
                    outs.append((st1, vreal(x - y * z3.ToReal(q))))
            return outs
        if name == 'copysign':
            x, y = to_real(args[0]), to_real(args[1])
            ax = z3.If(x >= 0, x, -x)
            return [(st, vreal(z3.If(y >= 0, ax, -ax)))]
        if name == 'pow':
            f = eng.ufunc('pow', 2)
            return [(st, vreal(f(to_real(args[0]), to_real(args[1]))))]
        if name in TRANSCENDENTAL:
            f = eng.ufunc(name, 1)
            return [(st, vreal(f(to_real(args[0]))))]
        if name in ('isnan', 'isinf'):
            v = args[0]
            if name == 'isinf' and v.extra and 'inf' in v.extra:
                return [(st, vbool(True))]
            return [(st, vbool(False))]     # floats are reals: no NaN/inf
        if name == 'acos' or name == 'atan2' or name == 'hypot':
            f = eng.ufunc(name, len(args))
            return [(st, vreal(f(*[to_real(a) for a in args])))]
    if mod == 'builtins':
        return call_builtin(eng, name, args, kwargs, st, node)
    if mod == 'time' and name in ('time', 'monotonic', 'perf_counter'):
        _t('time.' + name)
        v = eng.fresh_val('real', 'now')
        st.trace.append(('time', v.z))
        return [(st, v)]
    if mod == 'struct' and name == 'unpack':
        _t('struct.unpack (value ranges of >i >Q >f >d; struct.error on a wrong length)')
        fmt, data = args
        if fmt.k != 'str' or fmt.py not in ('>i', '>Q', '>f', '>d', '>I') or data.k != 'bytes':
            raise Unsupported(node, 'struct.unpack format')
        n = {'>i': 4, '>Q': 8, '>f': 4, '>d': 8, '>I': 4}[fmt.py]
        outs = []
        for st1, ok in eng.branch(st, eng.bytes_len(data) == n, node):
            if not ok:
                outs.append((st1, Raised(eng.make_exc('struct.error', node=node))))
                continue
            if fmt.py in ('>f', '>d'):
                val = eng.fresh_val('real', 'unpacked')
            else:
                val = eng.fresh_val('int', 'unpacked')
                lo, hi = {'>i': (-2**31, 2**31 - 1), '>Q': (0, 2**64 - 1), '>I': (0, 2**32 - 1)}[fmt.py]
                st1.pc.append(z3.And(val.z >= lo, val.z <= hi))
            outs.append((st1, vtuple([val])))
        return outs
    if mod == 'struct' and name == 'pack':
        _t('struct.pack (lengths and value ranges of >i >Q >f >d)')
        fmt = args[0]
        if fmt.k != 'str' or fmt.py not in ('>i', '>Q', '>f', '>d', '>q', '>h', 'B', 'b', '>I'):
            raise Unsupported(node, 'struct.pack format')
        v = args[1]
        f = fmt.py
        if f in ('>i', '>Q', '>q', '>h', 'B', 'b', '>I'):
            lo, hi, n = {'>i': (-2**31, 2**31 - 1, 4), '>Q': (0, 2**64 - 1, 8),
                         '>q': (-2**63, 2**63 - 1, 8), '>h': (-2**15, 2**15 - 1, 2),
                         'B': (0, 255, 1), 'b': (-128, 127, 1), '>I': (0, 2**32 - 1, 4)}[f]
            if v.k not in ('int', 'bool'):
                return [(st, Raised(eng.make_exc('struct.error', node=node)))]
            outs = []
            z = to_int(v)
            for st1, ok in eng.branch(st, z3.And(z >= lo, z <= hi), node):
                if ok:
                    outs.append((st1, V('bytes', py=None, extra={'len': z3.IntVal(n),
                                                                 'has_nul': eng.fresh('nul', z3.BoolSort())})))
                else:
                    outs.append((st1, Raised(eng.make_exc('struct.error', node=node))))
            return outs
        if f in ('>f', '>d'):
            n = 4 if f == '>f' else 8
            if not is_num(v):
                return [(st, Raised(eng.make_exc('struct.error', node=node)))]
            if f == '>d':
                return [(st, V('bytes', py=None, extra={'len': z3.IntVal(n), 'has_nul': eng.fresh('nul', z3.BoolSort())}))]
            x = to_real(v)
            big = z3.RealVal('340282356779733661637539395458142568448')   # > this rounds out of float32
            outs = []
            for st1, ok in eng.branch(st, z3.And(x < big, x > -big), node):
                if ok:
                    outs.append((st1, V('bytes', py=None, extra={'len': z3.IntVal(n), 'has_nul': eng.fresh('nul', z3.BoolSort())})))
                else:
                    outs.append((st1, Raised(eng.make_exc('OverflowError', node=node))))
            return outs
    if ('%s.%s' % (mod, name)) in eng.contract.opts.get('opaque_ext', ()):
        st.trace.append(('ext', '%s.%s' % (mod, name), tuple(args)))
        res = [(st, V('obj', oid='new!%s.%s!%d' % (mod, name, next(eng.counter))))]
        if eng.contract.opts.get('opaque_algebra'):
            bad = st.fork()
            res.append((bad, Raised(eng.make_exc('TypeError', node=node))))
        return res
    if mod == 'inspect' or mod == 'logging':
        raise Unsupported(node, '%s.%s' % (mod, name))
    h = eng.contract.hooks.get('ext')
    if h:
        r = h(eng, mod, name, args, kwargs, st, node)
        if r is not None:
            return r
    if ('%s.%s' % (mod, name)) in eng.contract.opts.get('opaque_ext', ()):
        st.trace.append(('ext', '%s.%s' % (mod, name), tuple(args)))
        return [(st, V('obj', oid='new!%s.%s!%d' % (mod, name, next(eng.counter))))]
    raise Unsupported(node, 'external %s.%s' % (mod, name))
