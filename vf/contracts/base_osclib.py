"""Contracts for the OSC encoders' size/range laws (C06): sc3/base/_osclib.py,
sc3/base/netaddr.py. Byte contents are abstract here (length + 'contains NUL');
the content round trip is decided by the bounded driver."""
import z3
from vf.pyvc.spec import contract, Loop
from vf.pyvc.values import *

F = 'sc3/base/_osclib.py'
N = 'sc3/base/netaddr.py'


def pad4(n):
    """OSC string size: content + 1..4 NULs, multiple of 4"""
    return n + 4 - n % 4


def up4(n):
    """blob payload size rounded up to a multiple of 4"""
    return n + (-n) % 4


contract(N, 'NetAddr._strpad4', props=('C06',),
         params={'n': 'int'}, requires=lambda c: c.n >= 0, returns='int',
         ensures=[('aligned', lambda c: c.result % 4 == 0),
                  ('room-for-terminator', lambda c: z3.And(c.n < c.result, c.result <= c.n + 4))])

contract(F, 'write_string', props=('C06',),
         params={'val': 'str'},
         raises={'OscTypeBuildError': lambda c: c.val.extra['has_nul']},
         ensures=[('aligned', lambda c: c.blen(c.resultv) % 4 == 0),
                  ('utf8-plus-1-to-4-nuls', lambda c: z3.And(
                      c.blen(c.resultv) > c.u8len(c.val), c.blen(c.resultv) <= c.u8len(c.val) + 4))],
         note='a string with an embedded NUL cannot be represented and must be refused')

contract(F, 'write_string', props=(), params={'val': 'int'})   # placeholder removed below
del __import__('vf.pyvc.spec', fromlist=['REGISTRY']).REGISTRY[F + '::write_string']
contract(F, 'write_string', props=('C06',),
         params={'val': ['str', 'int', 'none', 'bytes']},
         raises={'OscTypeBuildError': lambda c: (c.val.extra['has_nul'] if c.kinds['val'] == 'str'
                                                 else z3.BoolVal(True))},
         ensures=[('aligned', lambda c: c.blen(c.resultv) % 4 == 0),
                  ('utf8-plus-1-to-4-nuls', lambda c: z3.And(
                      c.blen(c.resultv) > c.u8len(c.val), c.blen(c.resultv) <= c.u8len(c.val) + 4))],
         note='a string with an embedded NUL, or a non-string, cannot be represented and must be refused')

contract(F, 'write_int', props=('C06',),
         params={'val': ['int', 'real']},
         raises={'OscTypeBuildError': lambda c: (z3.Or(c.val < -2**31, c.val > 2**31 - 1)
                                                 if c.kinds['val'] == 'int' else z3.BoolVal(True))},
         ensures=[('four-bytes', lambda c: c.blen(c.resultv) == 4)])

contract(F, 'write_timetag', props=('C06',),
         params={'timetag': 'int'},
         raises={'OscTypeBuildError': lambda c: z3.Or(c.timetag < 0, c.timetag > 2**64 - 1)},
         ensures=[('eight-bytes', lambda c: c.blen(c.resultv) == 8)])

BIG = z3.RealVal('340282356779733661637539395458142568448')
contract(F, 'write_float', props=('C06',),
         params={'val': ['int', 'real']},
         raises={'OverflowError': lambda c: z3.Or(
             (z3.ToReal(c.val) if z3.is_int(c.val) else c.val) >= BIG,
             (z3.ToReal(c.val) if z3.is_int(c.val) else c.val) <= -BIG)},
         ensures=[('four-bytes', lambda c: c.blen(c.resultv) == 4)],
         note='values beyond float32 are refused (OverflowError escapes write_float: '
              'still a refusal, never silently altered)')

contract(F, 'write_blob', props=('C06',),
         params={'val': 'bytes'},
         raises={'OscTypeBuildError': lambda c: z3.Or(c.blen(c.val) == 0, c.blen(c.val) > 2**31 - 1)},
         ensures=[('size-prefix-plus-padded-payload', lambda c: c.blen(c.resultv) == 4 + up4(c.blen(c.val)))],
         loops={0: Loop(
             inv=lambda c, L: z3.And(c.blen(L._raw['dgram']) >= 4 + c.blen(c.val),
                                     c.blen(L._raw['dgram']) <= 4 + up4(c.blen(c.val))),
             variant=lambda c, L: 4 + up4(c.blen(c.val)) - c.blen(L._raw['dgram']),
             kinds={'dgram': 'bytes'})},
         inline=('write_int',))
