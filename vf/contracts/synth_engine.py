"""Contracts for sc3/synth/_engine.py — node ids and block arithmetic (C16)."""
import z3
from vf.pyvc.spec import contract
from vf.pyvc.values import *
from . import base_builtins

F = 'sc3/synth/_engine.py'
L = '@lemmas/engine_lemmas.py'
MAXID = 0x03FFFFFF
W26 = 2 ** 26

NID = {'user': 'int', '_init_temp': 'int', 'num_ids': 'int', '_mask': 'int',
       '_temp': 'int', '_perm': 'int', '_perm_freed': 'obj'}
CB = {'start': 'int', 'size': 'int', 'used': 'bool'}
FIELDS = {'NodeIDAllocator': NID, 'ContiguousBlock': CB}


def nid_inv(v):
    return z3.And(v.user >= 0, v.user <= 31, v._mask == v.user * W26,
                  v._init_temp >= 0, v._init_temp < MAXID,
                  v._temp >= v._init_temp, v._temp <= MAXID)


contract(F, 'NodeIDAllocator.__init__', props=('C16',),
         params={'self': 'self', 'user': 'int', 'init_temp': 'int'},
         requires=lambda c: z3.And(c.user >= 0, c.init_temp >= 0, c.init_temp < MAXID),
         raises={'Exception': lambda c: c.user > 31},
         ensures=[('establishes-invariant', lambda c: nid_inv(c.post.self)),
                  ('starts-at-init', lambda c: c.post.self._temp == c.init_temp)],
         fields=FIELDS, inline=('NodeIDAllocator.reset',),
         opts={'opaque_construct': ('set',)},
         hooks={})

contract(F, 'NodeIDAllocator.alloc', props=('C16',),
         params={'self': 'self'},
         requires=lambda c: nid_inv(c.pre.self),
         returns='int',
         ensures=[
             ('id-is-counter-in-client-range', lambda c: z3.And(
                 c.result == c.pre.self._temp + c.pre.self.user * W26,
                 c.result >= c.pre.self.user * W26 + c.pre.self._init_temp,
                 c.result <= c.pre.self.user * W26 + MAXID)),
             ('counter-advances-cyclically', lambda c: c.post.self._temp == z3.If(
                 c.pre.self._temp < MAXID, c.pre.self._temp + 1, c.pre.self._init_temp)),
             ('preserves-invariant', lambda c: nid_inv(c.post.self)),
         ],
         modifies=[('self', '_temp')],
         fields=FIELDS, opts={'bitor_disjoint': 26})

# ---- ContiguousBlock -----------------------------------------------------------
def end(v):
    return v.start + v.size


def touches(a, b):
    first_end = z3.If(a.start < b.start, end(a), end(b))
    later_start = z3.If(a.start < b.start, b.start, a.start)
    return z3.And(a.start != b.start, later_start <= first_end)


contract(F, 'ContiguousBlock.adjoins', props=('C16',),
         params={'self': 'self', 'block': 'ref:ContiguousBlock'},
         requires=lambda c: z3.And(c.pre.self.size > 0, c.pre.block.size > 0),
         returns='bool',
         ensures=[('touch-or-overlap', lambda c: c.result == touches(c.pre.self, c.pre.block))],
         modifies=[], fields=FIELDS)


def join_post(c):
    r = c.resultv
    a, b = c.pre.self, c.pre.block
    if r.k == 'none':
        return z3.Not(touches(a, b))
    v = c.result
    mn = z3.If(a.start < b.start, a.start, b.start)
    mx = z3.If(end(a) > end(b), end(a), end(b))
    return z3.And(touches(a, b), v.start == mn, end(v) == mx, z3.Not(v.used))


contract(F, 'ContiguousBlock.join', props=('C16',),
         params={'self': 'self', 'block': 'ref:ContiguousBlock'},
         requires=lambda c: z3.And(c.pre.self.size > 0, c.pre.block.size > 0),
         ensures=[('union-interval-iff-touching', join_post)],
         modifies=[], fields=FIELDS,
         inline=('ContiguousBlock.adjoins', 'ContiguousBlock.__init__', 'min', 'max'),
         opts={'construct': ('ContiguousBlock',)})


def split_post(c):
    r = c.resultv
    s = c.pre.self
    if r.k != 'list' or len(r.items) != 2:
        return z3.BoolVal(False)
    a, b = r.items
    if a.k == 'none' and b.k == 'none':
        return c.span > s.size
    if b.k == 'none':
        return z3.And(c.span == s.size, z3.BoolVal(a.k == 'ref' and a.oid == 'self'))
    if a.k == 'ref' and b.k == 'ref':
        va, vb = c.view(a), c.view(b)
        return z3.And(c.span < s.size, va.start == s.start, va.size == c.span,
                      vb.start == s.start + c.span, vb.size == s.size - c.span)
    return z3.BoolVal(False)


contract(F, 'ContiguousBlock.split', props=('C16',),
         params={'self': 'self', 'span': 'int'},
         requires=lambda c: z3.And(c.pre.self.size > 0, c.span > 0),
         ensures=[('partitions-at-span', split_post)],
         modifies=[], fields=FIELDS, inline=('ContiguousBlock.__init__',),
         opts={'construct': ('ContiguousBlock',)})


# ---- lemma over the alloc contract: ids in a window are pairwise distinct -------
from vf.pyvc.spec import lemma


def _nid_syms():
    t0, init, k, W, u = z3.Ints('t0 init k W u')
    pre = z3.And(init >= 0, init < MAXID, W == MAXID - init + 1, t0 >= init,
                 t0 <= MAXID, k >= 0, u >= 0, u <= 31)

    def succ(t):        # postcondition 'counter-advances-cyclically' of alloc
        return z3.If(t < MAXID, t + 1, init)

    def pos(kk):
        return init + (t0 - init + kk) % W
    return t0, init, k, W, u, pre, succ, pos


def _base():
    t0, init, k, W, u, pre, succ, pos = _nid_syms()
    return [pre], t0 == pos(0)


def _step():
    t0, init, k, W, u, pre, succ, pos = _nid_syms()
    tk = z3.Int('tk')
    return [pre, tk == pos(k)], succ(tk) == pos(k + 1)


def _distinct():
    t0, init, k, W, u, pre, succ, pos = _nid_syms()
    i, j = z3.Ints('i j')
    # id_k = counter_k + user*2^26 (postcondition 'id-is-counter-in-client-range')
    return [pre, 0 <= i, i < j, j < W], pos(i) + u * W26 != pos(j) + u * W26


def _clients_disjoint():
    t0, init, k, W, u, pre, succ, pos = _nid_syms()
    a, b, u2 = z3.Ints('a b u2')
    return [pre, u2 >= 0, u2 <= 31, u != u2, a >= init, a <= MAXID, b >= init, b <= MAXID], \
        a + u * W26 != b + u2 * W26


lemma('node-ids-distinct-within-window', props=('C16',),
      over=('sc3/synth/_engine.py::NodeIDAllocator.alloc',),
      vcs=[('k-th-counter-closed-form.base', _base),
           ('k-th-counter-closed-form.step', _step),
           ('ids-pairwise-distinct-in-window', _distinct),
           ('clients-have-disjoint-id-ranges', _clients_disjoint)],
      note='induction over the alloc contract: k-th counter = init + (t0-init+k) mod W')
