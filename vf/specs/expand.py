"""Reference for SuperCollider's multichannel expansion ("wrap-and-zip") law,
on plain nested Python lists.  Written from the sclang documentation
(Multichannel-Expansion help file; SequenceableCollection wrapExtend / flop /
flat / reshapeLike / unbubble; "tuples and scalars are opaque" from the property
statement), not from sc3's code.

    MN(f, args) = f(*args)                                  if no arg is a list
                = [ MN(f, [a[i mod len a] if list else a])  otherwise,
                    for i < max len ]

`list` means list or any subclass (sc3's ChannelList); tuples, strings,
numbers and every other object are opaque values.
"""


def is_list(x):
    return isinstance(x, list)


def mn(f, args, kwargs=None, wrap=None):
    """The law.  args: positional values, kwargs: keyword values (both may hold
    lists).  `wrap` builds the container of one expansion level (default: plain
    list).  Raises ValueError on an empty list argument (the law does not say
    what an empty channel array expands to)."""
    args = list(args)
    kwargs = dict(kwargs or {})
    allv = args + list(kwargs.values())
    n = 0
    any_list = False
    for a in allv:
        if is_list(a):
            any_list = True
            if len(a) == 0:
                raise ValueError('empty list argument')
            n = max(n, len(a))
    if not any_list:
        return f(*args, **kwargs)
    out = []
    for i in range(n):
        ai = [a[i % len(a)] if is_list(a) else a for a in args]
        ki = {k: (a[i % len(a)] if is_list(a) else a) for k, a in kwargs.items()}
        out.append(mn(f, ai, ki, wrap))
    return wrap(out) if wrap else out


def combinations(args):
    """Number of single-channel calls the law makes for these arguments."""
    args = list(args)
    n = 0
    any_list = False
    for a in args:
        if is_list(a):
            any_list = True
            n = max(n, len(a))
    if not any_list:
        return 1
    return sum(combinations([a[i % len(a)] if is_list(a) else a for a in args])
               for i in range(n))


def one_level(args):
    """The argument tuples of the first expansion level only (None when no
    argument is a list)."""
    n = 0
    any_list = False
    for a in args:
        if is_list(a):
            any_list = True
            n = max(n, len(a))
    if not any_list:
        return None
    return [[a[i % len(a)] if is_list(a) else a for a in args] for i in range(n)]


# --- list algebra (SequenceableCollection) on nested lists ------------------

def deep_map(op, a):
    """Unary operator on a nested list: applied to every leaf, shape kept."""
    if is_list(a):
        return [deep_map(op, x) for x in a]
    return op(a)


def binop(op, a, b):
    """Binary operator between nested lists / scalars: wrap-and-zip, deep."""
    return mn(op, [a, b])


def narop(op, a, *scalars):
    """N-ary operator whose extra operands are scalars: deep map over `a`."""
    if is_list(a):
        return [narop(op, x, *scalars) for x in a]
    return op(a, *scalars)


def wrap_extend(lst, n):
    if not lst or n <= 0:
        return []
    return [lst[i % len(lst)] for i in range(n)]


def flat(lst):
    out = []
    for x in lst:
        if is_list(x):
            out.extend(flat(x))
        else:
            out.append(x)
    return out


def flop(rows):
    """Rows -> columns; shorter rows wrap; a non-list row is a one-element row.
    Defined here for non-empty `rows` without empty sub-lists."""
    cols = [r if is_list(r) else [r] for r in rows]
    n = max(len(c) for c in cols)
    return [[c[i % len(c)] for c in cols] for i in range(n)]


def reshape_like(one, another):
    """The nested shape of `another`, filled depth-first with the leaves of
    `one`, cyclically."""
    leaves = flat(one) if is_list(one) else [one]
    k = [0]

    def fill(x):
        if is_list(x):
            return [fill(y) for y in x]
        v = leaves[k[0] % len(leaves)]
        k[0] += 1
        return v
    return fill(another)


def unbubble(x):
    if is_list(x) and len(x) == 1:
        return x[0]
    return x


def as_list(x):
    """asArray: a list stays a list, anything else (tuples and strings
    included, by the property statement's "tuples are opaque") is bubbled."""
    if is_list(x):
        return list(x)
    return [x]
