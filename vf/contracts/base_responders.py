"""Contracts for the responder filters and dispatchers (C18: "incoming messages reach exactly the
responders that should fire"): sc3/base/responders.py.

  OscFuncAddrMessageMatcher      fires iff the sender's host equals the expected one and the expected port is
                                 None (any port) or equal
  OscFuncRecvPortMessageMatcher  fires iff the receiving port equals the expected one
  OscFuncBothMessageMatcher      the conjunction of the two
  OscArgsMatcher                 fires iff the message has at least as many arguments as the template and every
                                 template item accepts the argument at its position: None accepts anything, a
                                 callable decides by its truth value, anything else must be equal
  OscMessageDispatcher.wrap_func the filters are stacked: argument template innermost, then the sender/port
                                 filter that corresponds to what the proxy specifies, nothing when it specifies
                                 neither
  OscMessageDispatcher.__call__  every function registered under the message's address is called exactly once,
                                 in order; no other; nobody for an unknown address

"Fires" = exactly one call of fn.value(func, msg, time, addr, recv_port) with the four values unchanged; "does
not fire" = no call at all.  Equality of dynamic values is z3 equality of the abstract values.
"""
import ast
import z3
from vf.pyvc.spec import contract, Loop
from vf.pyvc.values import *
from vf.pyvc import values as VV
from vf.pyvc.engine import Raised, Unsupported

F = 'sc3/base/responders.py'
FN = 'sc3/base/functions.py'


def value_pol(eng, selfv, args, kwargs, st, node):
    st.trace.append(('fire', tuple(args)))
    return [(st, NONE)]


def any_eq(eng, op, a, b, st, node):
    # == / != between two dynamic values: equality of the abstract values
    if isinstance(op, (ast.Eq, ast.NotEq)) and a.k == 'any' and b.k == 'any':
        r = a.z == b.z
        return z3.Not(r) if isinstance(op, ast.NotEq) else r
    return None


def fired(c):
    return [e for e in c.trace if e[0] == 'fire']


def fires_with(c, func_oid):
    f = fired(c)
    if len(f) != 1 or len(f[0][1]) != 5:
        return False
    a = f[0][1]
    return (a[0].k == 'obj' and a[0].oid == func_oid and a[1] is c._params['msg'] and a[2] is c._params['time']
            and a[3] is c._params['addr'] and a[4] is c._params['recv_port'])


def exact(c, cond, func_oid='self.func'):
    """fires exactly once with the unchanged values iff cond, else not at all"""
    f = fired(c)
    if not f:
        return z3.Not(cond)
    return z3.And(cond, z3.BoolVal(bool(fires_with(c, func_oid))))


NA = {'addr': 'any', 'port': 'int'}
PARAMS = {'self': 'self', 'msg': 'obj', 'time': 'any', 'addr': 'ref:Sender', 'recv_port': 'any'}


def host_ok(c, portk):
    same_host = z3.Const('self.addr.addr', VV.Any) == z3.Const('addr.addr', VV.Any)
    if portk == 'none':
        return same_host
    return z3.And(same_host, z3.Int('self.addr.port') == z3.Int('addr.port'))


def port_ok(c):
    return z3.Const('self.recv_port', VV.Any) == c._params['recv_port'].z


from vf.pyvc.spec import REGISTRY
for portk in ('none', 'int'):
    flds = {'Expected': {'addr': 'any', 'port': portk}, 'Sender': NA}
    contract(F, 'OscFuncAddrMessageMatcher.__call__', props=('C18',), params=PARAMS,
             ensures=[('fires-iff-same-host-and-(any-port-or-same-port)',
                       lambda c, _p=portk: exact(c, host_ok(c, _p)))],
             modifies=[], fields=dict(flds, OscFuncAddrMessageMatcher={'addr': 'ref:Expected', 'func': 'obj'}),
             policies={FN + '::value': value_pol}, hooks={'compare': any_eq},
             class_modules={'OscFuncAddrMessageMatcher': F}, native=False)
    key = '%s::OscFuncAddrMessageMatcher.__call__#expected-port-%s' % (F, portk)
    REGISTRY[key] = REGISTRY.pop('%s::OscFuncAddrMessageMatcher.__call__' % F)
    REGISTRY[key].key = key
    contract(F, 'OscFuncBothMessageMatcher.__call__', props=('C18',), params=PARAMS,
             ensures=[('fires-iff-sender-and-receiving-port-both-match',
                       lambda c, _p=portk: exact(c, z3.And(host_ok(c, _p), port_ok(c))))],
             modifies=[], fields=dict(flds, OscFuncBothMessageMatcher={'addr': 'ref:Expected', 'func': 'obj',
                                                                      'recv_port': 'any'}),
             policies={FN + '::value': value_pol}, hooks={'compare': any_eq},
             class_modules={'OscFuncBothMessageMatcher': F}, native=False)
    key = '%s::OscFuncBothMessageMatcher.__call__#expected-port-%s' % (F, portk)
    REGISTRY[key] = REGISTRY.pop('%s::OscFuncBothMessageMatcher.__call__' % F)
    REGISTRY[key].key = key

contract(F, 'OscFuncRecvPortMessageMatcher.__call__', props=('C18',), params=PARAMS,
         ensures=[('fires-iff-the-receiving-port-matches', lambda c: exact(c, port_ok(c)))],
         modifies=[], fields={'OscFuncRecvPortMessageMatcher': {'recv_port': 'any', 'func': 'obj'}, 'Sender': NA},
         policies={FN + '::value': value_pol}, hooks={'compare': any_eq},
         class_modules={'OscFuncRecvPortMessageMatcher': F}, native=False)


# ---- argument templates --------------------------------------------------------------------------------------
TPL = z3.Array('template.items', z3.IntSort(), VV.Any)
ARG = z3.Array('msg.items', z3.IntSort(), VV.Any)
IS_CALLABLE = z3.Function('template_item_is_callable', VV.Any, z3.BoolSort())
ACCEPTS = z3.Function('template_callable_accepts', VV.Any, VV.Any, z3.BoolSort())
NT = z3.Int('template.len')
NM = z3.Int('msg.len')


def tpl_kind(eng, name):
    return V('seq', extra={'len': NT, 'facts': [NT >= 0],
                           'get': (lambda eng_, i, st_: V('any', z3.Select(TPL, i), extra={'tpl': True}))})


def msg_kind(eng, name):
    return V('seq', extra={'len': NM, 'facts': [NM >= 1], 'themsg': True,
                           'get': (lambda eng_, i, st_: V('any', z3.Select(ARG, i)))})


def am_builtin(eng, name, args, kwargs, st, node):
    if name == 'callable' and args and args[0].k == 'any':
        return [(st, vbool(IS_CALLABLE(args[0].z)))]
    return None


def am_call(eng, f, args, kwargs, st, node):
    if f.k == 'any' and len(args) == 1 and args[0].k == 'any':
        st.trace.append(('predicate', f.z, args[0].z))
        return [(st, vbool(ACCEPTS(f.z, args[0].z)))]
    return None


def item_accepts(i):
    t, a = z3.Select(TPL, i), z3.Select(ARG, i + 1)             # args = msg[1:]
    return z3.If(IS_CALLABLE(t), ACCEPTS(t, a), z3.Or(VV.tag_of(t) == TAGS['none'], t == a))


def tpl_inv(c, L):
    k = z3.Int('k')
    return z3.And(NM - 1 >= NT, z3.ForAll([k], z3.Implies(z3.And(k >= 0, k < L.i), item_accepts(k))))


def args_post(c):
    k = z3.Int('k')
    all_ok = z3.And(NM - 1 >= NT, z3.ForAll([k], z3.Implies(z3.And(k >= 0, k < NT), item_accepts(k))))
    f = fired(c)
    if not f:
        if [e for e in c.trace if e[0] == 'loop-head']:
            i = c.st.env['i'].z                                   # the position that refused
            return z3.And(i >= 0, i < NT, z3.Not(item_accepts(i)))
        return NM - 1 < NT                                        # too few arguments
    a = f[0][1]
    ok = (len(f) == 1 and len(a) == 5 and a[0].k == 'obj' and a[0].oid == 'self.func' and a[1] is c._params['msg']
          and a[2] is c._params['time'] and a[3] is c._params['addr'] and a[4] is c._params['recv_port'])
    return z3.And(all_ok, z3.BoolVal(bool(ok)))


contract(F, 'OscArgsMatcher.__call__', props=('C18',),
         params={'self': 'self', 'msg': msg_kind, 'time': 'any', 'addr': 'obj', 'recv_port': 'any'},
         requires=lambda c: z3.And(NM >= 1, NT >= 0),
         ensures=[('fires-iff-enough-arguments-and-every-template-item-accepts', args_post)],
         loops={0: Loop(early_exit=True, inv=tpl_inv, kinds={'i': 'int', 'item': 'any'})},
         modifies=[], fields={'OscArgsMatcher': {'arg_template': tpl_kind, 'func': 'obj'}},
         hooks={'builtin_first': am_builtin, 'call': am_call, 'compare': any_eq}, policies={FN + '::value': value_pol},
         class_modules={'OscArgsMatcher': F}, native=False,
         note='equality of a template value and an argument is equality of the abstract values (Python == on '
              'numbers of different types, e.g. 1 == 1.0, is exercised by the bounded driver)')


# ---- the exact-address dispatcher ------------------------------------------------------------------------------
FUNCS = z3.Array('registered.items', z3.IntSort(), VV.Any)
NF = z3.Int('registered.len')
HAS_ADDR = z3.Bool('address_is_registered')


def d_contains(eng, container, item, st, node):
    if container.k == 'obj' and container.oid == 'self.active':
        st.trace.append(('lookup', item))
        return HAS_ADDR
    return None


def d_getitem(eng, obj, idx, st, node):
    if obj.k == 'obj' and obj.oid == 'self.active':
        return [(st, V('seq', extra={'len': NF, 'facts': [NF >= 0], 'registered': True, 'key': idx,
                                     'get': (lambda eng_, i, st_: V('any', z3.Select(FUNCS, i)))}))]
    if obj.k == 'obj' and obj.oid == 'msg' and idx.k == 'int':
        return [(st, V('obj', oid='msg[0]'))]
    return None


def d_value(eng, selfv, args, kwargs, st, node):
    st.trace.append(('fire', tuple(args)))
    return [(st, NONE)]


def d_since(trace):
    idx = -1
    for i, e in enumerate(trace):
        if e[0] == 'loop-head':
            idx = i
    return trace[idx + 1:] if idx >= 0 else None


def d_pass(c, L):
    ev = d_since(c.trace)
    if not ev:
        return z3.BoolVal(True)
    ev = [e for e in ev if e[0] == 'fire']
    if len(ev) != 1 or len(ev[0][1]) != 5 or ev[0][1][0].k != 'any':
        return z3.BoolVal(False)
    a = ev[0][1]
    ok = a[1] is c._params['msg'] and a[2] is c._params['time'] and a[3] is c._params['addr'] and a[4] is c._params['recv_port']
    return z3.And(z3.BoolVal(bool(ok)), a[0].z == z3.Select(FUNCS, L.i - 1))       # function i-1 of the list, once


def d_post(c):
    heads = [e for e in c.trace if e[0] == 'loop-head']
    if not heads:
        return z3.And(z3.Not(HAS_ADDR), z3.BoolVal(not fired(c)))                  # unknown address: nobody fires
    return HAS_ADDR


contract(F, 'OscMessageDispatcher.__call__', props=('C18',),
         params={'self': 'self', 'msg': 'obj', 'time': 'any', 'addr': 'obj', 'recv_port': 'any'},
         ensures=[('only-the-functions-registered-for-this-address', d_post)],
         loops={0: Loop(inv=d_pass, kinds={'func': 'any'})},
         modifies=[], fields={'OscMessageDispatcher': {'active': 'obj'}},
         hooks={'contains': d_contains, 'getitem': d_getitem}, policies={FN + '::value': d_value},
         class_modules={'OscMessageDispatcher': F}, native=False,
         note='that the loop runs over a COPY of the registered list (so that a responder removing itself or others '
              'during delivery does not change who is called) is not visible in this model, where lists are values: '
              'it is checked by the bounded driver (dispatch histories with self-removal)')


# ---- how a proxy's filters are stacked: OscMessageDispatcher.wrap_func ------------------------------------
import itertools as _it


def wf_construct(eng, f, args, kwargs, st, node):
    if f.k == 'class' and f.py in ('OscArgsMatcher', 'OscFuncBothMessageMatcher', 'OscFuncAddrMessageMatcher',
                                   'OscFuncRecvPortMessageMatcher'):
        return [(st, V('obj', oid='new-' + f.py, extra={'cls': f.py, 'args': tuple(args)}))]
    return None


def wf_builtin(eng, name, args, kwargs, st, node):
    # getattr(func_proxy, 'recv_port' | 'arg_template', None)
    if name == 'getattr' and len(args) == 3 and args[0].k == 'ref' and args[1].k == 'str':
        return eng.get_attr(args[0], args[1].py, st, node)
    return None


def wrap_post(src, port, tpl):
    def post(c):
        r = c.resultv
        proxy = c.post.func_proxy

        def is_field(v, name):
            f = c.st.objs.get('func_proxy', {}).get(name)
            return f is not None and v is f
        # innermost: the template filter around the proxy's function, or the function itself
        def inner_ok(v):
            if tpl:
                return (v.k == 'obj' and v.extra and v.extra.get('cls') == 'OscArgsMatcher' and len(v.extra['args']) == 2
                        and is_field(v.extra['args'][0], 'arg_template') and is_field(v.extra['args'][1], 'func'))
            return is_field(v, 'func')
        if src and port:
            ok = (r.k == 'obj' and r.extra and r.extra.get('cls') == 'OscFuncBothMessageMatcher' and len(r.extra['args']) == 3
                  and is_field(r.extra['args'][0], 'src_id') and is_field(r.extra['args'][1], 'recv_port')
                  and inner_ok(r.extra['args'][2]))
        elif src:
            ok = (r.k == 'obj' and r.extra and r.extra.get('cls') == 'OscFuncAddrMessageMatcher' and len(r.extra['args']) == 2
                  and is_field(r.extra['args'][0], 'src_id') and inner_ok(r.extra['args'][1]))
        elif port:
            ok = (r.k == 'obj' and r.extra and r.extra.get('cls') == 'OscFuncRecvPortMessageMatcher' and len(r.extra['args']) == 2
                  and is_field(r.extra['args'][0], 'recv_port') and inner_ok(r.extra['args'][1]))
        else:
            ok = inner_ok(r)
        return z3.BoolVal(bool(ok))
    return post


for src, port, tpl in _it.product((False, True), repeat=3):
    contract(F, 'OscMessageDispatcher.wrap_func', props=('C18',), params={'self': 'self', 'func_proxy': 'ref:Proxy'},
             ensures=[('template-filter-innermost,then-the-sender/port-filter-the-proxy-asks-for', wrap_post(src, port, tpl))],
             modifies=[], fields={'OscMessageDispatcher': {},
                                  'Proxy': {'func': 'obj', 'src_id': 'obj' if src else 'none',
                                            'recv_port': 'obj' if port else 'none',
                                            'arg_template': 'obj' if tpl else 'none'}},
             hooks={'construct': wf_construct, 'builtin_first': wf_builtin},
             class_modules={'OscMessageDispatcher': F, 'Proxy': F}, native=False)
    key = '%s::OscMessageDispatcher.wrap_func#src-%s-port-%s-template-%s' % (F, src, port, tpl)
    REGISTRY[key] = REGISTRY.pop('%s::OscMessageDispatcher.wrap_func' % F)
    REGISTRY[key].key = key


# ---- registry: AbstractWrappingDispatcher.add / remove ---------------------------------------------------
# add(proxy): the proxy's wrapped function (wrap_func, above) is remembered under the proxy and entered under
# the proxy's key - appended to the list that is there, or as a new one-element list - and the dispatcher
# registers itself with the OSC interface iff it was not registered.  remove(proxy): that same wrapped
# function leaves the key's list, the key disappears when its list becomes empty, the proxy's entry is
# deleted, and the dispatcher unregisters iff nothing is active any more.
KEY_KNOWN = z3.Bool('key_is_active')


def reg_getattr(eng, obj, name, st, node):
    if obj.k == 'module' and name == 'NotificationCenter':
        return [(st, V('obj', oid='NotificationCenter'))]
    if obj.k == 'obj' and obj.oid == 'NotificationCenter' and name in ('register', 'unregister'):
        def nc(eng, args, kwargs, st, node, _n=name):
            st.trace.append(('notif-' + _n, tuple(args)))
            return [(st, NONE)]
        return [(st, V('func', py=('spec', nc)))]
    if obj.k == 'obj' and obj.oid == 'active-list' and name in ('append', 'remove'):
        def lst(eng, args, kwargs, st, node, _n=name):
            st.trace.append(('list-' + _n, args[0]))
            return [(st, NONE)]
        return [(st, V('func', py=('spec', lst)))]
    return None


def reg_getitem(eng, obj, idx, st, node):
    if obj.k == 'obj' and obj.oid == 'self.active':
        outs = []
        for st1, known in eng.branch(st, KEY_KNOWN, node):
            if known:
                after = st1.ghost.get('list_after_remove')
                outs.append((st1, V('ref', cls='KeyList', oid='active-list', extra={
                    'truth': z3.Bool('list_nonempty_after') if after else z3.BoolVal(True)})
                    if False else V('obj', oid='active-list')))
            else:
                outs.append((st1, Raised(eng.make_exc('KeyError', node=node))))
        return outs
    if obj.k == 'obj' and obj.oid == 'self.wrapped_funcs':
        return [(st, V('obj', oid='the-wrapped-func'))]
    return None


def reg_setitem(eng, obj, idx, v, st, node):
    if obj.k == 'obj' and obj.oid in ('self.active', 'self.wrapped_funcs'):
        st.trace.append(('store', obj.oid, idx, v))
        return [('next', st)]
    return None


def reg_delitem(eng, obj, idx, st, node):
    if obj.k == 'obj' and obj.oid in ('self.active', 'self.wrapped_funcs'):
        st.trace.append(('delete', obj.oid, idx))
        return [('next', st)]
    return None


def keys_pol(eng, selfv, args, kwargs, st, node):
    return [(st, vlist([V('obj', oid='the-key')]))]


def wrap_pol(eng, selfv, args, kwargs, st, node):
    st.trace.append(('wrap', tuple(args)))
    return [(st, V('obj', oid='the-wrapped-func'))]


def traced_pol(name):
    def pol(eng, selfv, args, kwargs, st, node):
        st.trace.append((name,))
        return [(st, NONE)]
    return pol


def add_post(c):
    t = c.trace
    stores = [e for e in t if e[0] == 'store']
    apps = [e for e in t if e[0] == 'list-append']
    regs = [e for e in t if e[0] == 'register']
    proxy = c._params['func_proxy']
    remembered = [e for e in stores if e[1] == 'self.wrapped_funcs']
    notif = [e for e in t if e[0] == 'notif-register']
    ok = (len(remembered) == 1 and remembered[0][2] is proxy and remembered[0][3].k == 'obj'
          and remembered[0][3].oid == 'the-wrapped-func' and len([e for e in t if e[0] == 'wrap']) == 1
          # the dispatcher subscribes to the proxy's 'function' changes (that is how a changed function gets re-wrapped)
          and len(notif) == 1 and len(notif[0][1]) == 4 and notif[0][1][0] is proxy
          and notif[0][1][1].k == 'str' and notif[0][1][1].py == 'function'
          and notif[0][1][2].k == 'ref' and notif[0][1][2].oid == 'self')
    if not ok:
        return z3.BoolVal(False)
    new_lists = [e for e in stores if e[1] == 'self.active']
    cl = [z3.BoolVal(len(regs) == 1) == z3.Not(c.pre.self.registered), z3.BoolVal(len(regs) <= 1)]
    if apps:
        ok2 = len(apps) == 1 and not new_lists and apps[0][1].k == 'obj' and apps[0][1].oid == 'the-wrapped-func'
        cl += [KEY_KNOWN, z3.BoolVal(bool(ok2))]
    else:
        ok2 = (len(new_lists) == 1 and new_lists[0][2].k == 'obj' and new_lists[0][2].oid == 'the-key'
               and new_lists[0][3].k == 'list' and new_lists[0][3].items is not None and len(new_lists[0][3].items) == 1
               and new_lists[0][3].items[0].oid == 'the-wrapped-func')
        cl += [z3.Not(KEY_KNOWN), z3.BoolVal(bool(ok2))]
    return z3.And(*cl)


REG_FIELDS = {'AbstractWrappingDispatcher': {'registered': 'bool', 'active': 'obj', 'wrapped_funcs': 'obj'}}
REG_POL = {'AbstractWrappingDispatcher.wrap_func': wrap_pol,
           'AbstractWrappingDispatcher.get_keys_for_func_proxy': keys_pol,
           'AbstractWrappingDispatcher.register': traced_pol('register'),
           'AbstractDispatcher.register': traced_pol('register'),
           'AbstractWrappingDispatcher.unregister': traced_pol('unregister'),
           'AbstractDispatcher.unregister': traced_pol('unregister')}

contract(F, 'AbstractWrappingDispatcher.add', props=('C18',), params={'self': 'self', 'func_proxy': 'obj'},
         ensures=[('wrapped-function-remembered-and-entered-under-the-key;registers-iff-needed', add_post)],
         modifies=[], fields=REG_FIELDS,
         hooks={'getattr': reg_getattr, 'getitem': reg_getitem, 'setitem': reg_setitem},
         policies=REG_POL, class_modules={'AbstractWrappingDispatcher': F}, native=False,
         note='one key per proxy (what both OSC dispatchers return); the registries are dictionaries: ghost events')


# ---- remove / update_func_for_func_proxy -----------------------------------------------------------------------
LIST_NONEMPTY_AFTER = z3.Bool('key_list_nonempty_after_the_removal')
OTHER_KEYS = z3.Bool('other_keys_are_active')
IDX_OLD = z3.Int('position_of_the_old_wrapped_function')


def reg2_getattr(eng, obj, name, st, node):
    if obj.k == 'ref' and obj.oid == 'self' and name == 'active':
        deleted = [e for e in st.trace if e[0] == 'delete' and e[1] == 'self.active']
        return [(st, V('ref', cls='Registry', oid='self.active', extra={
            'truth': OTHER_KEYS if deleted else z3.BoolVal(True)}))]
    if obj.k == 'ref' and obj.cls == 'KeyList' and name in ('append', 'remove', 'index'):
        def lst(eng, args, kwargs, st, node, _n=name):
            st.trace.append(('list-' + _n, args[0]))
            return [(st, vint(IDX_OLD) if _n == 'index' else NONE)]
        return [(st, V('func', py=('spec', lst)))]
    return reg_getattr(eng, obj, name, st, node)


def reg2_getitem(eng, obj, idx, st, node):
    if obj.k == 'ref' and obj.oid == 'self.active':
        removed = [e for e in st.trace if e[0] == 'list-remove']
        return [(st, V('ref', cls='KeyList', oid='active-list', extra={
            'key': idx, 'truth': LIST_NONEMPTY_AFTER if removed else z3.BoolVal(True)}))]
    if obj.k == 'obj' and obj.oid == 'self.wrapped_funcs':
        stored = [e for e in st.trace if e[0] == 'store' and e[1] == 'self.wrapped_funcs']
        return [(st, stored[-1][3] if stored else V('obj', oid='the-old-wrapped-func'))]
    return None


def reg2_setitem(eng, obj, idx, v, st, node):
    if obj.k == 'ref' and obj.cls == 'KeyList':
        st.trace.append(('list-store', obj.extra['key'], idx, v))
        return [('next', st)]
    if obj.k == 'ref' and obj.oid == 'self.active':
        st.trace.append(('store', obj.oid, idx, v))
        return [('next', st)]
    return reg_setitem(eng, obj, idx, v, st, node)


def reg2_delitem(eng, obj, idx, st, node):
    if obj.k in ('obj', 'ref') and obj.oid in ('self.active', 'self.wrapped_funcs'):
        st.trace.append(('delete', obj.oid, idx))
        return [('next', st)]
    return None


def is_obj(v, oid):
    return v is not None and v.k == 'obj' and v.oid == oid


def remove_post(c):
    t = c.trace
    proxy = c._params['func_proxy']
    notif = [e for e in t if e[0] == 'notif-unregister']
    rem = [e for e in t if e[0] == 'list-remove']
    dels_a = [e for e in t if e[0] == 'delete' and e[1] == 'self.active']
    dels_w = [e for e in t if e[0] == 'delete' and e[1] == 'self.wrapped_funcs']
    unreg = [e for e in t if e[0] == 'unregister']
    ok = (len(notif) == 1 and len(notif[0][1]) == 3 and notif[0][1][0] is proxy and notif[0][1][2].k == 'ref'
          and notif[0][1][2].oid == 'self'
          and len(rem) == 1 and is_obj(rem[0][1], 'the-old-wrapped-func')        # THAT proxy's wrapped function leaves
          and len(dels_w) == 1 and dels_w[0][2] is proxy                          # the proxy's entry is deleted
          and len(dels_a) <= 1 and all(is_obj(e[2], 'the-key') for e in dels_a)
          and len(unreg) <= 1
          and not [e for e in t if e[0] in ('list-append', 'list-store', 'store', 'register')])
    if not ok:
        return z3.BoolVal(False)
    return z3.And(z3.BoolVal(len(dels_a) == 1) == z3.Not(LIST_NONEMPTY_AFTER),   # key gone iff its list became empty
                  z3.BoolVal(len(unreg) == 1) == z3.And(z3.Not(LIST_NONEMPTY_AFTER), z3.Not(OTHER_KEYS)))


REG2_HOOKS = {'getattr': reg2_getattr, 'getitem': reg2_getitem, 'setitem': reg2_setitem, 'delitem': reg2_delitem}
REG2_FIELDS = {'AbstractWrappingDispatcher': {'registered': 'bool', 'wrapped_funcs': 'obj'}, 'Registry': {}, 'KeyList': {}}
REG2_CM = {'AbstractWrappingDispatcher': F, 'Registry': F, 'KeyList': F}

contract(F, 'AbstractWrappingDispatcher.remove', props=('C18',), params={'self': 'self', 'func_proxy': 'obj'},
         ensures=[('wrapped-function-leaves-its-key;key-deleted-iff-empty;unregisters-iff-nothing-active', remove_post)],
         modifies=[], fields=REG2_FIELDS, hooks=REG2_HOOKS, policies=REG_POL, class_modules=REG2_CM, native=False,
         note='a proxy that was added (its key is active, its wrapped function in the key\'s list); one key per proxy')


def update_post(c):
    t = c.trace
    proxy = c._params['func_proxy']
    wraps = [e for e in t if e[0] == 'wrap']
    stores = [e for e in t if e[0] == 'store']
    idx = [e for e in t if e[0] == 'list-index']
    ls = [e for e in t if e[0] == 'list-store']
    ok = (len(wraps) == 1 and wraps[0][1][0] is proxy
          and len(stores) == 1 and stores[0][1] == 'self.wrapped_funcs' and stores[0][2] is proxy
          and is_obj(stores[0][3], 'the-wrapped-func')                            # the NEW wrapped function is remembered
          and len(idx) == 1 and is_obj(idx[0][1], 'the-old-wrapped-func')         # the OLD one is looked up ...
          and len(ls) == 1 and is_obj(ls[0][1], 'the-key') and ls[0][2].k == 'int'
          and is_obj(ls[0][3], 'the-wrapped-func')                                # ... and replaced
          and not [e for e in t if e[0] in ('list-append', 'list-remove', 'delete', 'register', 'unregister')])
    if not ok:
        return z3.BoolVal(False)
    return ls[0][2].z == IDX_OLD                                                  # IN PLACE: same position in the firing order


contract(F, 'AbstractWrappingDispatcher.update_func_for_func_proxy', props=('C18',),
         params={'self': 'self', 'func_proxy': 'obj'},
         ensures=[('new-wrapped-function-takes-the-place-of-the-old-one-in-the-firing-order', update_post)],
         modifies=[], fields=REG2_FIELDS, hooks=REG2_HOOKS, policies=REG_POL, class_modules=REG2_CM, native=False,
         note='a proxy that was added; one key per proxy')


# ---- AbstractResponderFunc: one_shot, func setter, enable / disable / free -------------------------------------
def rf_getattr(eng, obj, name, st, node):
    if obj.k == 'module' and name in ('NotificationCenter', 'CmdPeriod'):
        return [(st, V('obj', oid=name))]
    if obj.k == 'obj' and obj.oid in ('NotificationCenter', 'CmdPeriod', 'self.dispatcher', 'the-proxy-set') \
            and name in ('notify', 'add', 'remove'):
        def call(eng, args, kwargs, st, node, _o=obj.oid, _n=name):
            st.trace.append((_o + '.' + _n, tuple(args)))
            return [(st, NONE)]
        return [(st, V('func', py=('spec', call)))]
    if obj.k == 'class' and name == '_all_func_proxies':
        return [(st, V('obj', oid='the-proxy-set'))]
    if obj.k == 'ref' and obj.oid == 'self' and name.endswith('__on_cmd_period'):
        return [(st, V('obj', oid='self.__on_cmd_period'))]
    return None


IN_SET = z3.Bool('self_in_the_proxy_set')


def rf_contains(eng, container, item, st, node):
    if container.k == 'obj' and container.oid == 'the-proxy-set':
        return IN_SET
    return None


def rf_builtin(eng, name, args, kwargs, st, node):
    if name == 'type' and len(args) == 1 and args[0].k == 'ref':
        return [(st, V('class', py=args[0].cls))]
    return None


def rf_setattr(eng, obj, name, v, st, node):
    # self.func = <closure>: what the installed function DOES is the point - it is run here, once, on four
    # arbitrary values, in a copy of the state; its events become one ghost event
    if obj.k == 'ref' and obj.oid == 'self' and name == 'func':
        if v.k == 'func' and v.py[0] == 'closure':
            probe = st.fork()
            probe.objs.setdefault('self', {})['_func'] = v        # when it runs, it IS the responder's function
            n0 = len(probe.trace)
            args = [V('obj', oid='call-arg%d' % i) for i in range(4)]
            runs = []
            for st1, r in eng.call_closure(v, args, {}, probe, node):
                runs.append((st1.trace[n0:], isinstance(r, Raised)))
            st.trace.append(('installed', v, runs))
        else:
            st.trace.append(('installed', v, None))
        return [('next', st)]
    return None


def rf_free_pol(eng, selfv, args, kwargs, st, node):
    st.trace.append(('free', selfv))
    return [(st, NONE)]


def rf_value_pol(eng, selfv, args, kwargs, st, node):
    st.trace.append(('fire', tuple(args)))
    return [(st, NONE)]


def one_shot_post(c):
    inst = [e for e in c.trace if e[0] == 'installed']
    if len(inst) != 1 or inst[0][2] is None or len(inst[0][2]) != 1:
        return z3.BoolVal(False)
    events, raised = inst[0][2][0]
    events = [e for e in events if e[0] in ('free', 'fire')]
    if raised or [e[0] for e in events] != ['free', 'fire']:                        # FIRST freed, THEN the function runs
        return z3.BoolVal(False)
    a = events[1][1]
    ok = (events[0][1].k == 'ref' and events[0][1].oid == 'self'
          and len(a) == 5 and is_obj(a[0], 'self._func')                                      # the function that was there before
          and all(is_obj(a[1 + i], 'call-arg%d' % i) for i in range(4)))            # with the values it is called with
    return z3.BoolVal(bool(ok))


RF_FIELDS = {'AbstractResponderFunc': {'_func': 'obj', '_permanent': 'bool', 'enabled': 'bool', 'dispatcher': 'obj'}}
RF_HOOKS = {'getattr': rf_getattr, 'contains': rf_contains, 'builtin_first': rf_builtin}
RF_CM = {'AbstractResponderFunc': F}

contract(F, 'AbstractResponderFunc.one_shot', props=('C18',), params={'self': 'self'},
         ensures=[('installed-function-frees-the-responder-BEFORE-calling-the-original-with-the-same-values', one_shot_post)],
         modifies=[], fields=RF_FIELDS, hooks=dict(RF_HOOKS, setattr=rf_setattr),
         policies={'AbstractResponderFunc.free': rf_free_pol, FN + '::value': rf_value_pol},
         class_modules=RF_CM, native=False,
         note='the installed closure is executed symbolically once on four arbitrary values; installing goes through '
              'the func setter (contract below)')


def setter_post(c):
    n = [e for e in c.trace if e[0] == 'NotificationCenter.notify']
    ok = (len(n) == 1 and len(n[0][1]) == 2 and n[0][1][0].k == 'ref' and n[0][1][0].oid == 'self'
          and n[0][1][1].k == 'str' and n[0][1][1].py == 'function'
          and c.post.self.v('_func') is c._params['value'])
    return z3.BoolVal(bool(ok))


contract(F, 'AbstractResponderFunc.func@setter', props=('C18',), params={'self': 'self', 'value': 'obj'},
         ensures=[('function-stored-and-dependants-notified-once', setter_post)],
         modifies=[('self', '_func')], fields=RF_FIELDS, hooks=RF_HOOKS, class_modules=RF_CM, native=False)


def count(c, name):
    return len([e for e in c.trace if e[0] == name])


def enable_post(c):
    was = c.pre.self.enabled
    perm = c.pre.self._permanent
    adds, cp_add, sets = count(c, 'self.dispatcher.add'), count(c, 'CmdPeriod.add'), count(c, 'the-proxy-set.add')
    others = count(c, 'self.dispatcher.remove') + count(c, 'CmdPeriod.remove') + count(c, 'the-proxy-set.remove')
    # (what happens with CmdPeriod is not part of "who fires": not demanded)
    others = count(c, 'self.dispatcher.remove') + count(c, 'the-proxy-set.remove')
    return z3.And(z3.BoolVal(others == 0), z3.BoolVal(adds <= 1 and sets <= 1),
                  z3.BoolVal(adds == 1) == z3.Not(was),                     # registered with the dispatcher iff it was not
                  z3.BoolVal(sets == 1) == z3.Not(was),
                  c.post.self.enabled)


def disable_post(c):
    was = c.pre.self.enabled
    perm = c.pre.self._permanent
    rem, cp_rem = count(c, 'self.dispatcher.remove'), count(c, 'CmdPeriod.remove')
    others = count(c, 'self.dispatcher.add') + count(c, 'CmdPeriod.add') + count(c, 'the-proxy-set.add')
    others = count(c, 'self.dispatcher.add') + count(c, 'the-proxy-set.add')
    return z3.And(z3.BoolVal(others == 0), z3.BoolVal(rem <= 1),
                  z3.BoolVal(rem == 1) == was,                              # leaves the dispatcher iff it was enabled
                  z3.Not(c.post.self.enabled))


def rf_disable_pol(eng, selfv, args, kwargs, st, node):
    st.trace.append(('disable', selfv))
    return [(st, NONE)]


def free_post(c):
    dis, rem = count(c, 'disable'), count(c, 'the-proxy-set.remove')
    return z3.And(z3.BoolVal(dis <= 1 and rem <= 1),
                  z3.BoolVal(rem == 1) == IN_SET,                           # leaves the set of responders iff it is in it
                  z3.BoolVal(dis == 1) == c.pre.self.enabled)               # disabled iff it was enabled


contract(F, 'AbstractResponderFunc.enable', props=('C18',), params={'self': 'self'},
         ensures=[('enters-dispatcher-and-responder-set-once-iff-it-was-disabled', enable_post)],
         modifies=[('self', 'enabled')], fields=RF_FIELDS, hooks=RF_HOOKS, class_modules=RF_CM, native=False)
contract(F, 'AbstractResponderFunc.disable', props=('C18',), params={'self': 'self'},
         ensures=[('leaves-the-dispatcher-once-iff-it-was-enabled', disable_post)],
         modifies=[('self', 'enabled')], fields=RF_FIELDS, hooks=RF_HOOKS, class_modules=RF_CM, native=False)
contract(F, 'AbstractResponderFunc.free', props=('C18',), params={'self': 'self'},
         ensures=[('leaves-the-responder-set-iff-in-it;disabled-iff-enabled', free_post)],
         modifies=[], fields=RF_FIELDS, hooks=RF_HOOKS, policies={'AbstractResponderFunc.disable': rf_disable_pol},
         class_modules=RF_CM, native=False)


# ---- the pattern dispatcher: OscMessagePatternDispatcher.__call__ -----------------------------------------------
# For EVERY registered address (pass i of the outer loop): the incoming pattern is matched against it in THIS call
# (one call of the matcher with (msg[0], address i)), and the functions registered under it fire - each exactly
# once, in order, with the four values unchanged - iff the matcher said yes.  Nothing is remembered between calls.
NKEYS = z3.Int('active.len')
KEY_AT = z3.Function('active.key', z3.IntSort(), VV.Any)
NFUNCS_AT = z3.Function('active.nfuncs', z3.IntSort(), z3.IntSort())
FUNC_AT = z3.Function('active.func', z3.IntSort(), z3.IntSort(), VV.Any)


def pd_getattr(eng, obj, name, st, node):
    if obj.k == 'obj' and obj.oid == 'self.active' and name == 'copy':
        return [(st, V('func', py=('spec', lambda eng, a, kw, st, node: [(st, V('obj', oid='active-copy'))])))]
    if obj.k == 'obj' and obj.oid == 'active-copy' and name == 'items':
        def items(eng, a, kw, st, node):
            def get(eng_, i, st_):
                funcs = V('seq', extra={'len': NFUNCS_AT(i), 'facts': [NFUNCS_AT(i) >= 0], 'key_index': i,
                                        'get': (lambda e2, j, s2, _i=i: V('any', FUNC_AT(_i, j)))})
                st_.pc.append(NFUNCS_AT(i) >= 0)
                return vtuple([V('any', KEY_AT(i)), funcs])
            return [(st, V('seq', extra={'len': NKEYS, 'facts': [NKEYS >= 0], 'get': get}))]
        return [(st, V('func', py=('spec', items)))]
    return None


def pd_getitem(eng, obj, idx, st, node):
    if obj.k == 'obj' and obj.oid == 'msg' and idx.k == 'int':
        return [(st, V('obj', oid='msg[0]'))]
    return None


def pd_match(eng, selfv, args, kwargs, st, node):
    r = z3.Bool('matches!%d' % next(eng.counter))
    st.trace.append(('match', tuple(args), r))
    return [(st, vbool(r))]


def pd_since(trace, ordinal):
    idx = -1
    for i, e in enumerate(trace):
        if e[0] == 'loop-head' and e[1] == ordinal:
            idx = i
    return trace[idx + 1:] if idx >= 0 else None


def pd_inner(c, L):
    ev = pd_since(c.trace, 1)
    if not ev:
        return z3.BoolVal(True)
    ev = [e for e in ev if e[0] in ('fire', 'match')]
    if len(ev) != 1 or ev[0][0] != 'fire' or len(ev[0][1]) != 5 or ev[0][1][0].k != 'any':
        return z3.BoolVal(False)
    a = ev[0][1]
    funcs = c.st.env['funcs']              # (a renamed local: KeyError -> the function is reported out of the subset)
    if funcs.k != 'seq' or 'key_index' not in funcs.extra:
        return z3.BoolVal(False)
    ok = a[1] is c._params['msg'] and a[2] is c._params['time'] and a[3] is c._params['addr'] and a[4] is c._params['recv_port']
    return z3.And(z3.BoolVal(bool(ok)), a[0].z == FUNC_AT(funcs.extra['key_index'], L.i - 1))


def pd_outer(c, L):
    ev = pd_since(c.trace, 0)
    if not ev:
        return z3.BoolVal(True)
    ms = [e for e in ev if e[0] == 'match']
    if len(ms) != 1 or len(ms[0][1]) != 2 or not is_obj(ms[0][1][0], 'msg[0]') or ms[0][1][1].k != 'any':
        return z3.BoolVal(False)                                      # matched in THIS call, this pattern
    i = L.i - 1
    inner = [e for e in ev if e[0] == 'loop-head' and e[1] == 1]
    fires = [e for e in ev if e[0] == 'fire']
    cl = [ms[0][1][1].z == KEY_AT(i)]                                 # against address i
    if inner:
        n_inner = c.st.env.get('__i1')
        if fires or n_inner is None or n_inner.k != 'int':
            return z3.BoolVal(False)
        cl += [ms[0][2], n_inner.z == NFUNCS_AT(i)]                   # matched: ALL its functions went through the inner loop
    else:
        cl += [z3.Not(ms[0][2]), z3.BoolVal(not fires)]               # not matched: nobody fires
    return z3.And(*cl)


def pd_post(c):
    n = c.st.env.get('__i0')                       # passes of the outer loop when the call returns
    if n is None or n.k != 'int':
        return z3.BoolVal(False)
    return n.z == NKEYS


def funcs_kind(eng, name):
    i = z3.Int(name + '#key')
    return V('seq', extra={'len': NFUNCS_AT(i), 'facts': [NFUNCS_AT(i) >= 0], 'key_index': i,
                           'get': (lambda e2, j, s2, _i=i: V('any', FUNC_AT(_i, j)))})


contract(F, 'OscMessagePatternDispatcher.__call__', props=('C18',),
         params={'self': 'self', 'msg': 'obj', 'time': 'any', 'addr': 'obj', 'recv_port': 'any'},
         ensures=[('every-registered-address-is-tried', pd_post)],
         loops={0: Loop(inv=pd_outer, kinds={'key': 'any', 'funcs': funcs_kind, 'func': 'any'}),
                1: Loop(inv=pd_inner, kinds={'func': 'any'})},
         modifies=[], fields={'OscMessagePatternDispatcher': {'active': 'obj'}},
         hooks={'getattr': pd_getattr, 'getitem': pd_getitem},
         policies={FN + '::value': d_value, 'sc3/base/_oscmatch.py::osc_rematch_pattern': pd_match},
         class_modules={'OscMessagePatternDispatcher': F}, native=False,
         note='the matcher itself (sc3/base/_oscmatch.py) is decided by the bounded driver against an independent '
              'OSC 1.0 matcher; copies of the registry and of the lists are values here (see the exact dispatcher)')
