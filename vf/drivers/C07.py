"""C07 -- Bundles are stamped with logical time plus latency; scores are ordered.

Sub-checks (``--only``):
  nrt    in-process, non-real-time mode: generated programs of routines on
         SystemClock / TempoClock / AppClock (plus sends outside routines and
         from plain scheduled functions) sending messages and (nested) bundles
         with latencies from {None,-1,0,0.2,1}; main.process(tail) must give
         the reference schedule in .list and its length-prefixed encoding in
         .raw (decoded with vf.specs.osc10).
  rt     sub-processes in real-time mode: datagrams captured at the interface's
         _send while every clock wake-up is delayed by 0-20 ms; time tags must
         be the routine's logical time + latency (exact integer), never the
         send instant; outside routines now + latency (50 ms tolerance);
         None / negative latency -> time tag 1.
  reuse  as nrt, but the program keeps a (nested) bundle element list and passes
         the same object to send_bundle again at a later logical time.
  conv   SystemClock.elapsed_time_to_osc / osc_to_elapsed_time on a grid
         (monotone, mutually inverse within 2**-32 s), in both modes.

Reference for nesting ("may not precede their parent"): a sub-bundle under a
parent with latency p >= 0 has to be refused when its own latency is None,
negative or < p.  Under a parent with latency None everything is allowed.  A
parent with negative latency ("immediately") and a sub-bundle with latency
None / negative is left open (the statement does not say; sc3 refuses some).

Left open as well: where the tail marker sits relative to bundles whose
latency carries them beyond it (it is required at end-of-run time + tail, after
every entry with an earlier or equal time); the root-node entry the score starts
with; rounding of the last bit of a time tag (floor or ceil of t * 2**32).
"""
import json
import math
import os
import random
import subprocess
import sys
import warnings

from vf.common import driver_main, wants, silence_sc3_logging
from vf.specs import osc10 as O

LATS = [None, -1, 0, 0.2, 1]
TWO32 = 2.0 ** 32
NTP_1970 = 2208988800


# ------------------------------------------------------------------ programs --

def gen_elements(rng, depth, parent, p_bad):
    """Element specs: 'm' | 'cm' | ['b', sub_latency, elements]."""
    els = []
    for _ in range(rng.randint(1, 3)):
        r = rng.random()
        if depth > 0 and r < 0.45:
            if rng.random() < p_bad:
                sub = rng.choice(LATS)
            elif parent is None:
                sub = rng.choice(LATS)
            elif parent < 0:
                sub = rng.choice([0, 0.2, 1])
            else:
                sub = parent + rng.choice([0, 0, 0.3, 1])
            els.append(['b', sub, gen_elements(rng, depth - 1, sub, p_bad)])
        elif r < 0.55:
            els.append('cm')
        else:
            els.append('m')
    return els


def gen_steps(rng, waits, nsteps, p_bad=0.25):
    steps = []
    for _ in range(nsteps):
        r = rng.random()
        if r < 0.3:
            steps.append(['wait', rng.choice(waits)])
        elif r < 0.42:
            steps.append(['msg'])
        else:
            lat = rng.choice(LATS)
            steps.append(['bundle', lat, gen_elements(rng, 3, lat, p_bad)])
    return steps


def gen_program(rng, rt=False):
    waits = [0, 0.03, 0.05, 0.08] if rt else [0, 0.25, 0.5, 1, 1 / 3, 0.1]
    clocks = [['system'], ['tempo', 1], ['tempo', 2], ['tempo', 0.5], ['tempo', 3], ['app']]
    routines = []
    for _ in range(rng.randint(1, 3 if rt else 4)):
        clock = rng.choice(clocks)
        steps = gen_steps(rng, waits, rng.randint(3, 8))
        spawn = gen_steps(rng, waits, rng.randint(2, 4)) if rng.random() < 0.3 else None
        if clock[0] == 'app' and not rt:
            spawn = None     # NRT AppClock schedules at absolute times (a C08/C09 matter)
        routines.append({'clock': clock, 'steps': steps, 'spawn': spawn})
    prog = {'routines': routines,
            'outside': gen_steps(rng, [0], rng.randint(0, 3)),
            'tail': rng.choice([0, 0, 0.5, 1.5, 10])}
    if not rt:
        prog['funcs'] = [[rng.choice([0, 0.5, 1, 2]), rng.choice(LATS)]
                         for _ in range(rng.randint(0, 2))]
    return prog


def verdict(lat, elements):
    """'accept' | 'refuse' | 'open' for a bundle spec (nesting rule above)."""
    res = 'accept'
    for e in elements:
        if isinstance(e, list):
            sub = e[1]
            if lat is not None:
                if lat >= 0:
                    if sub is None or sub < lat:
                        return 'refuse'
                elif sub is None or sub < 0:
                    res = 'open'
            v = verdict(sub, e[2])
            if v == 'refuse':
                return 'refuse'
            if v == 'open':
                res = 'open'
    return res


class Builder:
    """Turns element specs into sc3 bundle lists with identifiable messages."""

    def __init__(self):
        self.serial = 0

    def msg(self):
        self.serial += 1
        k = self.serial
        return ['/c07', k, 0.5 * k, 's%d' % k, bytes([k % 251 + 1]) * (k % 5 + 1), None, True]

    def cmsg(self, sub):
        self.serial += 1
        # a bundle-shaped argument, and a completion MESSAGE that itself carries a
        # timed bundle (three levels: every level is stamped from this send's instant)
        return ['/c07cm', self.serial, [sub, ['/done', self.serial]],
                ['/inner', self.serial, 'x', [sub, ['/deep', self.serial]]]]

    def elements(self, specs):
        out = []
        for e in specs:
            if e == 'm':
                out.append(self.msg())
            elif e == 'cm':
                out.append(self.cmsg(0.2 if self.serial % 2 else None))
            else:
                out.append([e[1], *self.elements(e[2])])
        return out


def clone(x):
    return [clone(v) for v in x] if isinstance(x, list) else x


# ------------------------------------------------------- expected wire forms --

class ExpBlob:
    """A blob argument that has to hold this packet."""

    def __init__(self, packet):
        self.packet = packet


def exp_message(lst, tt):
    tags, args = '', []
    for a in lst[1:]:
        if isinstance(a, list) and a:
            tags += 'b'
            args.append(ExpBlob(exp_message(a, tt) if isinstance(a[0], str) else exp_bundle(a, tt)))
        else:
            for t, v in O.coerce(a):
                tags += t
                if t not in '[]':
                    args.append(v)
    return O.Message(lst[0], tags, args)


def exp_bundle(lst, tt):
    """tt(latency) -> exact real-valued time tag (a float or an int); the
    observed integer may be its floor or its ceiling."""
    return O.Bundle(tt(lst[0]), [exp_message(e, tt) if isinstance(e[0], str) else exp_bundle(e, tt)
                                 for e in lst[1:]])


def tt_ok(obs, exp):
    if isinstance(exp, int):
        return obs == exp
    return isinstance(obs, int) and abs(obs - exp) < 1.0


def match(obs, exp, path='packet'):
    """None if the decoded packet matches the expectation, else a message."""
    if isinstance(exp, O.Bundle):
        if not isinstance(obs, O.Bundle):
            return '%s: expected a bundle' % path
        if not tt_ok(obs.timetag, exp.timetag):
            return '%s: time tag %r, expected %r' % (path, obs.timetag, exp.timetag)
        if len(obs.elements) != len(exp.elements):
            return '%s: %d elements, expected %d' % (path, len(obs.elements), len(exp.elements))
        for i, (a, b) in enumerate(zip(obs.elements, exp.elements)):
            r = match(a, b, '%s[%d]' % (path, i))
            if r:
                return r
        return None
    if not isinstance(obs, O.Message):
        return '%s: expected a message' % path
    if obs.address != exp.address or obs.tags != exp.tags or len(obs.args) != len(exp.args):
        return '%s: message %r %r, expected %r %r' % (path, obs.address, obs.tags,
                                                      exp.address, exp.tags)
    for i, (a, b) in enumerate(zip(obs.args, exp.args)):
        if isinstance(b, ExpBlob):
            try:
                inner = O.decode(a)
            except O.DecodeError as e:
                return '%s arg %d: blob is not an OSC packet: %s' % (path, i, e)
            r = match(inner, b.packet, '%s arg %d' % (path, i))
            if r:
                return r
        elif not O.same(a, b):
            return '%s arg %d: %r, expected %r' % (path, i, a, b)
    return None


def timetags_of(packet, path=()):
    """[(path, timetag)] of every bundle in a decoded packet, blobs included."""
    out = []
    if isinstance(packet, O.Bundle):
        out.append((path, packet.timetag))
        for i, e in enumerate(packet.elements):
            out += timetags_of(e, path + (i,))
    else:
        for i, a in enumerate(packet.args):
            if isinstance(a, bytes) and a[:1] in (b'#', b'/'):
                try:
                    out += timetags_of(O.decode(a), path + ('arg%d' % i,))
                except O.DecodeError:
                    pass
    return out


# ----------------------------------------------------------------- NRT part --

_S = {}


def sc_nrt():
    if not _S:
        silence_sc3_logging()
        warnings.simplefilter('ignore')
        import sc3
        sc3.init('nrt')
        from sc3.base.main import main
        from sc3.base.netaddr import NetAddr
        from sc3.base import clock as clk
        from sc3.base import stream as stm
        _S.update(main=main, NetAddr=NetAddr, clk=clk, stm=stm)
    return _S


def make_clock(s, spec):
    clk = s['clk']
    if spec[0] == 'system':
        return clk.SystemClock
    if spec[0] == 'app':
        return clk.AppClock
    return clk.TempoClock(spec[1])


def abs_times(lst, base):
    """The bundle list with every (nested) latency replaced by its time."""
    def T(x):
        return base + (x if x is not None and x >= 0 else 0.0)
    return [T(lst[0])] + [e if isinstance(e[0], str) else abs_times(e, base) for e in lst[1:]]


def run_nrt_program(prog):
    """Runs the program on the real library; returns (log, score_list, raw, end)."""
    s = sc_nrt()
    main, stm = s['main'], s['stm']
    main.reset()
    addr = s['NetAddr']('127.0.0.1', 57110)
    bld = Builder()
    log = []          # one record per attempted send, in call order

    # bundle element lists the program keeps and sends more than once
    shared = {k: bld.elements(spec) for k, spec in sorted(prog.get('shared', {}).items())}
    pristine = clone(shared)

    def do_send(step, now):
        if step[0] == 'msg':
            m = bld.msg()
            rec = {'kind': 'msg', 'now': now, 'lat': 0, 'sent': [0, clone(m)], 'verdict': 'accept'}
            call = lambda: addr.send_msg(*clone(m))
        elif step[0] == 'shared':
            lat, key = step[1], step[2]
            rec = {'kind': 'bundle', 'now': now, 'lat': lat, 'sent': [lat, *clone(pristine[key])],
                   'verdict': verdict(lat, prog['shared'][key])}
            call = lambda: addr.send_bundle(lat, *shared[key])     # the same objects every time
        else:
            lat, specs = step[1], step[2]
            els = bld.elements(specs)
            rec = {'kind': 'bundle', 'now': now, 'lat': lat, 'sent': [lat, *clone(els)],
                   'verdict': verdict(lat, specs)}
            call = lambda: addr.send_bundle(lat, *clone(els))
        try:
            call()
            rec['raised'] = None
        except Exception as e:
            rec['raised'] = '%s: %s' % (type(e).__name__, e)
        log.append(rec)

    def body_of(steps, spawn=None):
        def body(inval):
            _, clock = inval
            spawned = False
            for st in steps:
                if st[0] == 'wait':
                    if spawn is not None and not spawned:
                        spawned = True
                        stm.Routine(body_of(spawn)).play()
                    yield st[1]
                else:
                    do_send(st, clock.seconds)
        return body

    for st in prog['outside']:
        if st[0] != 'wait':
            do_send(st, None)
    for r in prog['routines']:
        stm.Routine(body_of(r['steps'], r.get('spawn'))).play(make_clock(s, r['clock']))
    def plain(lat):
        def f():
            do_send(['bundle', lat, ['m']], None)      # not a routine: "outside routines"
        return f

    for t, lat in prog.get('funcs', []):
        s['clk'].SystemClock.sched(t, plain(lat))
    score = main.process(prog['tail'])
    end = main.elapsed_time()
    return log, score.list, bytes(score.raw), end


def check_nrt(prog):
    log, lst, raw, end = run_nrt_program(prog)
    fails = []

    def bad(key, what, observed=None, expected=None):
        if prog.get('shared') and key in ('C07.nrt:time', 'C07.nrt:order', 'C07.nrt:raw'):
            key = 'C07.nrt:reused-list'
        fails.append({'obligation': 'C07.nrt', 'key': key, 'what': what, 'input': prog,
                      'observed': observed, 'expected': expected,
                      'replay': {'func': 'nrt', 'args': json.dumps(prog)}})

    expected = []      # (entry with absolute times, send instant) in send order
    for rec in log:
        if rec['verdict'] == 'refuse':
            if rec['raised'] is None:
                bad('C07.nrt:refusal',
                    'send_bundle%r accepted although a nested bundle precedes its parent'
                    % (short(rec['sent']),), 'accepted', 'an exception')
                return fails
            continue
        if rec['raised'] is not None:
            if rec['verdict'] == 'open':
                continue
            bad('C07.nrt:unexpected-refusal',
                'send %s raised %s' % (short(rec['sent']), rec['raised']), rec['raised'], 'accepted')
            return fails
        base = 0.0 if rec['now'] is None else rec['now']
        expected.append((abs_times(rec['sent'], base), base))
    marker = [end + prog['tail'], ['/c_set', 0, 0]]
    expected.append((marker, 0.0))
    expected.sort(key=lambda e: e[0][0])       # stable: send order within equal times
    bases = [b for _, b in expected]
    expected = [e for e, _ in expected]
    obs = list(lst)
    if obs and obs[0] == [0.0, ['/g_new', 1, 0, 0]]:
        obs = obs[1:]
        skipped = 1
    else:
        skipped = 0
    n_mark = sum(1 for e in obs if e[1:] == [['/c_set', 0, 0]])
    if n_mark != 1:
        bad('C07.nrt:marker', 'the score holds %d tail markers' % n_mark, n_mark, 1)
    elif not any(e == marker for e in obs):
        got = [e for e in obs if e[1:] == [['/c_set', 0, 0]]][0]
        bad('C07.nrt:marker', 'tail marker at %r, expected end of run %r + tail %r'
            % (got[0], end, prog['tail']), got, marker)
    if not fails and obs != expected:
        key = 'C07.nrt:time'
        if sorted(map(repr, obs)) == sorted(map(repr, expected)):
            key = 'C07.nrt:order'
        i = next((i for i, (a, b) in enumerate(zip(obs, expected)) if a != b),
                 min(len(obs), len(expected)))
        bad(key, 'score.list differs from the reference schedule at entry %d: %s, expected %s'
            % (i, short(obs[i]) if i < len(obs) else 'nothing',
               short(expected[i]) if i < len(expected) else 'nothing'),
            short(obs, 600), short(expected, 600))
    if any(a[0] > b[0] for a, b in zip(lst, lst[1:])):
        bad('C07.nrt:order', 'score.list is not ordered by time', short([e[0] for e in lst], 400))
    # binary form
    if not fails:
        try:
            entries = O.decode_score(raw)
        except O.DecodeError as e:
            bad('C07.nrt:raw', 'score.raw is not a sequence of length-prefixed OSC bundles: %s' % e)
            return fails
        if len(entries) != len(expected) + skipped:
            bad('C07.nrt:raw', 'score.raw holds %d bundles, the score %d'
                % (len(entries), len(expected) + skipped), len(entries), len(expected) + skipped)
            return fails
        if skipped:
            r = match(entries[0][1], exp_bundle([0.0, ['/g_new', 1, 0, 0]], lambda t: t * TWO32))
            if r:
                bad('C07.nrt:raw', 'first raw entry is not the first list entry: ' + r)
        for i, (exp, (n, bndl, chunk)) in enumerate(zip(expected, entries[skipped:])):
            # exp holds absolute times; blobs inside messages hold latencies
            # relative to the send instant of that entry
            e = exp_entry(exp, bases[i])
            r = match(bndl, e, 'raw[%d]' % (i + skipped))
            if r is None and O.encode(bndl) != chunk:
                r = 'raw[%d] is not canonically encoded' % (i + skipped)
            if r:
                bad('C07.nrt:raw', 'score.raw does not encode the scheduled bundle: ' + r,
                    short(bndl, 400), short(exp, 400))
                break
    return fails


def exp_entry(entry, base):
    """Expected wire form of a score entry whose bundle times are absolute and
    whose message arguments still hold latencies relative to ``base``."""
    def blob_tt(lat):
        return (base + (lat if lat is not None and lat >= 0 else 0.0)) * TWO32

    def conv(b):
        return O.Bundle(b[0] * TWO32,
                        [exp_message(e, blob_tt) if isinstance(e[0], str) else conv(e)
                         for e in b[1:]])
    return conv(entry)


def short(x, n=240):
    s = repr(x)
    return s if len(s) <= n else s[:n] + '...'


def run_nrt(rep):
    n = 5000 if rep.tier == 'thorough' else 200
    fails = []
    distinct = set()
    sends = refused = 0
    samples = []
    fixed = [
        {'routines': [{'clock': ['system'], 'spawn': None, 'steps': [
            ['msg'], ['wait', 0.5], ['bundle', 0.2, ['m', ['b', 0.3, ['m']]]],
            ['bundle', None, ['m']], ['bundle', -1, ['m']], ['wait', 1],
            ['bundle', 0.2, ['m', ['b', 0.1, ['m']]]], ['bundle', 0.2, ['m', ['b', None, ['m']]]],
            ['bundle', 0, ['m', ['b', None, ['m']]]], ['bundle', 0.2, ['m', ['b', -1, ['m']]]],
            ['bundle', None, ['m', ['b', 0.1, ['m', ['b', 0.1, ['m']], ['b', 0.05, ['m']]]]]],
            ['bundle', None, [['b', None, [['b', None, ['cm']]]]]]]}],
         'outside': [['bundle', 3, ['m']], ['bundle', None, ['m']], ['msg'], ['bundle', -1, ['m']],
                     ['bundle', 0.2, ['cm', ['b', 0.2, ['m']]]]],
         'funcs': [[1, 0.2], [1, None]], 'tail': 1.5},
        {'routines': [{'clock': ['tempo', 2], 'spawn': [['bundle', 0.2, ['m']], ['wait', 0.25], ['msg']],
                       'steps': [['bundle', 1, ['m']], ['wait', 1], ['bundle', 0, ['m']],
                                 ['wait', 1 / 3], ['bundle', 0.2, ['cm']]]},
                      {'clock': ['app'], 'spawn': None,
                       'steps': [['bundle', 0.2, ['m']], ['wait', 0.5], ['bundle', 0.2, ['m']],
                                 ['wait', 0], ['msg']]},
                      {'clock': ['system'], 'spawn': None,
                       'steps': [['bundle', 0.7, ['m']], ['wait', 0.5], ['bundle', 0.2, ['m']],
                                 ['bundle', 0.2, ['m']], ['bundle', 0, ['m']]]}],
         'outside': [], 'funcs': [], 'tail': 0},
        {'routines': [], 'outside': [], 'funcs': [], 'tail': 0},
        {'routines': [], 'outside': [['bundle', 1, ['m']]], 'funcs': [], 'tail': 2.5},
    ]
    progs = fixed + [gen_program(rep.rng) for _ in range(n)]
    for prog in progs:
        distinct.add(json.dumps(prog, sort_keys=True))
        fs = check_nrt(prog)
        fails += fs
        if len(samples) < 4:
            samples.append(prog)
    # count what was exercised (re-run is cheap, but the log is not returned by check_nrt)
    for prog in progs[:len(fixed) + min(n, 60)]:
        log = run_nrt_program(prog)[0]
        sends += sum(1 for r in log if r['raised'] is None)
        refused += sum(1 for r in log if r['raised'] is not None)
    rep.bounded(
        name='nrt', function='NetAddr.send_msg/send_bundle -> OscNrtInterface/OscScore; '
                             'main.process(tail).list/.raw; main.reset',
        bound='%d fixed + %d generated programs: 0-3 sends outside routines, 1-4 routines (3-8 steps, '
              'optional spawned child routine) on SystemClock/TempoClock(1,2,.5,3)/AppClock, 0-2 plain '
              'scheduled functions; latencies {None,-1,0,0.2,1}; bundles nested to depth 3, 25%% of '
              'the sub-latencies drawn without regard to the parent; tail from {0,.5,1.5,10}'
              % (len(fixed), n),
        evaluations=len(progs), distinct_nontrivial=len(distinct),
        rule='expected schedule = stable sort by (logical time at the send + latency) of the accepted '
             'sends in call order + tail marker at end-of-run + tail; .list must equal it entry by '
             'entry (exact float times); .raw must decode (vf.specs.osc10) to the same bundles in the '
             'same order with time tag floor/ceil(t*2^32) and coerced arguments; bundles whose nesting '
             'precedes the parent must raise and leave no trace; distinct = distinct programs',
        samples=samples, exhaustive=False,
        extra={'sends_accepted_in_first_%d' % (len(fixed) + min(n, 60)): sends,
               'sends_refused': refused})
    return fails


def run_reuse(rep):
    """Programs that keep a bundle element list and send the same object again
    later: every send is stamped relative to its own send instant."""
    rng = rep.rng
    fixed = []
    for spec in (['m'], ['m', ['b', 0.2, ['m']]], [['b', 0.2, ['m', ['b', 0.3, ['m']]]]],
                 [['b', None, [['b', None, [['b', 0.5, ['m']]]]]]],
                 ['cm'], ['m', 'cm'], [['b', 0.2, ['cm']]]):
        for clock in (['system'], ['tempo', 2]):
            fixed.append({'routines': [{'clock': clock, 'spawn': None, 'steps': [
                ['wait', 1], ['shared', 0.1 if spec[0] == 'm' or spec[0][1] is not None else None, 'a'],
                ['wait', 1], ['shared', 0.1 if spec[0] == 'm' or spec[0][1] is not None else None, 'a'],
                ['wait', 0.5], ['shared', None, 'a']]}],
                'shared': {'a': spec}, 'outside': [], 'funcs': [], 'tail': 0})
    n = 600 if rep.tier == 'thorough' else 40
    progs = list(fixed)
    for _ in range(n):
        prog = gen_program(rng)
        prog['shared'] = {'a': gen_elements(rng, 3, None, 0.0), 'b': gen_elements(rng, 2, 0.2, 0.0)}
        for r in prog['routines']:
            for _ in range(rng.randint(1, 3)):
                key = rng.choice('ab')
                lat = rng.choice([None, -1] if key == 'a' else [0, 0.2])
                r['steps'].insert(rng.randint(0, len(r['steps'])), ['shared', lat, key])
        progs.append(prog)
    fails = []
    for prog in progs:
        fails += check_nrt(prog)
    rep.bounded(
        name='reuse', function='NetAddr.send_bundle -> OscScore.add (non-real-time mode)',
        bound='%d fixed programs (one element list of nesting depth 0-3 sent three times from a '
              'routine on SystemClock / TempoClock(2)) + %d generated programs in which two kept '
              'element lists are sent 1-3 times by every routine' % (len(fixed), n),
        evaluations=len(progs), distinct_nontrivial=len({json.dumps(p, sort_keys=True) for p in progs}),
        rule='same reference schedule as "nrt"; the program passes the same list objects to '
             'send_bundle each time',
        samples=[fixed[0], fixed[4], progs[-1]])
    return fails


# ---------------------------------------------------------------- conversions --

def check_conv(to_osc, to_sec, xs, mode):
    """Monotone and mutually inverse within 2**-32 s."""
    fails = []

    def bad(what, obs=None, exp=None, case=None):
        fails.append({'obligation': 'C07.conv', 'key': 'C07.clock:osc-conversion', 'what': what,
                      'input': {'mode': mode, 'x': case}, 'observed': obs, 'expected': exp,
                      'replay': {'func': 'conv', 'args': {'mode': mode}}})
    xs = sorted(xs)
    prev = None
    for x in xs:
        t = to_osc(x)
        if t != int(t):
            bad('elapsed_time_to_osc(%r) = %r is not integral' % (x, t), t, 'integer', x)
            break
        back = to_sec(int(t))
        tol = 2.0 ** -32 + 4 * math.ulp(max(abs(x), 1.0))
        if not abs(back - x) <= tol:
            bad('osc_to_elapsed_time(elapsed_time_to_osc(%r)) = %r (off by %g s > 2^-32)'
                % (x, back, back - x), back, x, x)
            break
        again = to_osc(back)
        if abs(again - t) > 1:
            bad('elapsed_time_to_osc(osc_to_elapsed_time(%d)) = %d' % (t, again), again, t, x)
            break
        if prev is not None and t < prev[1]:
            bad('elapsed_time_to_osc not monotone: f(%r)=%d > f(%r)=%d' % (prev[0], prev[1], x, t),
                t, '>= %d' % prev[1], x)
            break
        prev = (x, t)
    # one second is 2**32 units
    if not fails:
        for x in (0.0, 1.0, 1000.0):
            d = to_osc(x + 1.0) - to_osc(x)
            if abs(d - 2 ** 32) > 1:
                bad('one second is %d time tag units, expected 2^32' % d, d, 2 ** 32, x)
                break
    return fails


def conv_grid(rng):
    xs = [0.0, 2.0 ** -32, 2.0 ** -31, 1e-9, 1e-6, 0.001, 0.1, 0.2, 0.5, 1.0, 1.5, 10.0, 59.999,
          3600.0, 86400.0, 1e6]
    xs += [k / 64 for k in range(0, 640, 7)]
    xs += [rng.uniform(0, 10 ** rng.randint(-3, 5)) for _ in range(300)]
    x = 12.345
    for _ in range(50):                      # neighbours one ulp apart
        x = math.nextafter(x, math.inf)
        xs.append(x)
    return xs


def run_conv_nrt(rep):
    s = sc_nrt()
    SC = s['clk'].SystemClock
    xs = conv_grid(rep.rng)
    fails = check_conv(SC.elapsed_time_to_osc, SC.osc_to_elapsed_time, xs, 'nrt')
    rep.bounded(name='conv', function='SystemClock.elapsed_time_to_osc/osc_to_elapsed_time (NRT; the '
                                      'RT instance is checked inside the rt sub-processes)',
                bound='%d elapsed times in [0, 1e6] s: powers of two, a 7/64 s lattice, 300 random, 50 '
                      'consecutive doubles' % len(xs),
                evaluations=len(xs), distinct_nontrivial=len(set(xs)),
                rule='integral, monotone, |back(forth(x)) - x| <= 2^-32 s (+4 ulp), forth(back(t)) '
                     'within 1 unit, one second = 2^32 units',
                samples=xs[:5])
    return fails


# ------------------------------------------------------------------ RT part --

def rt_child(spec):
    """Runs inside a fresh interpreter: real-time mode, captured datagrams,
    jittered wake-ups.  Prints one JSON document."""
    import logging
    import threading
    import time
    logging.disable(logging.CRITICAL)
    warnings.simplefilter('ignore')
    rng = random.Random(spec['seed'])
    import sc3
    sc3.LIB_PORT = 20000 + (os.getpid() * 16) % 40000
    sc3.LIB_PORT_RANGE = 16
    sc3.init('rt')
    from sc3.base.main import main
    from sc3.base.netaddr import NetAddr
    from sc3.base import clock as clk
    from sc3.base import stream as stm
    SC = clk.SystemClock

    captured = []
    iface = main._osc_interface
    iface._send = lambda msg, target: captured.append((bytes(msg.dgram), time.time()))

    jrng = random.Random(spec['seed'] + 1)
    orig_wait = threading.Condition.wait
    clock_threads = ('SystemClock', 'AppClock', 'TempoClock')

    def jitter_wait(self, timeout=None):
        r = orig_wait(self, timeout)
        if threading.current_thread().name.startswith(clock_threads):
            time.sleep(jrng.uniform(0.0, spec['jitter']))
        return r

    threading.Condition.wait = jitter_wait

    addr = NetAddr('127.0.0.1', 57110)
    fails = []
    lateness = []
    counts = {'routine_bundles': 0, 'outside_bundles': 0, 'refused': 0, 'timetags_checked': 0,
              'messages': 0}

    def bad(key, what, prog, observed=None, expected=None):
        fails.append({'obligation': 'C07.rt', 'key': key, 'what': what,
                      'input': {'seed': spec['seed'], 'jitter': spec['jitter'], 'program': prog},
                      'observed': observed, 'expected': expected,
                      'replay': {'func': 'rt', 'args': json.dumps(
                          {'seed': spec['seed'], 'jitter': spec['jitter'],
                           'programs': spec['programs']})}})

    def check_send(rec, prog):
        """rec: what was sent, from where, and the datagrams it produced."""
        sent, now, dgrams = rec['sent'], rec['now'], rec['dgrams']
        if rec['verdict'] == 'refuse':
            counts['refused'] += 1
            if rec['raised'] is None or dgrams:
                bad('C07.rt:refusal', 'send_bundle%s: a nested bundle precedes its parent but %s'
                    % (short(sent), 'nothing was raised' if rec['raised'] is None else 'a datagram left'),
                    prog, 'accepted', 'an exception')
            return
        if rec['raised'] is not None:
            if rec['verdict'] != 'open':
                bad('C07.rt:unexpected-refusal', 'send %s raised %s' % (short(sent), rec['raised']),
                    prog, rec['raised'], 'a datagram')
            return
        if len(dgrams) != 1:
            bad('C07.rt:datagrams', 'send %s produced %d datagrams' % (short(sent), len(dgrams)),
                prog, len(dgrams), 1)
            return
        dgram, phys = dgrams[0]
        try:
            pkt = O.decode(dgram)
        except O.DecodeError as e:
            bad('C07.rt:not-osc10', 'datagram of %s is not OSC 1.0: %s' % (short(sent), e), prog)
            return
        if rec['kind'] == 'msg':
            counts['messages'] += 1
            r = match(pkt, exp_message(sent[1], lambda lat: 1))     # no bundles inside
            if r:
                bad('C07.rt:message', 'message datagram differs: ' + r, prog, short(pkt), short(sent))
            return
        if now is not None:
            # inside a routine: exact, from the logical time the routine observed
            counts['routine_bundles'] += 1
            lateness.append(phys - main._init_time - now)
            tt = lambda lat: 1 if lat is None or lat < 0 else SC.elapsed_time_to_osc(now + lat)
            r = match(pkt, exp_bundle(sent, tt))
            if r:
                phys_tt = SC.elapsed_time_to_osc(phys - main._init_time + (sent[0] or 0))
                key = 'C07.rt:routine-timetag'
                if 'time tag' in r and pkt.timetag in (1, tt(sent[0])):
                    key = 'C07.rt:nested-timetag'
                if (sent[0] is None or sent[0] < 0) and pkt.timetag != 1:
                    key = 'C07.rt:immediately'
                bad(key, 'bundle sent from a routine at logical time %r with latency %r: %s '
                    '(time tag of the physical send instant would be about %d)'
                    % (now, sent[0], r, phys_tt), prog, short(pkt, 400), short(sent, 400))
                return
            # independent of sc3's own conversion: NTP seconds since 1900
            lats = [l for l in latencies_of(sent) if l is not None and l >= 0]
            for path, t in timetags_of(pkt):
                counts['timetags_checked'] += 1
                if t == 1:
                    continue
                secs = t / TWO32 - NTP_1970 - main._init_time - now
                if not any(abs(secs - l) <= 1e-4 for l in lats):
                    bad('C07.rt:ntp-epoch', 'time tag %d at %r is %g s after the logical send instant '
                        '(NTP epoch 1900), which is none of the latencies %r'
                        % (t, path, secs, sorted(set(lats))), prog, secs, sorted(set(lats)))
                    return
        else:
            counts['outside_bundles'] += 1
            t0, t1 = rec['t0'], rec['t1']
            # structure and immediates exactly, times within the tolerance
            lo = lambda lat: 1 if lat is None or lat < 0 else SC.elapsed_time_to_osc(t0 + lat)
            exp = exp_bundle(sent, lo)
            tol = int(0.05 * TWO32)
            span = int((t1 - t0) * TWO32) + tol

            def loose(obs, e, path='packet'):
                if isinstance(e, O.Bundle):
                    if not isinstance(obs, O.Bundle) or len(obs.elements) != len(e.elements):
                        return '%s: structure differs' % path
                    if e.timetag == 1:
                        if obs.timetag != 1:
                            return '%s: time tag %d, expected 1 (immediately)' % (path, obs.timetag)
                    elif not (e.timetag - tol <= obs.timetag <= e.timetag + span):
                        return ('%s: time tag %d is %g s from now + latency'
                                % (path, obs.timetag, (obs.timetag - e.timetag) / TWO32))
                    for i, (a, b) in enumerate(zip(obs.elements, e.elements)):
                        r = loose(a, b, '%s[%d]' % (path, i))
                        if r:
                            return r
                    return None
                if not isinstance(obs, O.Message) or obs.address != e.address or obs.tags != e.tags:
                    return '%s: message differs' % path
                for i, (a, b) in enumerate(zip(obs.args, e.args)):
                    if isinstance(b, ExpBlob):
                        try:
                            r = loose(O.decode(a), b.packet, '%s arg %d' % (path, i))
                        except O.DecodeError as ex:
                            r = '%s arg %d: %s' % (path, i, ex)
                        if r:
                            return r
                    elif not O.same(a, b):
                        return '%s arg %d differs' % (path, i)
                return None

            r = loose(pkt, exp)
            if r:
                key = 'C07.rt:outside-timetag'
                if (sent[0] is None or sent[0] < 0) and pkt.timetag != 1:
                    key = 'C07.rt:immediately'
                bad(key, 'bundle sent outside routines with latency %r: %s' % (sent[0], r), prog,
                    short(pkt, 400), short(sent, 400))
                return
            # all time tags of one send are relative to the same instant
            tts = [t for _, t in timetags_of(pkt) if t != 1]
            lats = [l for l in latencies_of(sent) if l is not None and l >= 0]
            if len(tts) == len(lats) and tts:
                inst = [t - int(l * TWO32) for t, l in zip(tts, lats)]
                if max(inst) - min(inst) > 4:
                    bad('C07.rt:nested-timetag', 'nested bundles of one send are stamped from '
                        'different instants (spread %g s)' % ((max(inst) - min(inst)) / TWO32), prog,
                        inst, 'one instant')

    def run_program(prog):
        bld = Builder()
        log = []
        # the library's own (re-entrant) lock: clock threads hold it while a
        # routine runs, so taking it here cannot invert any lock order
        lock = main._main_lock

        def do_send(step, now):
            with lock:
                if step[0] == 'msg':
                    m = bld.msg()
                    rec = {'kind': 'msg', 'sent': [0, clone(m)], 'verdict': 'accept'}
                    call = lambda: addr.send_msg(*clone(m))
                else:
                    lat, specs = step[1], step[2]
                    els = bld.elements(specs)
                    rec = {'kind': 'bundle', 'sent': [lat, *clone(els)], 'verdict': verdict(lat, specs)}
                    call = lambda: addr.send_bundle(lat, *clone(els))
                rec['now'] = now
                before = len(captured)
                rec['t0'] = main.elapsed_time()
                try:
                    call()
                    rec['raised'] = None
                except Exception as e:
                    rec['raised'] = '%s: %s' % (type(e).__name__, e)
                rec['t1'] = main.elapsed_time()
                rec['dgrams'] = captured[before:]
                log.append(rec)

        pending = [0]

        def body_of(steps, spawn=None):
            def body(inval):
                _, clock = inval
                try:
                    spawned = False
                    for st in steps:
                        if st[0] == 'wait':
                            if spawn is not None and not spawned:
                                spawned = True
                                pending[0] += 1
                                stm.Routine(body_of(spawn)).play()
                            yield st[1]
                        else:
                            do_send(st, clock.seconds)
                finally:
                    main.resume()
            return body

        clocks = []
        ntasks = 0
        for r in prog['routines']:
            if r['clock'][0] == 'system':
                c = clk.SystemClock
            elif r['clock'][0] == 'app':
                c = clk.AppClock
            else:
                c = clk.TempoClock(r['clock'][1])
                clocks.append(c)
            ntasks += 1 + (1 if r.get('spawn') is not None
                           and any(s[0] == 'wait' for s in r['steps']) else 0)
            stm.Routine(body_of(r['steps'], r.get('spawn'))).play(c)
        for st in prog['outside']:
            if st[0] != 'wait':
                do_send(st, None)
                time.sleep(0.01)
        ok = main.wait(20, tasks=ntasks) if ntasks else True
        for c in clocks:
            c.stop()
        if not ok:
            return 'timeout'
        for rec in log:
            check_send(rec, prog)
        return None

    timeouts = 0
    for prog in spec['programs']:
        if run_program(prog) == 'timeout':
            timeouts += 1
    threading.Condition.wait = orig_wait
    conv = check_conv(SC.elapsed_time_to_osc, SC.osc_to_elapsed_time, conv_grid(rng), 'rt')
    # the RT conversion is anchored to the NTP epoch
    t = SC.elapsed_time_to_osc(0.0) / TWO32 - NTP_1970 - main._init_time
    if abs(t) > 1e-5:
        conv.append({'obligation': 'C07.conv', 'key': 'C07.clock:osc-conversion',
                     'what': 'elapsed time 0 maps %g s away from the NTP time of initialisation' % t,
                     'input': {'mode': 'rt'}, 'observed': t, 'expected': 0,
                     'replay': {'func': 'conv', 'args': {'mode': 'rt'}}})
    lateness.sort()
    out = {'fails': fails + conv, 'counts': counts, 'timeouts': timeouts,
           'lateness_ms': ([round(1000 * lateness[0], 2), round(1000 * lateness[len(lateness) // 2], 2),
                            round(1000 * lateness[-1], 2)] if lateness else None)}
    sys.stdout.write('\n@@C07' + json.dumps(out) + '\n')
    sys.stdout.flush()
    os._exit(0)


def latencies_of(lst):
    """Latencies of a sent bundle list in the order timetags_of() reports."""
    out = [lst[0]]
    for e in lst[1:]:
        if isinstance(e[0], str):
            for a in e[1:]:
                if isinstance(a, list) and a:
                    if isinstance(a[0], str):
                        out += latencies_of([None, a])[1:]
                    else:
                        out += latencies_of(a)
        else:
            out += latencies_of(e)
    return out


def spawn_rt(spec):
    env = dict(os.environ)
    return subprocess.Popen([sys.executable, '-m', 'vf.drivers.C07', '--rt-child', json.dumps(spec)],
                            stdout=subprocess.PIPE, stderr=subprocess.PIPE, env=env,
                            cwd=os.path.dirname(os.path.dirname(os.path.dirname(os.path.abspath(__file__)))))


def collect_rt(proc, timeout=240):
    try:
        out, err = proc.communicate(timeout=timeout)
    except subprocess.TimeoutExpired:
        proc.kill()
        raise RuntimeError('rt child timed out')
    text = out.decode('utf-8', 'replace')
    i = text.rfind('@@C07')
    if i < 0:
        raise RuntimeError('rt child failed: %s' % err.decode('utf-8', 'replace')[-2000:])
    return json.loads(text[i + 5:].splitlines()[0])


RT_FIXED = {
    'routines': [
        {'clock': ['system'], 'spawn': None, 'steps': [
            ['bundle', 0.2, ['m']], ['wait', 0.05], ['bundle', 0.2, ['m', ['b', 0.2, ['m']]]],
            ['wait', 0.05], ['bundle', None, ['m']], ['bundle', -1, ['m']],
            ['bundle', 1, ['cm', ['b', 1.2, ['m']]]], ['wait', 0.08], ['msg'],
            ['bundle', 0.2, [['b', 0.1, ['m']]]], ['bundle', 0.2, [['b', None, ['m']]]],
            ['bundle', None, [['b', 0.2, ['m']], ['b', None, ['m']]]], ['bundle', 0, ['m']]]},
        {'clock': ['tempo', 2], 'spawn': [['bundle', 0.2, ['m']], ['wait', 0.05], ['bundle', 1, ['m']]],
         'steps': [['bundle', 0.2, ['m']], ['wait', 0.1], ['bundle', 0.2, ['m']], ['wait', 0.1],
                   ['bundle', 0, ['m']]]},
        {'clock': ['app'], 'spawn': None,
         'steps': [['bundle', 0.2, ['m']], ['wait', 0.05], ['bundle', 0.2, ['cm']]]}],
    'outside': [['bundle', 0.2, ['m', ['b', 0.5, ['m']]]], ['bundle', None, ['m']], ['bundle', -1, ['m']],
                ['bundle', 1, ['cm']], ['bundle', 0.2, [['b', 0.1, ['m']]]], ['msg']],
    'tail': 0}


def start_rt(rep):
    nchild, nprog = (16, 16) if rep.tier == 'thorough' else (6, 5)
    specs = []
    for i in range(nchild):
        progs = [RT_FIXED] if i == 0 else []
        progs += [gen_program(rep.rng, rt=True) for _ in range(nprog)]
        specs.append({'seed': rep.rng.getrandbits(30), 'jitter': 0.02, 'programs': progs})
    return specs, [spawn_rt(s) for s in specs], nchild, nprog


def finish_rt(rep, specs, procs, nchild, nprog):
    outs = [collect_rt(p) for p in procs]
    fails = []
    counts = {}
    late = []
    timeouts = 0
    for o in outs:
        fails += o['fails']
        timeouts += o['timeouts']
        for k, v in o['counts'].items():
            counts[k] = counts.get(k, 0) + v
        if o['lateness_ms']:
            late.append(o['lateness_ms'])
    if timeouts:
        rep.note('rt: %d programs did not finish within 20 s and were not judged' % timeouts)
    nprogs = sum(len(s['programs']) for s in specs)
    rep.bounded(
        name='rt', function='NetAddr.send_msg/send_bundle -> OscUdpInterface (datagrams captured at '
                            '_send) in real-time mode; SystemClock conversions',
        bound='%d sub-processes x %d generated programs (+1 fixed): 1-3 routines on SystemClock/'
              'TempoClock/AppClock with waits of 0-80 ms, sends outside routines; every clock '
              'wake-up delayed by 0-20 ms (seeded)' % (nchild, nprog),
        evaluations=nprogs, distinct_nontrivial=len({json.dumps(p, sort_keys=True)
                                                     for s in specs for p in s['programs']}),
        rule='inside routines every time tag == elapsed_time_to_osc(logical time observed by the '
             'routine + latency) exactly and lies at the NTP time of init + logical + latency; '
             'outside routines within 50 ms of now + latency and all tags of one send share one '
             'instant; None/negative -> 1; preceding sub-bundles raise and send nothing',
        samples=[specs[0]['programs'][0], specs[-1]['programs'][-1]],
        extra={'counts': counts, 'wakeup_lateness_ms_min_median_max_per_child': late})
    if late and max(l[2] for l in late) < 1.0:
        rep.note('rt: wake-ups were never late by more than 1 ms; the jitter injection did not bite')
    return fails


# ---------------------------------------------------------------------- main --

def report_all(rep, fails):
    for f in sorted(fails, key=lambda f: (f['key'], len(json.dumps(f['input'])))):
        rep.violation(obligation=f['obligation'], what=f['what'], input=f['input'], key=f['key'],
                      observed=f['observed'], expected=f['expected'], replay=f['replay'])


def main(rep):
    fails = []
    rt = start_rt(rep) if wants(rep, 'rt') else None     # runs while the NRT part is checked
    try:
        if wants(rep, 'nrt') or wants(rep, 'conv'):
            sc_nrt()
        if wants(rep, 'conv'):
            fails += run_conv_nrt(rep)
        if wants(rep, 'nrt'):
            fails += run_nrt(rep)
        if wants(rep, 'reuse'):
            sc_nrt()
            fails += run_reuse(rep)
        if rt is not None:
            fails += finish_rt(rep, *rt)
    finally:
        if rt is not None:
            for p in rt[1]:
                if p.poll() is None:
                    p.kill()
    report_all(rep, fails)
    rep.note('left open: position of the tail marker relative to bundles whose latency carries them '
             'past end-of-run + tail; the root-node entry at the head of the score; last-bit rounding '
             'of time tags; sub-bundles with latency None/<0 under a parent with latency <0')


def replay(case, rep):
    r = case.get('replay') or {}
    fn, args = r.get('func'), r.get('args')
    if isinstance(args, str):          # deep programs are stored as JSON text
        args = json.loads(args)
    if fn == 'nrt':
        sc_nrt()
        fails = check_nrt(args)
    elif fn == 'rt':
        spec = {'seed': args['seed'], 'jitter': args['jitter'], 'programs': args['programs']}
        fails = collect_rt(spawn_rt(spec))['fails']
    elif fn == 'conv':
        if args.get('mode') == 'rt':
            fails = collect_rt(spawn_rt({'seed': 0, 'jitter': 0.0, 'programs': []}))['fails']
        else:
            s = sc_nrt()
            SC = s['clk'].SystemClock
            fails = check_conv(SC.elapsed_time_to_osc, SC.osc_to_elapsed_time,
                               conv_grid(random.Random(0)), 'nrt')
    else:
        return None
    want = case.get('key')
    hit = [f for f in fails if want is None or f['key'] == want] or fails
    report_all(rep, hit)
    return not hit


if __name__ == '__main__':
    if len(sys.argv) > 2 and sys.argv[1] == '--rt-child':
        rt_child(json.loads(sys.argv[2]))
    else:
        driver_main('C07', main, replay)
