"""C09 - time-ordered collections are stable priority queues under any history.

Bounded run-time contract driver (B part).  Sub-checks (``--only``):

  exhaustive   all histories of length <= 6 (quick) / 7 (thorough) over
               {add(p,t) (= re-add when t is present), remove(t), pop,
               peek(True), peek(False), empty, clear, list(iter)} x 3 tasks x
               3 priorities, run on the real ``sc3.base._taskq.TaskQueue`` and
               compared with ``vf.specs.pqueue`` (16 processes, partitioned by
               the first two operations);
  random       seeded long histories (length 200) with float / int priorities
               incl. duplicates, -0.0 == 0.0 and +-large values, heterogeneous
               hashable tasks, checked after every step;
  score        OscScore: bundles added at (un)equal times come out in
               non-decreasing time, send order among equal times; ``duration``
               follows the latest entry;
  ppar         Ppar: children that are due at the same time are served in the
               order in which they were (re-)queued;
  atexit       exit actions registered in ``main._atexitq`` are run by
               ``main._shutdown`` in priority order, FIFO among equal
               priorities, re-registered ones as most recent, removed ones not
               at all (runs in a subprocess).

The oracle never looks inside the queue: the real queue is observed only through
its public methods.
"""
import json
import os
import subprocess
import sys

from vf.common import Report, driver_main, wants, silence_sc3_logging
from vf.specs import pqueue as PQ

TASKS = ('a', 'b', 'c')
PRIOS = (1, 2, 3)

# operation alphabet of the exhaustive search; JSON-able
OPS = tuple(
    [('add', p, t) for t in TASKS for p in PRIOS]
    + [('remove', t) for t in TASKS]
    + [('pop',), ('peek', True), ('peek', False), ('empty',), ('clear',),
       ('iter',)])
NOPS = len(OPS)


def opname(op):
    if op[0] == 'peek':
        return 'peek-smallest' if op[1] else 'peek-largest'
    return op[0]


# --------------------------------------------------------------------------
# running one operation on the real queue / on the model
# --------------------------------------------------------------------------

def real_apply(q, op):
    """-> ('ok', normalised value) | ('exc', class name).  Return values of
    add/remove/clear are not part of the contract and are dropped."""
    k = op[0]
    try:
        if k == 'add':
            q.add(op[1], op[2])
            return ('ok', None)
        if k == 'remove':
            q.remove(op[1])
            return ('ok', None)
        if k == 'pop':
            r = q.pop()
            return ('ok', (r[0], r[1]) if len(r) == 2 else ('bad-shape', repr(r)))
        if k == 'peek':
            r = q.peek(op[1])
            return ('ok', (r[0], r[1]) if len(r) == 2 else ('bad-shape', repr(r)))
        if k == 'empty':
            return ('ok', bool(q.empty()))
        if k == 'clear':
            q.clear()
            return ('ok', None)
        if k == 'iter':
            return ('ok', [(e[0], e[1]) for e in q])
    except Exception as e:       # every exception of sc3 is an observation
        return ('exc', type(e).__name__)
    raise AssertionError(op)


def model_apply(st, op):
    """-> (set of acceptable results, new state)."""
    k = op[0]
    if k == 'add':
        return [('ok', None)], PQ.f_add(st, op[1], op[2])
    if k == 'remove':
        present = any(e[1] == op[1] for e in st)
        acc = [('ok', None)]
        if not present:
            # the statement does not say whether removing an absent item is an
            # error; either way nothing may change
            acc.append(('exc', 'KeyError'))
        return acc, PQ.f_remove(st, op[1])
    if k == 'pop':
        r, st2 = PQ.f_pop(st)
        return [('exc', 'KeyError') if r is PQ.Empty else ('ok', r)], st2
    if k == 'peek':
        r = PQ.f_peek(st, op[1])
        return [('exc', 'KeyError') if r is PQ.Empty else ('ok', r)], st
    if k == 'empty':
        return [('ok', PQ.f_empty(st))], st
    if k == 'clear':
        return [('ok', None)], PQ.F_EMPTY
    if k == 'iter':
        return [('ok', list(st))], st
    raise AssertionError(op)


def same_result(a, b):
    """Equality that distinguishes nothing the contract does not: priorities
    compare by ==, tasks by identity-or-equality."""
    if a[0] != b[0]:
        return False
    if a[0] == 'exc':
        return a[1] == b[1]
    x, y = a[1], b[1]
    if isinstance(x, list) and isinstance(y, list):
        return len(x) == len(y) and all(same_entry(u, v) for u, v in zip(x, y))
    if isinstance(x, tuple) and isinstance(y, tuple):
        return same_entry(x, y)
    return type(x) is type(y) and x == y


def same_entry(u, v):
    return (len(u) == 2 and len(v) == 2 and u[0] == v[0]
            and (u[1] is v[1] or u[1] == v[1]))


def observe(q, st):
    """Full observation of the real queue against model state ``st``.
    -> list of (aspect, observed, expected)."""
    bad = []
    exp = ('ok', list(st))
    got = real_apply(q, ('iter',))
    if not same_result(got, exp):
        bad.append(('contents', got, exp))
    exp = ('ok', not st)
    got = real_apply(q, ('empty',))
    if not same_result(got, exp):
        bad.append(('empty', got, exp))
    exp = ('ok', st[0]) if st else ('exc', 'KeyError')
    got = real_apply(q, ('peek', True))
    if not same_result(got, exp):
        bad.append(('earliest', got, exp))
    exp = ('ok', st[-1]) if st else ('exc', 'KeyError')
    got = real_apply(q, ('peek', False))
    if not same_result(got, exp):
        bad.append(('latest', got, exp))
    # observation must itself be side-effect free
    exp = ('ok', list(st))
    got = real_apply(q, ('iter',))
    if not same_result(got, exp):
        bad.append(('contents-after-observation', got, exp))
    return bad


def new_queue():
    from sc3.base._taskq import TaskQueue
    return TaskQueue()


def check_history(ops):
    """The unit of checking (and of replay): build a fresh queue, apply
    ``ops[:-1]`` without looking, apply the last operation, compare its
    result, then observe everything.  -> (violations, model state)"""
    q = new_queue()
    st = PQ.F_EMPTY
    for op in ops[:-1]:
        real_apply(q, op)
        _, st = model_apply(st, op)
    op = ops[-1]
    got = real_apply(q, op)
    acc, st2 = model_apply(st, op)
    bad = []
    if not any(same_result(got, a) for a in acc):
        bad.append(('result', got, acc[0]))
    bad.extend(observe(q, st2))
    return bad, st2


def jop(op):
    return list(op)


def top(op):
    return tuple(op)


# --------------------------------------------------------------------------
# exhaustive search (worker = subtree under the first two operations)
# --------------------------------------------------------------------------

# compiled alphabet for the fast path: (code, a, b)
_CODE = {'add': 0, 'remove': 1, 'pop': 2, 'peek': 3, 'empty': 4, 'clear': 5,
         'iter': 6}
COPS = tuple((_CODE[o[0]], o[1] if len(o) > 1 else None,
              o[2] if len(o) > 2 else None) for o in OPS)


def _fast_ok(TQ, prefix, cop, acc, st2, lst2):
    """True when history prefix+[op] certainly passes ``check_history`` (same
    calls in the same order, stricter comparisons).  Anything unusual ->
    False, and the caller asks ``check_history`` for the verdict."""
    try:
        q = TQ()
        for c, a, b in prefix:
            if c == 0:
                q.add(a, b)
            elif c == 1:
                q.remove(a)
            elif c == 2:
                try:
                    q.pop()
                except KeyError:
                    pass
            elif c == 3:
                try:
                    q.peek(a)
                except KeyError:
                    pass
            elif c == 4:
                q.empty()
            elif c == 5:
                q.clear()
            else:
                list(q)
        c, a, b = cop
        exp = acc[0]
        if c == 0:
            q.add(a, b)
        elif c == 1:
            q.remove(a)
        elif c == 2:
            try:
                r = q.pop()
                if exp[0] != 'ok' or r != exp[1]:
                    return False
            except KeyError:
                if exp[0] != 'exc':
                    return False
        elif c == 3:
            try:
                r = q.peek(a)
                if exp[0] != 'ok' or r != exp[1]:
                    return False
            except KeyError:
                if exp[0] != 'exc':
                    return False
        elif c == 4:
            if q.empty() is not exp[1]:
                return False
        elif c == 5:
            q.clear()
        else:
            if list(q) != exp[1]:
                return False
        # observation, same order as observe()
        if list(q) != lst2:
            return False
        if st2:
            if q.empty() is not False:
                return False
            if q.peek(True) != st2[0] or q.peek(False) != st2[-1]:
                return False
        else:
            if q.empty() is not True:
                return False
            try:
                q.peek(True)
                return False
            except KeyError:
                pass
            try:
                q.peek(False)
                return False
            except KeyError:
                pass
        return list(q) == lst2
    except Exception:
        return False


def _worker(arg):
    i, j, depth = arg
    silence_sc3_logging()
    from sc3.base._taskq import TaskQueue as TQ
    viol = {}            # key -> list of (len, history, aspect, got, exp)
    seen = {}            # (model state, op index) -> (acc, st2, list(st2))
    count = [0]

    def record(hist, bad):
        for aspect, got, exp in bad:
            key = 'C09.%s:%s' % (opname(hist[-1]), aspect)
            lst = viol.setdefault(key, [])
            lst.append((len(hist), [jop(o) for o in hist], aspect, got, exp))
            lst.sort(key=lambda v: v[0])
            del lst[3:]

    def trans(st, k):
        t = seen.get((st, k))
        if t is None:
            acc, st2 = model_apply(st, OPS[k])
            t = seen[(st, k)] = (acc, st2, list(st2))
        return t

    def node(idx, st, k, pre=None):
        """check history idx+[k] (op indices); -> model state after it, or
        None when it failed"""
        count[0] += 1
        acc, st2, lst2 = trans(st, k)
        if pre is None:
            pre = [COPS[x] for x in idx]
        if _fast_ok(TQ, pre, COPS[k], acc, st2, lst2):
            return st2
        hist = [OPS[x] for x in idx] + [OPS[k]]
        bad, st3 = check_history(hist)
        if bad:
            record(hist, bad)
            return None
        assert st3 == st2
        return st2

    def dfs(idx, st, d):
        last = d + 1 >= depth
        pre = [COPS[x] for x in idx]
        for k in range(NOPS):
            st2 = node(idx, st, k, pre)
            if st2 is not None and not last:
                dfs(idx + [k], st2, d + 1)

    def result():
        return count[0], set(seen), viol

    if j == 0:
        if node([], PQ.F_EMPTY, i) is None:
            return result()
    bad1, st1 = check_history([OPS[i]])
    if bad1 or depth < 2:
        return result()          # a failure is reported by the j == 0 worker
    st2 = node([i], st1, j)
    if st2 is not None and depth > 2:
        dfs([i, j], st2, 2)
    return result()


def run_exhaustive(rep):
    import multiprocessing as mp
    depth = 7 if rep.tier == 'thorough' else 6
    depth = int(os.environ.get('C09_DEPTH', depth))
    args = [(i, j, depth) for i in range(NOPS) for j in range(NOPS)]
    # big subtrees first is irrelevant: all are the same size
    ctx = mp.get_context('fork')
    total = 0
    seen = set()
    viol = {}
    with ctx.Pool(16) as pool:
        for n, s, v in pool.imap_unordered(_worker, args, chunksize=1):
            total += n
            seen |= s
            for k, lst in v.items():
                viol.setdefault(k, []).extend(lst)
    for k in sorted(viol):
        lst = sorted(viol[k], key=lambda v: (v[0], json.dumps(v[1])))[:3]
        for ln, hist, aspect, got, exp in lst:
            rep.violation(
                obligation='C09.model.' + aspect,
                what='after history %s the queue %s is %r, the stable-priority-'
                     'queue model says %r' % (hist, aspect, got, exp),
                input=hist, observed=got, expected=exp, key=k,
                replay={'func': 'history', 'args': hist})
    nontriv = sum(1 for st, k in seen if st or OPS[k][0] == 'add')
    rep.bounded(
        name='exhaustive', function='sc3.base._taskq.TaskQueue.*',
        bound='all histories of length <= %d over %d operations '
              '(add/re-add x 3 tasks x 3 priorities, remove x 3, pop, peek '
              'smallest/largest, empty, clear, iterate)' % (depth, NOPS),
        evaluations=total, distinct_nontrivial=nontriv,
        rule='every history h: fresh queue, apply h[:-1], compare result of '
             'h[-1] (value / KeyError iff model empty) and then iteration, '
             'empty(), peek(True), peek(False) with the sorted-list model; '
             'subtrees below a failing history are pruned; distinct = '
             '(abstract contents, operation) pairs with non-empty contents or '
             'an insertion',
        samples=[[jop(OPS[0]), jop(OPS[3]), jop(OPS[1]), ['peek', False]],
                 [jop(OPS[0]), ['remove', 'a'], ['peek', True]],
                 [jop(OPS[2]), jop(OPS[5]), ['pop'], ['iter']]],
        exhaustive=True, extra={'depth': depth, 'processes': 16})


# --------------------------------------------------------------------------
# long random histories
# --------------------------------------------------------------------------

class _Obj:
    def __init__(self, n):
        self.n = n

    def __repr__(self):
        return '_Obj(%d)' % self.n


def _f0():
    pass


def _f1():
    pass


TASK_POOL = ['a', 'b', 7, 7.5, (1, 'x'), frozenset([1, 2]), _Obj(0), _Obj(1),
             _f0, _f1, None, True]
# True == 1 but 1 is not in the pool; 7 != 7.5; all pairwise distinct under ==
PRIO_POOL = [0.0, -0.0, 0, 1, 1.0, 1.5, -1.5, 2.25, 1e-300, -1e-300, 5e-324,
             1e308, -1e308, 1.7976931348623157e308, -1.7976931348623157e308,
             3, 3.0000000000000004, 2.9999999999999996, 1e16, 1e16 + 2, -7]


def gen_random_history(rng, length):
    """list of [code, prio index, task index]"""
    ntasks = rng.choice([2, 3, 5, len(TASK_POOL)])
    nprios = rng.choice([2, 4, len(PRIO_POOL)])
    prios = rng.sample(range(len(PRIO_POOL)), nprios)
    tasks = rng.sample(range(len(TASK_POOL)), ntasks)
    w = rng.choice([(6, 2, 2, 1), (4, 1, 3, 1), (3, 3, 1, 2)])
    out = []
    for _ in range(length):
        r = rng.random() * (sum(w) + 0.15)
        if r < w[0]:
            out.append(['add', rng.choice(prios), rng.choice(tasks)])
        elif r < w[0] + w[1]:
            out.append(['remove', 0, rng.choice(tasks)])
        elif r < w[0] + w[1] + w[2]:
            out.append(['pop', 0, 0])
        elif r < sum(w):
            out.append([rng.choice(['peekS', 'peekL', 'empty', 'iter']), 0, 0])
        else:
            out.append(['clear', 0, 0])
    return out


def decode(h):
    c = h[0]
    if c == 'add':
        return ('add', PRIO_POOL[h[1]], TASK_POOL[h[2]])
    if c == 'remove':
        return ('remove', TASK_POOL[h[2]])
    if c == 'peekS':
        return ('peek', True)
    if c == 'peekL':
        return ('peek', False)
    return (c,)


def check_long_history(hist):
    """Apply every step, compare result and full observation after each.
    -> None or (step index, aspect, got, exp)"""
    q = new_queue()
    st = PQ.F_EMPTY
    for n, h in enumerate(hist):
        op = decode(h)
        got = real_apply(q, op)
        acc, st = model_apply(st, op)
        if not any(same_result(got, a) for a in acc):
            return n, 'result', got, acc[0], op
        bad = observe(q, st)
        if bad:
            return (n,) + bad[0] + (op,)
    return None


def _rj(x):
    """repr without memory addresses"""
    if isinstance(x, tuple):
        return '(' + ', '.join(_rj(e) for e in x) + (',)' if len(x) == 1
                                                      else ')')
    if isinstance(x, list):
        return '[' + ', '.join(_rj(e) for e in x) + ']'
    if callable(x) and hasattr(x, '__name__'):
        return '<function %s>' % x.__name__
    return repr(x)


def run_random(rep):
    nhist = 2500 if rep.tier == 'thorough' else 400
    n = 0
    steps = 0
    distinct = set()
    samples = []
    for _ in range(nhist):
        hist = gen_random_history(rep.rng, 200)
        n += 1
        steps += len(hist)
        distinct.add(json.dumps(hist))
        if len(samples) < 3:
            samples.append(hist[:8])
        r = check_long_history(hist)
        if r is not None:
            step, aspect, got, exp, op = r
            # shrink: the failing prefix, then drop steps greedily
            small = hist[:step + 1]
            small = _shrink(small)
            r2 = check_long_history(small)
            step, aspect, got, exp, op = r2
            rep.violation(
                obligation='C09.model.' + aspect,
                what='random history (len %d): at step %d (%s) %s is %s, model '
                     'says %s' % (len(small), step, _rj(op), aspect,
                                  _rj(got), _rj(exp)),
                input=[_rj(decode(h)) for h in small],
                observed=_rj(got), expected=_rj(exp),
                key='C09.%s:%s' % (opname(op), aspect),
                replay={'func': 'long', 'args': small})
    rep.bounded(
        name='random', function='sc3.base._taskq.TaskQueue.*',
        bound='%d seeded histories of 200 operations; priorities from a pool '
              'of %d floats/ints (duplicates, -0.0, subnormal, +-1e308, '
              '+-DBL_MAX, neighbours of 3.0), %d heterogeneous hashable tasks'
              % (nhist, len(PRIO_POOL), len(TASK_POOL)),
        evaluations=steps, distinct_nontrivial=len(distinct),
        rule='after every operation: result and iteration/empty/peek(True)/'
             'peek(False) equal the model; distinct = distinct histories',
        samples=samples, exhaustive=False)


def _shrink(hist):
    def fails(h):
        return bool(h) and check_long_history(h) is not None
    cur = list(hist)
    changed = True
    while changed:
        changed = False
        i = 0
        while i < len(cur):
            cand = cur[:i] + cur[i + 1:]
            if fails(cand):
                cur = cand
                changed = True
            else:
                i += 1
    return cur


# --------------------------------------------------------------------------
# client: OscScore
# --------------------------------------------------------------------------

SCORE_TIMES = (0.0, 0.5, 1.0, 2.0)


def gen_score_scenarios(rng, n):
    """each scenario: list of bundle times (send order)"""
    out = [[1.0, 1.0, 1.0], [0.0, 0.0], [2.0, 1.0, 2.0, 1.0, 0.0, 0.0],
           [0.5] * 6, [2.0, 2.0, 0.5, 0.5, 2.0], [1.0, 0.0, 1.0, 0.0]]
    while len(out) < n:
        k = rng.randint(2, 9)
        out.append([rng.choice(SCORE_TIMES) for _ in range(k)])
    return out


def check_score(times, from_routine=False):
    """-> None or (what, observed, expected).  Bundles carry their send index
    as node id; the finished score must be the stable sort by time of
    [root bundle at 0] + sent bundles + [end marker]."""
    import sc3.base.main as _m
    from sc3.base._oscinterface import OscScore
    main = _m.main
    main.reset()
    if from_routine:
        # sent by a routine on SystemClock at logical time t: bundle time None
        # -> "now"; one routine per bundle, played in send order, each waits t
        from sc3.base.stream import Routine
        score = main._osc_interface._osc_score

        def mk(i, t):
            def body():
                yield t
                score.add([None, ['/n_set', 1000 + i, 'x', i]])
            return Routine(body)
        for i, t in enumerate(times):
            mk(i, t).play()
        _drain(main)
    else:
        score = OscScore()
        for i, t in enumerate(times):
            score.add([t, ['/n_set', 1000 + i, 'x', i]])
    tmax = max([0.0] + list(times))
    dur = score.duration
    if dur is None or not (_close(dur, tmax) or _close(dur, tmax * 2.0 ** -32)):
        # units of duration are C07's business: both scales accepted
        return ('duration', dur, tmax)
    score.finish(0.0)
    lst = score.list
    got = []
    for b in lst:
        cmd = b[1]
        if cmd[0] == '/n_set':
            got.append((b[0], cmd[1] - 1000))
        else:
            got.append((b[0], cmd[0]))
    sent = [(float(t), i) for i, t in enumerate(times)]
    ours = [g for g in got if isinstance(g[1], int)]
    exp = sorted(sent, key=lambda e: e[0])      # sorted() is stable
    if [(float(a), b) for a, b in ours] != exp:
        return ('order', ours, exp)
    ts = [g[0] for g in got]
    if any(ts[i] > ts[i + 1] for i in range(len(ts) - 1)):
        return ('non-decreasing', got, None)
    if not got or got[0] != (0.0, '/g_new'):
        return ('root-first', got[:2], (0.0, '/g_new'))
    main.reset()
    return None


def _close(a, b):
    return abs(a - b) <= 1e-12 * max(1.0, abs(a), abs(b))


def _drain(main, limit=100000):
    """Run the non-real-time scheduler until nothing is left (bounded)."""
    q = main._clock_scheduler.queue
    n = 0
    while not q.empty():
        t, ct = q.pop()
        ct._wakeup(t)
        n += 1
        if n > limit:
            raise RuntimeError('scheduler did not drain')


def run_score(rep):
    n = 0
    distinct = set()
    scen = gen_score_scenarios(rep.rng, 60 if rep.tier == 'quick' else 300)
    for times in scen:
        for fr in (False, True):
            n += 1
            distinct.add((tuple(times), fr))
            r = check_score(times, fr)
            if r is not None:
                rep.violation(
                    obligation='C09.client.score',
                    what='OscScore with bundles sent at times %r (%s): %s is '
                         '%r, expected %r' % (
                             times, 'from routines' if fr else 'directly',
                             r[0], r[1], r[2]),
                    input={'times': times, 'from_routine': fr},
                    observed=r[1], expected=r[2],
                    key='C09.score:' + r[0],
                    replay={'func': 'score', 'args': [times, fr]})
    rep.bounded(
        name='score', function='sc3.base._oscinterface.OscScore.add/finish/duration',
        bound='%d scenarios of 2..9 bundles at times from %r, sent directly and '
              'from routines at those logical times' % (len(scen), SCORE_TIMES),
        evaluations=n, distinct_nontrivial=len(distinct),
        rule='finished score = stable sort by time of the sent bundles (send '
             'order among equal times), root node first; duration = latest time',
        samples=scen[:4], exhaustive=False)


# --------------------------------------------------------------------------
# client: Ppar
# --------------------------------------------------------------------------

PPAR_DURS = (0.25, 0.5, 1.0, 1.5)


def gen_ppar_scenarios(rng, n):
    out = [[[1, 1], [1, 1], [0.5, 0.5, 1]],
           [[1], [1], [1]],
           [[0.5, 0.5], [1.0], [0.25, 0.75]],
           [[1.5, 0.5], [0.5, 1.5], [1.0, 1.0]]]
    while len(out) < n:
        k = rng.randint(2, 4)
        out.append([[rng.choice(PPAR_DURS) for _ in range(rng.randint(1, 5))]
                    for _ in range(k)])
    return out


def check_ppar(children):
    from sc3.base.stream import stream, StopStream
    from sc3.seq.patterns.eventpatterns import Ppar, Pbind
    from sc3.seq.patterns.listpatterns import Pseq
    from sc3.seq.event import event
    pats = []
    for i, durs in enumerate(children):
        pats.append(Pbind({
            'dur': Pseq(list(durs), 1),
            'who': i,
            'k': Pseq(list(range(len(durs))), 1)}))
    s = stream(Ppar(*pats))
    now = 0.0
    got = []
    for _ in range(1000):
        try:
            e = s.next(event())
        except StopStream:
            break
        if e.get('who') is not None and 'k' in e:
            got.append((now, e['who'], e['k']))
        now += float(e['delta'])
    exp = [(float(t), i, k) for t, i, k in PQ.merge_order(
        [[float(d) for d in durs] for durs in children])]
    if got != exp:
        return got, exp
    return None


def run_ppar(rep):
    scen = gen_ppar_scenarios(rep.rng, 60 if rep.tier == 'quick' else 400)
    n = 0
    distinct = set()
    for ch in scen:
        n += 1
        distinct.add(json.dumps(ch))
        r = check_ppar(ch)
        if r is not None:
            rep.violation(
                obligation='C09.client.ppar',
                what='Ppar of children with durations %r yields (time, child, '
                     'index) %r, a stable time-ordered merge gives %r' % (
                         ch, r[0], r[1]),
                input=ch, observed=r[0], expected=r[1],
                key='C09.ppar:order',
                replay={'func': 'ppar', 'args': ch})
    rep.bounded(
        name='ppar', function='sc3.seq.patterns.eventpatterns.Ppar.__embed__',
        bound='%d scenarios: 2..4 children with 1..5 events of durations from '
              '%r (exact in binary)' % (len(scen), PPAR_DURS),
        evaluations=n, distinct_nontrivial=len(distinct),
        rule='sequence of (onset, child, event index) equals the stable merge '
             '(children due at the same time in (re-)queueing order)',
        samples=scen[:4], exhaustive=False)


# --------------------------------------------------------------------------
# client: exit actions (subprocess, because _shutdown really shuts down)
# --------------------------------------------------------------------------

ATEXIT_PRIOS = (0, 0, 500, 700, 800, 800, 900, 1000, 250.5)

_ATEXIT_CHILD = r'''
import sys, json, logging, warnings
warnings.simplefilter('ignore')
logging.disable(logging.CRITICAL)
import sc3
sc3.init('nrt')
import sc3.base.main as m
main = m.main
scen = json.loads(sys.stdin.read())
out = []
for sc in scen:
    log = []
    funcs = {}
    def mk(i):
        def f():
            log.append(i)
        return f
    err = None
    try:
        for op in sc:
            if op[0] == 'add':
                f = funcs.setdefault(op[2], mk(op[2]))
                main._atexitq.add(op[1], f)
            else:
                f = funcs.setdefault(op[1], mk(op[1]))
                main._atexitq.remove(f)
        main._shutdown()
        if not main._atexitq.empty():
            err = 'queue not empty after _shutdown'
    except Exception as e:
        err = type(e).__name__
    try:
        main._atexitq.clear()
    except Exception:
        pass
    out.append({'log': log, 'err': err})
sys.stdout.write('\n@@RESULT@@' + json.dumps(out))
'''


def gen_atexit_scenarios(rng, n):
    out = [[['add', 0, 0], ['add', 0, 1], ['add', 0, 2]],
           [['add', 800, 0], ['add', 500, 1], ['add', 800, 2], ['add', 500, 3]],
           [['add', 0, 0], ['add', 0, 1], ['add', 0, 0]],
           [['add', 0, 0], ['add', 0, 1], ['remove', 0], ['add', 0, 2]],
           [['add', 900, 0], ['add', 0, 1], ['add', 0, 0], ['remove', 1]]]
    while len(out) < n:
        k = rng.randint(2, 8)
        sc = []
        for _ in range(k):
            if rng.random() < 0.8:
                sc.append(['add', rng.choice(ATEXIT_PRIOS), rng.randint(0, 4)])
            else:
                sc.append(['remove', rng.randint(0, 4)])
        out.append(sc)
    return out


def atexit_expected(sc):
    q = PQ.PQueue()
    for op in sc:
        if op[0] == 'add':
            q.add(op[1], op[2])
        else:
            q.remove(op[1])
    return [t for _, t in q.contents()]


def run_atexit_child(scen):
    env = dict(os.environ)
    p = subprocess.run([sys.executable, '-W', 'ignore', '-c', _ATEXIT_CHILD],
                       input=json.dumps(scen), capture_output=True, text=True,
                       env=env, timeout=300)
    if '@@RESULT@@' not in p.stdout:
        raise RuntimeError('atexit child failed: rc=%s\n%s\n%s' % (
            p.returncode, p.stdout[-2000:], p.stderr[-2000:]))
    return json.loads(p.stdout.split('@@RESULT@@')[1])


def check_atexit(rep, scen):
    res = run_atexit_child(scen)
    for sc, r in zip(scen, res):
        exp = atexit_expected(sc)
        if r['err'] is not None or r['log'] != exp:
            rep.violation(
                obligation='C09.client.atexit',
                what='exit actions registered by %r were run as %r (%s), the '
                     'stable priority order is %r' % (sc, r['log'], r['err'], exp),
                input=sc, observed=r, expected=exp,
                key='C09.atexit:order',
                replay={'func': 'atexit', 'args': sc})


def run_atexit(rep):
    scen = gen_atexit_scenarios(rep.rng, 48 if rep.tier == 'quick' else 300)
    check_atexit(rep, scen)
    rep.bounded(
        name='atexit', function='sc3.base.main.Process._atexitq/_shutdown',
        bound='%d scenarios of 2..8 registrations/removals of 5 actions with '
              'priorities from %r, run by the real main._shutdown() in a '
              'non-real-time subprocess' % (len(scen), ATEXIT_PRIOS),
        evaluations=len(scen),
        distinct_nontrivial=len({json.dumps(s) for s in scen}),
        rule='actions run in non-decreasing priority, registration order among '
             'equal priorities, re-registration = most recent, removed = never, '
             'each once, queue empty afterwards',
        samples=scen[:4], exhaustive=False)


# --------------------------------------------------------------------------

def main(rep):
    silence_sc3_logging()
    import warnings
    warnings.simplefilter('ignore')
    import sc3
    sc3.init('nrt')
    if wants(rep, 'exhaustive'):
        run_exhaustive(rep)
    if wants(rep, 'random'):
        run_random(rep)
    if wants(rep, 'score'):
        run_score(rep)
    if wants(rep, 'ppar'):
        run_ppar(rep)
    if wants(rep, 'atexit'):
        run_atexit(rep)
    rep.note('remove(t) of an absent task: the statement only says removal '
             'never disturbs the others; returning silently and raising '
             'KeyError are both accepted, the contents must not change.')
    rep.note('priorities are finite reals (no inf/nan): scheduling refuses '
             'infinite times before they reach a queue.')
    rep.note('OscScore.duration is compared with the latest entry up to the '
             'unit (seconds or seconds*2**-32): the unit is not C09\'s subject.')


def replay(case, rep):
    silence_sc3_logging()
    import warnings
    warnings.simplefilter('ignore')
    import sc3
    sc3.init('nrt')
    r = case['replay']
    f, args = r['func'], r['args']
    if f == 'history':
        hist = [top(o) for o in args]
        bad, _ = check_history(hist)
        for aspect, got, exp in bad:
            rep.violation(obligation='C09.model.' + aspect,
                          what='history %r: %s is %r, expected %r' % (
                              args, aspect, got, exp),
                          input=args, observed=got, expected=exp,
                          key='C09.%s:%s' % (opname(hist[-1]), aspect))
        return not bad
    if f == 'long':
        r2 = check_long_history(args)
        if r2 is not None:
            step, aspect, got, exp, op = r2
            rep.violation(obligation='C09.model.' + aspect,
                          what='step %d %s: %s is %s, expected %s' % (
                              step, _rj(op), aspect, _rj(got), _rj(exp)),
                          input=args, key='C09.%s:%s' % (opname(op), aspect))
        return r2 is None
    if f == 'score':
        r2 = check_score(args[0], args[1])
        if r2 is not None:
            rep.violation(obligation='C09.client.score',
                          what='%s: %r expected %r' % r2, input=args,
                          key='C09.score:' + r2[0])
        return r2 is None
    if f == 'ppar':
        r2 = check_ppar(args)
        if r2 is not None:
            rep.violation(obligation='C09.client.ppar',
                          what='order %r expected %r' % r2, input=args,
                          key='C09.ppar:order')
        return r2 is None
    if f == 'atexit':
        check_atexit(rep, [args])
        return not rep.violations
    raise ValueError(f)


if __name__ == '__main__':
    driver_main('C09', main, replay)
