"""Static obligations on the random-number plumbing (C10): every draw of the
library goes through the current time thread's generator and nothing else, a
routine inherits its parent's generator, and seeding installs a fresh one."""
import ast
import os
from vf.pyvc.spec import table

ALLOWED_CTORS = ('Random',)


def _rows(repo):
    rows = []
    # 1. no module-level random.<fn>() anywhere in the library
    for root, _, files in os.walk(os.path.join(repo, 'sc3')):
        for fn in files:
            if not fn.endswith('.py'):
                continue
            path = os.path.join(root, fn)
            rel = os.path.relpath(path, repo)
            try:
                tree = ast.parse(open(path).read())
            except SyntaxError:
                continue
            for n in ast.walk(tree):
                if isinstance(n, ast.Call) and isinstance(n.func, ast.Attribute) and \
                        isinstance(n.func.value, ast.Name) and n.func.value.id == 'random' \
                        and n.func.attr not in ALLOWED_CTORS:
                    rows.append(('%s:%d draws from the global random module (%s)'
                                 % (rel, n.lineno, n.func.attr), False, {'line': n.lineno}))
                if isinstance(n, ast.ImportFrom) and n.module == 'random':
                    rows.append(('%s imports names from random' % rel, False, {'line': n.lineno}))
    # 2. every generator use in builtins.py is _libsc3.main._rgen.<method>
    bpath = os.path.join(repo, 'sc3/base/builtins.py')
    tree = ast.parse(open(bpath).read())
    uses = 0
    for n in ast.walk(tree):
        if isinstance(n, ast.Attribute) and n.attr == '_rgen':
            src = ast.unparse(n)
            ok = src == '_libsc3.main._rgen'
            uses += 1
            if not ok:
                rows.append(('builtins.py:%d uses generator %s' % (n.lineno, src), False, {}))
    rows.append(('builtins.py draws only through _libsc3.main._rgen (%d sites)' % uses, uses > 0, {'sites': uses}))
    # 3. main._rgen is the current time thread's generator
    mpath = os.path.join(repo, 'sc3/base/main.py')
    mt = ast.parse(open(mpath).read())
    got = None
    for n in ast.walk(mt):
        if isinstance(n, ast.FunctionDef) and n.name == '_rgen':
            rets = [r for r in ast.walk(n) if isinstance(r, ast.Return)]
            got = ast.unparse(rets[0].value) if len(rets) == 1 else None
    rows.append(('main._rgen returns current_tt._rgen', got == 'cls.current_tt._rgen', {'got': got}))
    # 4. a time thread inherits the generator of the thread that creates it; seeding replaces it
    spath = os.path.join(repo, 'sc3/base/stream.py')
    stt = ast.parse(open(spath).read())
    tt = [c for c in stt.body if isinstance(c, ast.ClassDef) and c.name == 'TimeThread'][0]
    init = [f for f in tt.body if isinstance(f, ast.FunctionDef) and f.name == '__init__'][0]
    assigns = [ast.unparse(a.value) for a in ast.walk(init) if isinstance(a, ast.Assign)
               and any(ast.unparse(t) == 'self._rgen' for t in a.targets)]
    rows.append(('TimeThread.__init__ inherits the creating thread\'s generator',
                 len(assigns) == 1 and assigns[0].endswith('current_tt._rgen'), {'got': assigns}))
    setters = [f for f in tt.body if isinstance(f, ast.FunctionDef) and f.name == 'rand_seed'
               and any(isinstance(d, ast.Attribute) and d.attr == 'setter' for d in f.decorator_list)]
    ok_seed = False
    sa = []
    for f in setters:
        pname = f.args.args[1].arg if len(f.args.args) > 1 else None
        for a in ast.walk(f):
            if isinstance(a, ast.Assign) and any(ast.unparse(t) == 'self._rgen' for t in a.targets):
                sa.append(ast.unparse(a.value))
                v = a.value
                ok_seed = (isinstance(v, ast.Call) and ast.unparse(v.func) == 'random.Random'
                           and len(v.args) == 1 and isinstance(v.args[0], ast.Name)
                           and v.args[0].id == pname)
    rows.append(('rand_seed= installs a fresh random.Random(<the seed given>)',
                 ok_seed and len(sa) == 1, {'got': sa}))
    return rows


table('random-plumbing', props=('C10',), rows=_rows,
      reads=('sc3/**/*.py', 'sc3/base/builtins.py', 'sc3/base/main.py', 'sc3/base/stream.py'))
