"""Contracts for the buffer commands (C17: "client objects speak the server command protocol and keep ids
consistent"; C16: a freed buffer hands out nothing): sc3/synth/buffer.py.

Table-driven: for every method the reference command with its argument order, written once below.

  * a buffer that was freed (no number) refuses with BufferAlreadyFreed and sends NOTHING (the methods that have
    the guard: close, zero, fill, set, get, getn, query, gen, sine1, cheby, normalize, copy_data, prepare_partconv);
  * otherwise exactly ONE message goes out, through the buffer's own server address, the reference command, THIS
    buffer's number first, then the given values in the reference order; a completion message is the completion
    argument evaluated ONCE with this buffer (fn.value(completion_msg, self)); read/read_channel append the
    ['/b_query', number] completion themselves;
  * get / getn / query: the one-shot responder for the reply (from this buffer's server, filtered by the buffer
    number and the index asked for) is set up BEFORE the request; the handler hands over item 3 / items 4.. / the
    whole reply;
  * the generators (gen, sine1, cheby, normalize): the action responder is set up first (ghost call with the
    action), the flags are the flag sum of the three options (ghost), then /b_gen number <kind> flags values...;
  * fields written: alloc_read / alloc_read_channel remember path and start frame, read / read_channel path and
    the info action, cue the path - nothing else.

Sending is a ghost event (encoding: C06/C07).  write (path arithmetic), setn, the list transfers and the
constructors are bounded only (driver C17).
"""
import z3
from vf.pyvc.spec import contract, REGISTRY
from vf.pyvc.values import *
from vf.pyvc import values as VV
from vf.pyvc.engine import Raised, Unsupported

F = 'sc3/synth/buffer.py'
FN = 'sc3/base/functions.py'
OWN = 'addr-of-the-buffer-server'
REPLY = z3.Function('buffer_reply_item', z3.IntSort(), VV.Any)
NREPLY = z3.Int('buffer_reply.len')


def seq_kind(tag):
    def k(eng, name):
        n = z3.Int(tag + '.len')
        return V('seq', extra={'len': n, 'facts': [n >= 0], 'tag': tag,
                               'get': (lambda e_, i, s_: V('any', z3.Select(z3.Array(tag + '.items', z3.IntSort(), VV.Any), i)))})
    return k


def h_getattr(eng, obj, name, st, node):
    if obj.k == 'obj' and obj.oid == 'self._server' and name == 'addr':
        return [(st, V('obj', oid=OWN))]
    if obj.k == 'obj' and obj.oid == OWN and name == 'send_msg':
        def send(eng, args, kwargs, st, node):
            st.trace.append(('send_msg', tuple(args)))
            return [(st, NONE)]
        return [(st, V('func', py=('spec', send)))]
    if obj.k == 'module' and name == 'OscFunc':
        return [(st, V('class', py='OscFunc'))]
    if obj.k == 'obj' and obj.extra and 'responder' in obj.extra and name == 'one_shot':
        def one_shot(eng, a, kw, st, node, _o=obj):
            st.trace.append(('one-shot', _o))
            return [(st, NONE)]
        return [(st, V('func', py=('spec', one_shot)))]
    if obj.k == 'ref' and obj.cls == 'OtherBuffer' and name == 'bufnum':
        return [(st, vint(z3.Int(obj.oid + '.bufnum')))]
    return None


def h_construct(eng, f, args, kwargs, st, node):
    if f.k == 'class' and f.py == 'OscFunc':
        r = V('obj', oid='responder!%d' % next(eng.counter), extra={'responder': True})
        handled = None
        if args and args[0].k == 'func' and args[0].py[0] == 'closure':
            probe = st.fork()
            n0 = len(probe.trace)
            msg = V('seq', extra={'len': NREPLY, 'reply': True, 'get': (lambda e_, i, s_: V('any', REPLY(i)))})
            probe.pc.append(NREPLY >= 8)
            handled = []
            for st1, res in eng.call_closure(args[0], [msg, V('obj', oid='t'), V('obj', oid='a'), V('obj', oid='p')], {}, probe, node):
                handled.append(([e for e in st1.trace[n0:] if e[0] == 'value-called'], isinstance(res, Raised)))
        st.trace.append(('responder', tuple(args), dict(kwargs), r, handled))
        return [(st, r)]
    return None


def h_builtin(eng, name, args, kwargs, st, node):
    if name in ('int', 'bool', 'str') and len(args) == 1 and args[0].k == 'obj':
        return [(st, V('obj', oid='%s-of!%d' % (name, next(eng.counter)), extra={'conv': (name, args[0])}))]
    return None


def value_pol(eng, selfv, args, kwargs, st, node):
    r = V('obj', oid='value!%d' % next(eng.counter), extra={'value_of': tuple(args)})
    st.trace.append(('value-called', tuple(args), r))
    return [(st, r)]


def traced(name, result=None):
    def pol(eng, selfv, args, kwargs, st, node):
        r = NONE if result is None else V('obj', oid=result, extra={'from': tuple(args)})
        st.trace.append((name, tuple(args)))
        return [(st, r)]
    return pol


HOOKS = {'getattr': h_getattr, 'construct': h_construct, 'builtin_first': h_builtin}
POL = {FN + '::value': value_pol, 'Buffer._gen_action_responder': traced('action-responder'),
       'Buffer._gen_oflags': traced('oflags', 'the-flags')}
LIVE = {'_bufnum': 'int', '_frames': 'obj', '_channels': 'obj', '_server': 'obj', '_path': 'obj',
        '_start_frame': 'obj', '_do_on_info': 'obj'}
FREED = dict(LIVE, _bufnum='none')


# ---- argument specifications ------------------------------------------------------------------------------------
def check_arg(c, spec, got):
    kind = spec[0]
    if kind == 'cmd':
        return z3.BoolVal(got.k == 'str' and got.py == spec[1])
    if kind == 'num':            # this buffer's number
        return got.z == c.pre.self._bufnum if got.k == 'int' else z3.BoolVal(False)
    if kind == 'p':              # a parameter, unchanged
        return z3.BoolVal(got is c._params[spec[1]])
    if kind == 'field':          # a field of the buffer as it was
        f = c.pre.self.v(spec[1])
        return z3.BoolVal(got is f or (got.k == f.k and got.oid is not None and got.oid == f.oid))
    if kind == 'conv':           # int(param) / bool(param)
        cv = got.extra.get('conv') if got.k == 'obj' and got.extra else None
        return z3.BoolVal(cv is not None and cv[0] == spec[1] and cv[1] is c._params[spec[2]])
    if kind == 'star':           # *param
        return z3.BoolVal(got.k == 'star' and got.extra['seq'] is c._params[spec[1]])
    if kind == 'const':
        if isinstance(spec[1], bool):
            return z3.BoolVal(got.k == 'bool' and z3.is_true(z3.simplify(got.z)) == spec[1])
        if isinstance(spec[1], int):
            return z3.BoolVal(got.k == 'int' and z3.is_int_value(z3.simplify(got.z)) and z3.simplify(got.z).as_long() == spec[1])
        return z3.BoolVal(got.k == 'str' and got.py == spec[1])
    if kind == 'completion':     # fn.value(completion_msg, self), evaluated once
        calls = [e for e in c.trace if e[0] == 'value-called']
        ok = (len(calls) == 1 and got is calls[0][2] and len(calls[0][1]) == 2 and calls[0][1][0] is c._params['completion_msg']
              and calls[0][1][1].k == 'ref' and calls[0][1][1].oid == 'self')
        return z3.BoolVal(bool(ok))
    if kind == 'query':          # ['/b_query', number]
        ok = got.k == 'list' and got.items is not None and len(got.items) == 2 and got.items[0].k == 'str' \
            and got.items[0].py == '/b_query' and got.items[1].k == 'int'
        return got.items[1].z == c.pre.self._bufnum if ok else z3.BoolVal(False)
    if kind == 'flags':
        return z3.BoolVal(got.k == 'obj' and got.oid == 'the-flags')
    if kind == 'other-num':      # another buffer's number
        return got.z == z3.Int(spec[1] + '.bufnum') if got.k == 'int' else z3.BoolVal(False)
    raise KeyError(kind)


def one_message(specs, writes=(), before=None):
    def post(c):
        s = [e for e in c.trace if e[0] == 'send_msg']
        if len(s) != 1 or len(s[0][1]) != len(specs):
            return z3.BoolVal(False)
        cl = [check_arg(c, sp, got) for sp, got in zip(specs, s[0][1])]
        for field, param in writes:
            cl.append(z3.BoolVal(c.post.self.v(field) is c._params[param]))
        if before is not None:
            cl.append(before(c, c.trace.index(s[0])))
        if not any(sp[0] == 'completion' for sp in specs):
            cl.append(z3.BoolVal(not [e for e in c.trace if e[0] == 'value-called']))
        return z3.And(*cl)
    return post


def variant(qual, tag):
    key = '%s::%s#%s' % (F, qual, tag)
    REGISTRY[key] = REGISTRY.pop('%s::%s' % (F, qual))
    REGISTRY[key].key = key


def command(meth, params, specs, writes=(), guarded=True, before=None, kinds=None, extra_fields=None, tag='live'):
    qual = 'Buffer.' + meth
    fields = {'Buffer': LIVE}
    fields.update(extra_fields or {})
    contract(F, qual, props=('C17', 'C16'), params=params,
             ensures=[('one-reference-command-with-own-number-and-the-given-values-in-order', one_message(specs, writes, before))],
             modifies=[('self', f) for f, _ in writes], fields=fields, hooks=HOOKS, policies=POL,
             class_modules={k: F for k in fields}, native=False)
    variant(qual, tag)
    if guarded and tag == 'live':
        fr = {'Buffer': FREED}
        fr.update(extra_fields or {})
        contract(F, qual, props=('C17', 'C16'), params=params,
                 raises={'BufferAlreadyFreed': lambda c: z3.BoolVal(True)},
                 ensures=[('a-freed-buffer-never-returns-normally', lambda c: z3.BoolVal(False))],
                 on_raise=[('refused-and-nothing-sent', lambda c: z3.BoolVal(
                     not [e for e in c.trace if e[0] in ('send_msg', 'responder', 'action-responder', 'value-called')]))],
                 modifies=[], fields=fr, hooks=HOOKS, policies=POL, class_modules={k: F for k in fr}, native=False)
        variant(qual, 'freed')


S = 'self'
CM = ('completion',)
command('alloc', {S: S, 'completion_msg': 'obj'},
        [('cmd', '/b_alloc'), ('num',), ('field', '_frames'), ('field', '_channels'), CM], guarded=False)
command('alloc_read', {S: S, 'path': 'obj', 'start_frame': 'obj', 'frames': 'obj', 'completion_msg': 'obj'},
        [('cmd', '/b_allocRead'), ('num',), ('p', 'path'), ('p', 'start_frame'), ('p', 'frames'), CM],
        writes=[('_path', 'path'), ('_start_frame', 'start_frame')], guarded=False)
command('alloc_read_channel', {S: S, 'path': 'obj', 'start_frame': 'obj', 'frames': 'obj', 'channels': seq_kind('channels'),
                               'completion_msg': 'obj'},
        [('cmd', '/b_allocReadChannel'), ('num',), ('p', 'path'), ('p', 'start_frame'), ('p', 'frames'), ('star', 'channels'), CM],
        writes=[('_path', 'path'), ('_start_frame', 'start_frame')], guarded=False)
command('read', {S: S, 'path': 'obj', 'file_start_frame': 'obj', 'frames': 'obj', 'buf_start_frame': 'obj',
                 'leave_open': 'obj', 'action': 'obj'},
        [('cmd', '/b_read'), ('num',), ('p', 'path'), ('p', 'file_start_frame'), ('p', 'frames'), ('p', 'buf_start_frame'),
         ('p', 'leave_open'), ('query',)],
        writes=[('_path', 'path'), ('_do_on_info', 'action')], guarded=False)
command('read_channel', {S: S, 'path': 'obj', 'file_start_frame': 'obj', 'frames': 'obj', 'buf_start_frame': 'obj',
                         'leave_open': 'obj', 'channels': seq_kind('channels'), 'action': 'obj'},
        [('cmd', '/b_readChannel'), ('num',), ('p', 'path'), ('p', 'file_start_frame'), ('p', 'frames'), ('p', 'buf_start_frame'),
         ('p', 'leave_open'), ('star', 'channels'), ('query',)],
        writes=[('_path', 'path'), ('_do_on_info', 'action')], guarded=False)
command('cue', {S: S, 'path': 'obj', 'start_frame': 'obj', 'completion_msg': 'obj'},
        [('cmd', '/b_read'), ('num',), ('p', 'path'), ('p', 'start_frame'), ('field', '_frames'), ('const', 0), ('const', True), CM],
        writes=[('_path', 'path')], guarded=False)
command('close', {S: S, 'completion_msg': 'obj'}, [('cmd', '/b_close'), ('num',), CM])
command('zero', {S: S, 'completion_msg': 'obj'}, [('cmd', '/b_zero'), ('num',), CM])
command('fill', {S: S, 'start': 'obj', 'frames': 'obj', 'values': seq_kind('values')},
        [('cmd', '/b_fill'), ('num',), ('p', 'start'), ('conv', 'int', 'frames'), ('star', 'values')])
command('set', {S: S, 'index': 'obj', 'value': 'obj', 'more_pairs': seq_kind('more_pairs')},
        [('cmd', '/b_set'), ('num',), ('p', 'index'), ('p', 'value'), ('star', 'more_pairs')])
command('prepare_partconv', {S: S, 'buf': 'ref:OtherBuffer', 'fftsize': 'obj'},
        [('cmd', '/b_gen'), ('num',), ('const', 'PreparePartConv'), ('other-num', 'buf'), ('p', 'fftsize')],
        extra_fields={'OtherBuffer': {}})


# ---- the generators --------------------------------------------------------------------------------------------
def responder_first(c, send_index):
    ar = [e for e in c.trace if e[0] == 'action-responder']
    ok = len(ar) == 1 and len(ar[0][1]) == 1 and ar[0][1][0] is c._params['action'] and c.trace.index(ar[0]) < send_index
    return z3.BoolVal(bool(ok))


def flags_from(names):
    def chk(c, send_index):
        fl = [e for e in c.trace if e[0] == 'oflags']
        ok = len(fl) == 1 and len(fl[0][1]) == 3 and all(fl[0][1][i] is c._params[n] for i, n in enumerate(names))
        return z3.And(responder_first(c, send_index), z3.BoolVal(bool(ok)))
    return chk


OPT = {'normalize': 'obj', 'as_wavetable': 'obj', 'clear_first': 'obj', 'action': 'obj'}
FL = flags_from(('normalize', 'as_wavetable', 'clear_first'))
command('gen', dict({S: S, 'cmd': 'obj', 'args': seq_kind('args')}, **OPT),
        [('cmd', '/b_gen'), ('num',), ('p', 'cmd'), ('flags',), ('star', 'args')], before=FL)
command('sine1', dict({S: S, 'amps': seq_kind('amps')}, **OPT),
        [('cmd', '/b_gen'), ('num',), ('const', 'sine1'), ('flags',), ('star', 'amps')], before=FL)
command('cheby', dict({S: S, 'amps': seq_kind('amps')}, **OPT),
        [('cmd', '/b_gen'), ('num',), ('const', 'cheby'), ('flags',), ('star', 'amps')], before=FL)
command('normalize', {S: S, 'new_max': 'obj', 'as_wavetable': 'bool', 'action': 'obj'},
        [('cmd', '/b_gen'), ('num',), ('wt-or-plain',), ('p', 'new_max')], before=responder_first)


_orig_check = check_arg


def check_arg(c, spec, got):      # noqa: F811  (one more kind: the normalisation format by the wavetable flag)
    if spec[0] == 'wt-or-plain':
        if got.k != 'str' or got.py not in ('wnormalize', 'normalize'):
            return z3.BoolVal(False)
        return c.as_wavetable == z3.BoolVal(got.py == 'wnormalize')
    return _orig_check(c, spec, got)


# ---- asking the server: get / getn / query ----------------------------------------------------------------------
def asked(request, reply, template_params, request_params, handed):
    def post(c):
        t = [e for e in c.trace if e[0] in ('responder', 'one-shot', 'send_msg')]
        if [e[0] for e in t] != ['responder', 'one-shot', 'send_msg']:
            return z3.BoolVal(False)
        rsp, one, snd = t
        pos, kw = rsp[1], rsp[2]
        tpl = kw.get('arg_template')
        ok = (len(pos) == 3 and pos[1].k == 'str' and pos[1].py == reply and pos[2].k == 'obj' and pos[2].oid == OWN
              and one[1] is rsp[3] and tpl is not None and tpl.k == 'list' and tpl.items is not None
              and len(tpl.items) == 1 + len(template_params) and tpl.items[0].k == 'int'
              and all(tpl.items[1 + i] is c._params[p] for i, p in enumerate(template_params))
              and len(snd[1]) == 2 + len(request_params) and snd[1][0].k == 'str' and snd[1][0].py == request
              and snd[1][1].k == 'int' and all(snd[1][2 + i] is c._params[p] for i, p in enumerate(request_params))
              and rsp[4] is not None and len(rsp[4]) == 1 and not rsp[4][0][1] and len(rsp[4][0][0]) == 1)
        if not ok:
            return z3.BoolVal(False)
        call = rsp[4][0][0][0][1]                    # arguments of fn.value(...) in the handler
        if not call or call[0] is not c._params['action']:
            return z3.BoolVal(False)
        cl = [tpl.items[0].z == c.pre.self._bufnum, snd[1][1].z == c.pre.self._bufnum]
        if handed == 'item3':
            cl.append(call[1].z == REPLY(3) if len(call) == 2 and call[1].k == 'any' else z3.BoolVal(False))
        elif handed == 'from4':
            v = call[1] if len(call) == 2 else None
            so = v.extra.get('slice_of') if v is not None and v.k == 'seq' and v.extra else None
            if so is None or not so[0].get('reply'):
                return z3.BoolVal(False)
            cl.append(z3.Implies(NREPLY >= 8, z3.And(so[1] == 4, v.extra['len'] == NREPLY - 4)))
        else:                                           # the whole reply, spread
            v = call[1] if len(call) == 2 else None
            cl.append(z3.BoolVal(v is not None and v.k == 'star' and bool(v.extra['seq'].extra.get('reply'))
                                 and 'slice_of' not in v.extra['seq'].extra))
        return z3.And(*cl)
    return post


def ask(meth, params, request, reply, template_params, request_params, handed):
    qual = 'Buffer.' + meth
    contract(F, qual, props=('C17', 'C16'), params=params,
             ensures=[('one-shot-responder-for-the-reply-first,filtered-by-own-number;then-one-request;the-handler-hands-over-the-reply',
                       asked(request, reply, template_params, request_params, handed))],
             modifies=[], fields={'Buffer': LIVE}, hooks=HOOKS, policies=POL, class_modules={'Buffer': F}, native=False)
    variant(qual, 'live')
    contract(F, qual, props=('C17', 'C16'), params=params,
             raises={'BufferAlreadyFreed': lambda c: z3.BoolVal(True)},
             ensures=[('a-freed-buffer-never-returns-normally', lambda c: z3.BoolVal(False))],
             on_raise=[('refused-and-nothing-sent', lambda c: z3.BoolVal(
                 not [e for e in c.trace if e[0] in ('send_msg', 'responder')]))],
             modifies=[], fields={'Buffer': FREED}, hooks=HOOKS, policies=POL, class_modules={'Buffer': F}, native=False)
    variant(qual, 'freed')


ask('get', {S: S, 'index': 'obj', 'action': 'obj'}, '/b_get', '/b_set', ['index'], ['index'], 'item3')
ask('getn', {S: S, 'index': 'obj', 'count': 'obj', 'action': 'obj'}, '/b_getn', '/b_setn', ['index'], ['index', 'count'], 'from4')
ask('query', {S: S, 'action': 'obj'}, '/b_query', '/b_info', [], [], 'all')
