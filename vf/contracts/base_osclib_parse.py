"""Contracts for the OSC decoder's index arithmetic (C18): sc3/base/_osclib.py.
Byte contents are abstract; what is proved is progress/termination of the bundle
parser and that short datagrams are refused rather than read past the end."""
import z3
from vf.pyvc.spec import contract, Loop
from vf.pyvc.values import *
from vf.pyvc import values as VV
from vf.pyvc.engine import Raised

F = 'sc3/base/_osclib.py'


def remaining(c):
    L = c.blen(c.dgram)
    return z3.If(c.start_index < L, L - c.start_index, 0)


for fn, n in (('get_int', 4), ('get_timetag', 8)):
    contract(F, fn, props=('C18',),
             params={'dgram': 'bytes', 'start_index': 'int'},
             requires=lambda c: c.start_index >= 0,
             raises={'OscTypeParseError': (lambda n: lambda c: remaining(c) < n)(n)},
             ensures=[('consumes-exactly-%d-bytes' % n, (lambda n: lambda c: z3.And(
                 z3.BoolVal(c.resultv.k == 'tuple' and len(c.resultv.items) == 2),
                 c.resultv.items[1].z == c.start_index + n,
                 c.start_index + n <= c.blen(c.dgram)))(n))],
             note='never reads past the end: too short a datagram is a parse error')


for fn, n, exc in (('get_double', 8, 'OscParseError'), ('get_rgba', 4, 'OscTypeParseError')):
    contract(F, fn, props=('C18', 'C06'),
             params={'dgram': 'bytes', 'start_index': 'int'},
             requires=lambda c: c.start_index >= 0,
             raises={exc: (lambda n: lambda c: remaining(c) < n)(n)},
             ensures=[('consumes-exactly-%d-bytes' % n, (lambda n: lambda c: z3.And(
                 z3.BoolVal(c.resultv.k == 'tuple' and len(c.resultv.items) == 2),
                 c.resultv.items[1].z == c.start_index + n,
                 c.start_index + n <= c.blen(c.dgram)))(n))],
             note='never reads past the end: too short a datagram is a parse error')


def may_fail(name, exc):
    def pol(eng, selfv, args, kwargs, st, node):
        bad = st.fork()
        return [(st, V('obj', oid='%s!%d' % (name, next(eng.counter)))),
                (bad, Raised(eng.make_exc(exc, node=node)))]
    return pol


def get_int_model(eng, selfv, args, kwargs, st, node):
    """contract call of get_int (proved above)"""
    dgram, idx = args
    L = eng.bytes_len(dgram)
    rem = z3.If(idx.z < L, L - idx.z, 0)
    outs = []
    for st1, short in eng.branch(st, rem < 4, node):
        if short:
            outs.append((st1, Raised(eng.make_exc('OscTypeParseError', node=node))))
        else:
            v = eng.fresh_val('int', 'size')
            st1.pc.append(z3.And(v.z >= -2**31, v.z <= 2**31 - 1))
            outs.append((st1, vtuple([v, vint(idx.z + 4)])))
    return outs


def construct(eng, f, args, kwargs, st, node):
    if f.py in ('OscBundle', 'OscMessage'):
        bad = st.fork()
        exc = 'OscBundleParseError' if f.py == 'OscBundle' else 'OscMessageParseError'
        r = V('obj', oid='%s!%d' % (f.py, next(eng.counter)))
        st.trace.append(('parse-element', f.py, args[0] if args else None, r))
        return [(st, r), (bad, Raised(eng.make_exc(exc, node=node)))]
    return None


def pc_since(trace):
    idx = -1
    for i, e in enumerate(trace):
        if e[0] == 'loop-head':
            idx = i
    return trace[idx + 1:] if idx >= 0 else []


def pc_remember(eng, st):
    st.ghost = dict(st.ghost)
    st.ghost['index_at_head'] = st.env['index'].z


def pc_getattr(eng, obj, name, st, node):
    if obj.k == 'ref' and obj.cls == 'ContentList' and name == 'append':
        def app(eng, args, kwargs, st, node):
            st.trace.append(('contents-append', args[0]))
            return [(st, NONE)]
        return [(st, V('func', py=('spec', app)))]
    return None


def pc_new_list(eng, items, st):
    if items == []:
        return V('ref', cls='ContentList', oid='contents')
    return None


def pc_classify(which):
    def pol(eng, selfv, args, kwargs, st, node):
        b = z3.Bool('%s!%d' % (which, next(eng.counter)))
        st.trace.append(('classify', which, args[0], b))
        return [(st, vbool(b))]
    return pol


def pc_pass(c, L):
    """one bundle element per pass: its size field is read at the position the previous element ended, the
    element is exactly the `size` bytes after that field, the position moves past it (elements neither overlap
    nor leave gaps), and it is parsed once as what it starts like - a bundle, else a message - and kept"""
    base = L.index >= 0
    if L.phase != 'after':
        return base
    ev = pc_since(c.trace)
    i0 = c.st.ghost['index_at_head']
    size = c.st.env['content_size']
    elems = [e for e in ev if e[0] == 'parse-element']
    apps = [e for e in ev if e[0] == 'contents-append']
    cls_ = [e for e in ev if e[0] == 'classify']
    if size.k != 'int' or len(elems) > 1 or len(apps) != len(elems) or not cls_:
        return z3.BoolVal(False)
    cl = [base, L.index == i0 + 4 + size.z]
    is_b = [e for e in cls_ if e[1] == 'bundle']
    is_m = [e for e in cls_ if e[1] == 'message']

    def the_element(v):
        so = v.extra.get('slice_of') if v is not None and v.k == 'bytes' and v.extra else None
        if so is None or not (so[0].k == 'bytes'):
            return z3.BoolVal(False)
        return z3.And(so[1] == i0 + 4, c._eng.bytes_len(v) == size.z)
    if len(is_b) != 1:
        return z3.BoolVal(False)
    cl.append(the_element(is_b[0][2]))
    if elems:
        kind, arg, made = elems[0][1], elems[0][2], elems[0][3]
        cl += [the_element(arg), z3.BoolVal(apps[0][1] is made)]
        if kind == 'OscBundle':
            cl.append(is_b[0][3])
        else:
            cl += [z3.Not(is_b[0][3]), z3.BoolVal(len(is_m) == 1), is_m[0][3] if is_m else z3.BoolVal(False)]
    else:
        cl += [z3.Not(is_b[0][3]), z3.BoolVal(len(is_m) == 1), z3.Not(is_m[0][3]) if is_m else z3.BoolVal(False)]
    return z3.And(*cl)


contract(F, 'OscBundle._parse_contents', props=('C18',),
         params={'self': 'self', 'index': 'int'},
         requires=lambda c: c.index >= 0,
         raises={'OscBundleParseError': None},
         ensures=[],
         fields={'OscBundle': {'_dgram': 'bytes'}, 'ContentList': {}},
         loops={0: Loop(
             inv=pc_pass,
             # every iteration consumes at least the 4 size bytes: terminates
             variant=lambda c, L: c.blen(c.pre.self.v('_dgram')) - L.index,
             kinds={'content_dgram': 'bytes', 'content_size': 'int'}, havoc_hook=pc_remember)},
         policies={'get_int': get_int_model,
                   'OscBundle.dgram_is_bundle': pc_classify('bundle'), 'OscMessage.dgram_is_message': pc_classify('message')},
         hooks={'construct': construct, 'getattr': pc_getattr, 'new_list': pc_new_list},
         class_modules={'OscBundle': F, 'OscMessage': F, 'ContentList': F},
         note='termination = the loop variant: a negative element size would leave the index where it was')


# ---- get_blob: size count, that many bytes, padding to a multiple of 4 -------------------------
def get_int_traced(eng, selfv, args, kwargs, st, node):
    outs = get_int_model(eng, selfv, args, kwargs, st, node)
    for st1, r in outs:
        if not isinstance(r, Raised):
            st1.trace.append(('size', r.items[0].z))
    return outs


def blob_size(c):
    s = [e for e in c.trace if e[0] == 'size']
    return s[0][1] if len(s) == 1 else None


def blob_post(c):
    size = blob_size(c)
    r = c.resultv
    if size is None or r.k != 'tuple' or len(r.items) != 2 or r.items[0].k != 'bytes':
        return z3.BoolVal(False)
    pad = (-size) % 4
    return z3.And(size >= 0,
                  c.blen(r.items[0]) == size,                          # exactly `size` bytes of data
                  r.items[1].z == c.start_index + 4 + size + pad,      # index moves past count, data and padding
                  (r.items[1].z - c.start_index) % 4 == 0,             # stays 4-aligned relative to the start
                  c.start_index + 4 + size <= c.blen(c.dgram))         # the data lies inside the datagram


def blob_refused(c):
    """on refusal: too short for the count, a negative count, or data running past the end"""
    size = blob_size(c)
    if size is None:
        return remaining(c) < 4
    return z3.Or(size < 0, c.start_index + 4 + size > c.blen(c.dgram))


contract(F, 'get_blob', props=('C18', 'C06'),
         params={'dgram': 'bytes', 'start_index': 'int'},
         requires=lambda c: c.start_index >= 0,
         raises={'OscTypeParseError': None},
         ensures=[('count-data-padding:index-and-length', blob_post)],
         on_raise=[('refused-only-when-short-negative-or-overrunning', blob_refused)],
         policies={'get_int': get_int_traced}, native=False,
         note='byte contents are abstract (no native replay: a counter-model does not say which bytes '
              'encode the count); get_int through its proved contract; the PADDING may lie beyond the end of the datagram '
              '(python-osc leniency, accepted by the statement: "sized correctly" is about the writer)')


# ---- OscMessage._parse_datagram: the decoder of one message (C06 round trip, C18 incoming messages) ------------------
# the address string is read at 0; nothing after it: a message without arguments; else the type tag string is read
# where the address ended (a leading ',' dropped), and for EVERY tag character in order:
#   i f d s b r m t   the decoder of THAT type is called once at the CURRENT position, the position moves to where it
#                     says, and the value is appended to the innermost open list;
#   T F               True / False appended, position unchanged;
#   [                 a new list is appended to the innermost open list and becomes the innermost one;
#   ]                 the innermost list is closed (refused when none is open);
#   anything else     skipped (logged), nothing appended, position unchanged;
# at the end every opened list must be closed (else refused) and the outermost list is the message's parameters.
NTAGS = z3.Int('type_tag.len')
TCH = z3.Function('type_tag_char', z3.IntSort(), VV.Any)
GETTERS = {'i': 'get_int', 'f': 'get_float', 'd': 'get_double', 's': 'get_string', 'b': 'get_blob', 'r': 'get_rgba',
           'm': 'get_midi', 't': 'get_timetag'}
DEPTH = 'stack.depth'


def tag_seq(lo):
    return V('seq', extra={'len': z3.If(NTAGS - lo > 0, NTAGS - lo, 0), 'tag_string': lo,
                           'get': (lambda e_, i, s_, _lo=lo: V('any', TCH(i + _lo)))})


def pd_getter(name):
    def pol(eng, selfv, args, kwargs, st, node):
        ok, bad = st, st.fork()
        idx = args[1]
        n = next(eng.counter)
        nxt = vint(z3.Int('index_after_%s!%d' % (name, n)))
        if name == 'get_string' and not [e for e in st.trace if e[0] == 'get' and e[1] == 'get_string']:
            val = V('obj', oid='the-address')
        elif name == 'get_string' and len([e for e in st.trace if e[0] == 'get' and e[1] == 'get_string']) == 1 \
                and not [e for e in st.trace if e[0] == 'loop-head']:
            val = tag_seq(z3.IntVal(0))
        else:
            val = V('obj', oid='decoded!%d' % n)
        if idx.k == 'int':
            ok.pc.append(nxt.z >= idx.z)             # a decoder never moves backwards (index laws of get_*: above)
        ok.trace.append(('get', name, args[0], idx, val, nxt))
        bad.trace.append(('get-refused', name))
        return [(ok, vtuple([val, nxt])), (bad, Raised(eng.make_exc('OscTypeParseError', node=node)))]
    return pol


def pd_getattr(eng, obj, name, st, node):
    if obj.k == 'seq' and 'tag_string' in obj.extra and name == 'startswith':
        def sw(eng, a, kw, st, node):
            return [(st, vbool(z3.And(NTAGS >= 1, eng.str_is(',')(TCH(0)), VV.tag_of(TCH(0)) == TAGS['str'])))]
        return [(st, V('func', py=('spec', sw)))]
    if obj.k == 'ref' and obj.cls == 'PList' and name == 'append':
        def app(eng, a, kw, st, node, _o=obj):
            st.trace.append(('append', _o, a[0]))
            return [(st, NONE)]
        return [(st, V('func', py=('spec', app)))]
    if obj.k == 'ref' and obj.cls == 'PStack':
        if name == 'append':
            def push(eng, a, kw, st, node):
                d = st.objs.setdefault('the-stack', {}).get('depth') or vint(z3.Int(DEPTH))
                st.objs['the-stack']['depth'] = vint(d.z + 1)
                st.objs['the-stack']['top'] = a[0]
                st.trace.append(('push', a[0]))
                return [(st, NONE)]
            return [(st, V('func', py=('spec', push)))]
        if name == 'pop':
            def pop(eng, a, kw, st, node):
                d = st.objs.setdefault('the-stack', {}).get('depth') or vint(z3.Int(DEPTH))
                st.objs['the-stack']['depth'] = vint(d.z - 1)
                st.objs['the-stack']['top'] = V('ref', cls='PList', oid='list-below!%d' % next(eng.counter))
                st.trace.append(('pop',))
                return [(st, NONE)]
            return [(st, V('func', py=('spec', pop)))]
    return None


def pd_new_list(eng, items, st):
    if items == []:
        n = len([e for e in st.trace if e[0] == 'new-plist'])
        r = V('ref', cls='PList', oid='params' if n == 0 else 'array!%d' % next(eng.counter))
        st.trace.append(('new-plist', r))
        return r
    if len(items) == 1 and items[0].k == 'ref' and items[0].cls == 'PList' and items[0].oid == 'params':
        st.objs.setdefault('the-stack', {})['depth'] = vint(1)
        st.objs['the-stack']['top'] = items[0]
        return V('ref', cls='PStack', oid='the-stack')
    return None


def pd_getitem(eng, obj, idx, st, node):
    if obj.k == 'ref' and obj.cls == 'PStack' and idx.k == 'int' and z3.is_int_value(z3.simplify(idx.z)) \
            and z3.simplify(idx.z).as_long() == -1:
        top = st.objs.get('the-stack', {}).get('top')
        return [(st, top if top is not None else V('ref', cls='PList', oid='top-at-head'))]
    return None


def pd_len(eng, v, st, node):
    if v.k == 'ref' and v.cls == 'PStack':
        d = st.objs.get('the-stack', {}).get('depth') or vint(z3.Int(DEPTH))
        return [(st, d)]
    return None


def pd_contains(eng, container, item, st, node):
    if container.k == 'str' and container.py and item.k == 'any':
        return z3.And(VV.tag_of(item.z) == TAGS['str'], z3.Or(*[eng.str_is(ch)(item.z) for ch in container.py]))
    return None


def pd_remember(eng, st):
    st.ghost = dict(st.ghost)
    st.ghost['index_at_head'] = st.env['index'].z
    st.objs.setdefault('the-stack', {})['depth'] = vint(z3.Int('depth@head!%d' % next(eng.counter)))
    st.objs['the-stack']['top'] = V('ref', cls='PList', oid='top-at-head')
    st.ghost['depth_at_head'] = st.objs['the-stack']['depth'].z
    st.pc.append(st.ghost['depth_at_head'] >= 1)


def pd_since(trace):
    idx = -1
    for i, e in enumerate(trace):
        if e[0] == 'loop-head':
            idx = i
    return trace[idx + 1:] if idx >= 0 else []


def pd_pass(c, L):
    eng = c._eng
    depth = c.st.objs.get('the-stack', {}).get('depth')
    if depth is None:
        return z3.BoolVal(False)
    base = z3.And(L.index >= 0, depth.z >= 1)
    if L.phase != 'after':
        return base
    ev = [e for e in pd_since(c.trace) if e[0] in ('get', 'append', 'push', 'pop', 'new-plist')]
    k = L.i - 1
    lo = c.st.ghost.get('tag_lo')
    ch = TCH(k + (lo if lo is not None else 0))
    i0, d0 = c.st.ghost['index_at_head'], c.st.ghost['depth_at_head']

    def is_(t):
        return z3.And(VV.tag_of(ch) == TAGS['str'], eng.str_is(t)(ch))
    kinds = [e[0] for e in ev]
    top_head = lambda v: v.k == 'ref' and v.oid == 'top-at-head'
    if kinds == ['get', 'append']:
        g, a = ev
        tags = [t for t, n in GETTERS.items() if n == g[1]]
        ok = len(tags) == 1 and g[2].k == 'bytes' and g[3].k == 'int' and top_head(a[1]) and a[2] is g[4]
        if not ok:
            return z3.BoolVal(False)
        return z3.And(base, is_(tags[0]), g[3].z == i0, L.index == g[5].z, depth.z == d0)    # right decoder, at the current position
    if kinds == ['append']:
        a = ev[0]
        if not top_head(a[1]) or a[2].k != 'bool':
            return z3.BoolVal(False)
        return z3.And(base, z3.If(a[2].z, is_('T'), is_('F')), L.index == i0, depth.z == d0)
    if kinds == ['new-plist', 'append', 'push']:
        n, a, p = ev
        ok = top_head(a[1]) and a[2] is n[1] and p[1] is n[1]
        return z3.And(base, z3.BoolVal(bool(ok)), is_('['), L.index == i0, depth.z == d0 + 1)
    if kinds == ['pop']:
        return z3.And(base, is_(']'), d0 >= 2, L.index == i0, depth.z == d0 - 1)
    if kinds == []:
        known = z3.Or(*[is_(t) for t in list(GETTERS) + ['T', 'F', '[', ']']])
        return z3.And(base, z3.Not(known), L.index == i0, depth.z == d0)                   # an unknown tag: skipped
    return z3.BoolVal(False)


def pd_over(c, sq, k, elem):
    lo = sq.extra.get('tag_string')
    so = sq.extra.get('slice_of')
    if lo is None and so is not None and 'tag_string' in so[0]:
        lo = so[1]
    if lo is None or elem.k != 'any':
        return z3.BoolVal(False), z3.BoolVal(False)
    c.st.ghost = dict(c.st.ghost)
    c.st.ghost['tag_lo'] = lo
    comma = z3.And(NTAGS >= 1, VV.tag_of(TCH(0)) == TAGS['str'], c._eng.str_is(',')(TCH(0)))
    return (z3.And(lo == z3.If(comma, 1, 0), sq.extra['len'] == z3.If(NTAGS - lo > 0, NTAGS - lo, 0)),
            elem.z == TCH(k + lo))                                                          # every tag after the leading comma


def pd_post(c):
    gets = [e for e in c.trace if e[0] == 'get']
    heads = [e for e in c.trace if e[0] == 'loop-head']
    me = c.post.self
    ok_addr = (gets and gets[0][1] == 'get_string' and gets[0][3].k == 'int'
               and me.v('_address_regexp').k == 'obj' and me.v('_address_regexp').oid == 'the-address')
    if not ok_addr:
        return z3.BoolVal(False)
    cl = [gets[0][3].z == 0]                                                               # the address is read at 0
    if not heads:
        return z3.And(*cl, z3.BoolVal(len(gets) == 1))                                     # nothing after the address
    second = gets[1] if len(gets) > 1 else None
    if second is None or second[1] != 'get_string' or second[3].k != 'int':
        return z3.BoolVal(False)
    depth = c.st.objs.get('the-stack', {}).get('depth')
    pv = me.v('_parameters')
    cl += [second[3].z == gets[0][5].z,                                                    # the tag string where the address ended
           depth.z == 1,                                                                    # every opened list was closed
           z3.BoolVal(pv.k == 'ref' and pv.oid == 'params')]                                # the outermost list
    return z3.And(*cl)


PD_POL = {n: pd_getter(n) for n in set(GETTERS.values())}
contract(F, 'OscMessage._parse_datagram', props=('C06', 'C18'), params={'self': 'self'},
         raises={'OscMessageParseError': None},
         ensures=[('address-at-0,tag-string-after-it,every-open-list-closed,parameters=the-outermost-list', pd_post)],
         loops={0: Loop(inv=pd_pass, over=pd_over, kinds={'index': 'int', 'val': (lambda e, n: V('obj', oid='havoc')),
                                                          'param': 'any', 'array': (lambda e, n: V('obj', oid='havoc'))},
                        havoc_hook=pd_remember)},
         fields={'OscMessage': {'_dgram': 'bytes', '_address_regexp': 'obj', '_parameters': 'obj'}, 'PList': {}, 'PStack': {}},
         class_modules={'OscMessage': F, 'PList': F, 'PStack': F},
         hooks={'getattr': pd_getattr, 'new_list': pd_new_list, 'getitem': pd_getitem, 'len': pd_len,
                'contains': pd_contains},
         policies=PD_POL, native=False,
         note='the type tag string is a sequence of abstract characters; the decoders get_* are ghost calls that return '
              '(value, next position) or refuse (their index laws: above); the list stack is a ghost depth + top')
