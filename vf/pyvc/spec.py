"""Sidecar contracts for pyvc.

A contract is keyed by repository file + qualified function name. Clauses are
Python lambdas over a context object ``c`` and build z3 terms:

    c.<param>            entry value of a parameter (z3 term for numbers,
                         ObjView for object references, V otherwise)
    c.pre.<param>.<f>    field value in the pre-state
    c.post.<param>.<f>   field value in the post-state
    c.result             returned value (z3 term / ObjView / V)
    c.exc                raised exception value (on exceptional exit)
    c.trace              ghost trace (list of event tuples) of the path
    c.exists_int(f)      witness-instantiated integer existential
"""
import ast
import itertools

import z3

from .values import *
from . import values as VV
from .engine import Unsupported, Raised, Module, St

REGISTRY = {}


class ObjView:
    def __init__(self, eng, objs, ref):
        object.__setattr__(self, '_eng', eng)
        object.__setattr__(self, '_objs', objs)
        object.__setattr__(self, '_ref', ref)

    def __getattr__(self, name):
        eng, objs, ref = self._eng, self._objs, self._ref
        oid = ref.oid if ref.k == 'ref' else 'cls:' + ref.py
        cls = ref.cls if ref.k == 'ref' else ref.py
        f = objs.get(oid, {})
        if name in f:
            return unwrap(eng, objs, f[name])
        v = eng.field_sym(oid, cls, name, None)
        return unwrap(eng, objs, v)

    def v(self, name):
        """raw V of a field"""
        eng, objs, ref = self._eng, self._objs, self._ref
        oid = ref.oid if ref.k == 'ref' else 'cls:' + ref.py
        cls = ref.cls if ref.k == 'ref' else ref.py
        f = objs.get(oid, {})
        if name in f:
            return f[name]
        return eng.field_sym(oid, cls, name, None)


def unwrap(eng, objs, v):
    if isinstance(v, V):
        if v.k in ('int', 'real', 'bool'):
            return v.z
        if v.k in ('ref',):
            return ObjView(eng, objs, v)
        if v.k == 'class' and eng.contract.fields.get(v.py):
            return ObjView(eng, objs, v)
    return v


class NS:
    def __init__(self, eng, objs, params):
        self._eng, self._objs, self._params = eng, objs, params

    def __getattr__(self, name):
        if name in self._params:
            return unwrap(self._eng, self._objs, self._params[name])
        if name == 'main':
            return ObjView(self._eng, self._objs, V('ref', cls='Main', oid='main'))
        raise AttributeError(name)

    def cls(self, name):
        return ObjView(self._eng, self._objs, V('class', py=name))


class Ctx:
    def __init__(self, eng, params, pre_objs, post_objs, result=None, exc=None,
                 trace=None, concrete=False, st=None):
        self._eng = eng
        self._params = params
        self.pre = NS(eng, pre_objs, params)
        self.post = NS(eng, post_objs, params)
        self._result = result
        self.exc = exc
        self.trace = trace or []
        self._concrete = concrete
        self.witnesses = []
        self.st = st
        self.kinds = {k: (v.k if isinstance(v, V) else None) for k, v in params.items()}

    def __getattr__(self, name):
        p = self.__dict__.get('_params', {})
        if name in p:
            return unwrap(self._eng, self.pre._objs, p[name])
        raise AttributeError(name)

    @property
    def result(self):
        return unwrap(self._eng, self.post._objs, self._result)

    @property
    def resultv(self):
        return self._result

    def view(self, v):
        """post-state view of a value (element of a returned list, ...)"""
        return unwrap(self._eng, self.post._objs, v)

    def blen(self, v):
        """length of a bytes value as a z3 Int"""
        return self._eng.bytes_len(v)

    def u8len(self, v):
        """utf-8 length of a (symbolic) str value"""
        return v.extra['u8'] if v.py is None else z3.IntVal(len(v.py.encode('utf-8')))

    def is_none(self, v):
        return isinstance(v, V) and v.k == 'none'

    def exists_int(self, f, extra=(), exact=None):
        """∃k∈ℤ. f(k), discharged by instantiating k with integer terms that
        occur on the path (floor/div terms ±{0,1,2}). Must occur positively."""
        if self._concrete:
            k = z3.Int('wit!%d' % len(self.witnesses))
            self.witnesses.append(k)
            return f(k)
        if getattr(self, '_assume', False):
            # an assumed existential is skolemised; the skolem constant is a
            # witness candidate for later goals
            k = self._eng.fresh('sk', z3.IntSort())
            self._eng.floor_terms.append(k)
            self._eng.__dict__.setdefault('skolems', []).append(k)
            return f(k)
        cands = []
        seen = set()

        def add(t):
            t = z3.simplify(t)
            key = t.sexpr()
            if key not in seen:
                seen.add(key)
                cands.append(t)
        base = [z3.IntVal(0)] + list(self._eng.floor_terms) + list(extra)
        # integer division / floor terms occurring in the result and the path
        found = []

        def walk(t, depth=0):
            if depth > 40 or not z3.is_expr(t):
                return
            if z3.is_app(t):
                k = t.decl().kind()
                if k in (z3.Z3_OP_IDIV, z3.Z3_OP_TO_INT) :
                    found.append(t)
                for ch in t.children():
                    walk(ch, depth + 1)
        r = self._result
        if isinstance(r, V) and r.z is not None:
            walk(r.z)
            if r.ival is not None:
                walk(r.ival)
        if self.st is not None:
            for pcx in self.st.pc[-12:]:
                walk(pcx)
        base += found
        sk = self._eng.__dict__.get('skolems', [])[-4:]
        for i, a in enumerate(sk):
            for b2 in sk[i + 1:]:
                base += [a + b2, a - b2]
            for b2 in found[:4]:
                base += [a + b2, b2 - a]
        for b in base[:28]:
            for d in (0, 1, -1, 2, -2):
                add(b + d)
                add(-b + d)
        alts = [f(k) for k in cands]
        if exact is not None:
            # closed form of the existential (e.g. IsInt(r/q)): makes a
            # counter-model a genuine one; the instantiated disjuncts do the
            # proving
            alts.append(exact)
        return z3.Or(*alts)


class Loop:
    """Inductive loop contract. inv(c, L): z3 Bool over the context and the
    namespace L of local variables at the loop head (L.i = hidden index of a
    for-loop over a symbolic sequence; L.phase = 'entry' (proved when the loop is
    reached), 'head' (assumed at an arbitrary head) or 'after' (proved after one
    pass from that head)). variant(c, L): Int term."""

    def __init__(self, inv, variant=None, havoc_fields=(), kinds=None, note=None,
                 havoc_hook=None, early_exit=False, over=None):
        self.havoc_hook = havoc_hook
        # over(c, seq, k, elem) -> (length claim, claim about the k-th element iterated): WHAT the
        # for-loop iterates over, checked at an arbitrary index k (fresh constant) at loop entry
        self.over = over
        # the per-iteration obligations speak about the passes that happen; that the loop is not
        # left early (break / return from the body) is an obligation of its own unless the
        # contract says leaving early is part of the function (and then says what that means
        # in its postconditions); True, or only 'return' / only 'break'
        self.early_exit = early_exit
        self.defined_by_pass = ()
        self.inv = inv
        self.variant = variant
        self.havoc_fields = tuple(havoc_fields)
        self.kinds = kinds or {}
        self.note = note

    @staticmethod
    def first_pass(eng, st):
        """Dry run of the loop body on the first element from the state at loop entry (obligations discarded):
        the ghost traces of its outcomes.  For contracts that name roles by what the code does ("the list that
        receives the defaults") instead of by creation order or local names."""
        s, seqv = eng._loop_in_hand
        probe = st.fork()
        mark = len(eng.obls)
        n0 = len(probe.trace)
        traces = []
        try:
            item = seqv.extra['get'](eng, z3.IntVal(0), probe)
            for po in eng.assign(s.target, item, probe):
                if po[0] != 'next':
                    continue
                for bo in eng.exec_block(s.body, po[1]):
                    traces.append(bo[1].trace[n0:])
        except Exception:
            pass
        finally:
            del eng.obls[mark:]
        return traces

    @staticmethod
    def assigned_names(body):
        names = set()
        for n in ast.walk(ast.Module(body=list(body), type_ignores=[])):
            if isinstance(n, ast.Name) and isinstance(n.ctx, ast.Store):
                names.add(n.id)
        return names

    def locals_ns(self, eng, st, extra=None):
        class L:
            pass
        ns = L()
        for k, v in st.env.items():
            setattr(ns, k, unwrap(eng, st.objs, v))
        ns._raw = dict(st.env)
        for k, v in (extra or {}).items():
            setattr(ns, k, v)
        return ns

    def run(self, eng, s, st, ordinal):
        c0 = eng.make_ctx(st)
        fname = '%s::loop%d' % (eng.contract.key, ordinal)
        is_for = isinstance(s, ast.For)
        seqv = None
        outs = []
        if is_for:
            rs = eng.eval(s.iter, st)
            if len(rs) != 1 or isinstance(rs[0][1], Raised):
                raise Unsupported(s, 'for-iter forks')
            st, seqv = rs[0]
            if seqv.k == 'range' and seqv.items is None:
                a = seqv.extra['args']
                if not all(x.k == 'int' for x in a):
                    raise Unsupported(s, 'range over non-int arguments')
                start = a[0].z if len(a) > 1 else z3.IntVal(0)
                stop = a[1].z if len(a) > 1 else a[0].z
                step = a[2].z if len(a) > 2 else z3.IntVal(1)
                sv = z3.simplify(step)
                if not (z3.is_int_value(sv) and sv.as_long() > 0):
                    raise Unsupported(s, 'range step must be a positive constant')
                k = sv.as_long()
                n = z3.If(stop > start, (stop - start + (k - 1)) / k, 0)
                seqv = V('seq', extra={'len': n, 'get': (
                    lambda eng_, i, st_, _s=start, _k=k: vint(_s + i * _k))})
            if seqv.k == 'dyn':
                seqv = eng.as_seq(seqv, st)
            if seqv.k == 'obj' and eng.contract.hooks.get('iterate'):
                # a ghost container iterated directly (not a copy of it): the contract says what sequence that is
                r = eng.contract.hooks['iterate'](eng, seqv, st, s)
                if r is not None:
                    seqv = r
            if seqv.k not in ('seq',):
                raise Unsupported(s, 'invariant loop over %r' % (seqv,))
        idx_name = '__i%d' % ordinal
        if is_for:
            st.env[idx_name] = vint(0)
        if is_for and self.over is not None:
            if not seqv.extra.get('get'):
                raise Unsupported(s, 'loop over a sequence the contract gives no element function for')
            k = z3.Int('over.k!%d' % next(eng.counter))
            probe = st.fork()
            elem = seqv.extra['get'](eng, k, probe)
            eng._loop_in_hand = (s, seqv)          # (an `over` claim may look at what the first pass does: Loop.first_pass)
            claim = self.over(eng.make_ctx(st), seqv, k, elem)
            eng.oblige(st, 'loop%d.iterates-over' % ordinal, 'iterates-over',
                       z3.And(claim[0], z3.Implies(z3.And(k >= 0, k < seqv.extra['len'],
                                                          *probe.pc[len(st.pc):]), claim[1])), s)
        # 1. invariant at entry (a head marker first: an enclosing loop may have been through
        # this loop before on the same path, and 'events since the head' must not see that)
        st.trace.append(('loop-head', ordinal))
        L = self.locals_ns(eng, st, dict({'i': z3.IntVal(0)} if is_for else {}, phase='entry'))
        eng.oblige(st, 'loop%d.inv-entry' % ordinal, 'inv-entry', self.inv(eng.make_ctx(st), L), s)
        # 2.-4. havoc, assume, one arbitrary iteration.  A loop-assigned local that is None at
        # entry and has no declared kind is havoc'd over {None} + the scalar kinds the body is
        # seen to leave in it (found by dry runs whose obligations are discarded): one run of
        # the arbitrary iteration per combination.
        names = self.assigned_names(s.body) | ({idx_name} if is_for else set())
        if is_for:
            names |= self.assigned_names([ast.Assign(targets=[s.target], value=ast.Constant(0))])
        opt = [n for n in sorted(names) if self.kinds.get(n) is None and n != idx_name
               and st.env.get(n) is not None and st.env[n].k == 'none']
        alts = {n: ['none'] for n in opt}
        if opt:
            import itertools
            for _round in range(3):
                grew = False
                for combo in itertools.product(*[alts[n] for n in opt]):
                    ends = []
                    mark = len(eng.obls)
                    try:
                        self._once(eng, s, st, ordinal, is_for, seqv, idx_name, names,
                                   dict(zip(opt, combo)), ends)
                    finally:
                        del eng.obls[mark:]
                    for e in ends:
                        for n in opt:
                            v = e.env.get(n)
                            if v is None or v.k in alts[n]:
                                continue
                            if v.k not in ('int', 'real', 'bool', 'none'):
                                raise Unsupported(s, 'loop-assigned local %s of kind %s needs a declared kind' % (n, v.k))
                            alts[n].append(v.k)
                            grew = True
                if not grew:
                    break
            combos = [dict(zip(opt, c)) for c in itertools.product(*[alts[n] for n in opt])]
        else:
            combos = [{}]
        carried = [n for n in opt if len(alts[n]) > 1]
        if not carried:
            for combo in combos:
                outs.extend(self._once(eng, s, st, ordinal, is_for, seqv, idx_name, names, combo, None))
            return outs
        # The body carries values in locals the contract knows nothing about (None at entry,
        # a number later).  (a) Inductive step over every kind combination of them: a proof if
        # it goes through; if not, the invariant simply does not speak about them, so these
        # obligations get a name of their own (never among the required ones: undecided, not a
        # violation).  (b) The first iterations from the loop entry with these locals carried
        # exactly like every other local (object fields havoc'd under the invariant at each head,
        # i.e. any environment): an obligation failing there fails on an execution of 1..3 iterations.
        tag = '[carried:%s]' % ','.join(carried)
        for combo in combos:
            outs.extend(self._once(eng, s, st, ordinal, is_for, seqv, idx_name, names, combo, None,
                                   suffix=tag))
        level = [st]
        for _depth in range(3):
            nxt = []
            for st_k in level[:8]:
                mark = len(eng.obls)
                try:
                    self._once(eng, s, st_k, ordinal, is_for, seqv, idx_name, names, {}, nxt,
                               keep=set(names))
                except Unsupported:
                    # best-effort refutation only: a later iteration outside the subset ends
                    # the chain, what the earlier ones showed stands
                    del eng.obls[mark:]
            level = nxt
        return outs

    def _once(self, eng, s, st, ordinal, is_for, seqv, idx_name, names, optkinds, ends,
              suffix='', keep=()):
        prev = getattr(eng, 'name_suffix', '')
        eng.name_suffix = prev + suffix
        try:
            return self._once1(eng, s, st, ordinal, is_for, seqv, idx_name, names, optkinds, ends, keep)
        finally:
            eng.name_suffix = prev

    def _once1(self, eng, s, st, ordinal, is_for, seqv, idx_name, names, optkinds, ends, keep):
        outs = []
        st = st.fork()
        for n in sorted(names):
            if n in keep:
                continue
            kind = self.kinds.get(n) or optkinds.get(n)
            cur = st.env.get(n)
            if cur is None and n != idx_name and n not in self.defined_by_pass:
                # not bound when the loop is reached: it stays unbound until the body binds it (a read
                # before that is the body's own error), a declared kind does not conjure a value
                continue
            if kind is None:
                if cur is None:
                    continue
                if cur.k in ('int', 'real', 'bool', 'any', 'bytes'):
                    kind = cur.k
                else:
                    if n == idx_name:
                        kind = 'int'
                    else:
                        # structured locals assigned in the body must be declared
                        raise Unsupported(s, 'loop-assigned local %s of kind %s needs a declared kind' % (n, cur.k))
            if callable(kind) and not isinstance(kind, str):
                st.env[n] = kind(eng, '%s@loop%d!%d' % (n, ordinal, next(eng.counter)))
            else:
                st.env[n] = eng.sym_of_kind(kind, '%s@loop%d!%d' % (n, ordinal, next(eng.counter)))
            if st.env[n].extra and 'facts' in st.env[n].extra:
                st.pc.extend(st.env[n].extra['facts'])
        for (objname, field) in self.havoc_fields:
            ref = st.env.get(objname)
            if objname == 'main':
                ref = V('ref', cls='Main', oid='main')
            elif objname.startswith('cls:'):
                ref = V('class', py=objname[4:])
            oid = ref.oid if ref.k == 'ref' else 'cls:' + ref.py
            cls = ref.cls if ref.k == 'ref' else ref.py
            kind = eng.contract.field_kind(cls, field)
            st.objs.setdefault(oid, {})[field] = eng.sym_of_kind(
                kind, '%s.%s@loop%d!%d' % (oid, field, ordinal, next(eng.counter)))
        if self.havoc_hook:
            self.havoc_hook(eng, st)
        st.trace.append(('loop-head', ordinal))
        # 3. assume invariant
        iz = st.env[idx_name].z if is_for else None
        if is_for:
            st.pc.append(z3.And(iz >= 0, iz <= seqv.extra['len']))
        L = self.locals_ns(eng, st, dict({'i': iz} if is_for else {}, phase='head'))
        st.pc.append(self.inv(eng.make_ctx(st), L))
        var0 = self.variant(eng.make_ctx(st), L) if self.variant else None
        # 4. test
        if is_for:
            tests = [(st, vbool(iz < seqv.extra['len']))]
        else:
            tests = eng.eval(s.test, st)
        for st1, tv in tests:
            if isinstance(tv, Raised):
                outs.append(('raise', st1, tv.exc))
                continue
            for st2, side in eng.branch(st1, eng.truth(tv, s), s):
                if not side:
                    if is_for:
                        st2.pc.append(iz == seqv.extra['len'])
                    if s.orelse:
                        outs.extend(eng.exec_block(s.orelse, st2))
                    else:
                        outs.append(('next', st2))
                    continue
                if is_for:
                    if not seqv.extra.get('get'):
                        raise Unsupported(s, 'loop over a sequence the contract gives no element function for')
                    item = seqv.extra['get'](eng, iz, st2)
                    pre = eng.assign(s.target, item, st2)
                    st2.env[idx_name] = vint(iz + 1)
                else:
                    pre = [('next', st2)]
                for po in pre:
                    if po[0] != 'next':
                        outs.append(po)
                        continue
                    # a return/raise that leaves the function from inside this body keeps the mark: postconditions
                    # can tell "returned from inside loop N" from "returned after it" without naming a local
                    po[1].ghost = dict(po[1].ghost)
                    po[1].ghost['in_loops'] = tuple(po[1].ghost.get('in_loops', ())) + (ordinal,)
                    for bo in eng.exec_block(s.body, po[1]):
                        if bo[0] in ('next', 'cont', 'break'):
                            bo[1].ghost = dict(bo[1].ghost)
                            bo[1].ghost['in_loops'] = tuple(x for x in bo[1].ghost.get('in_loops', ()) if x != ordinal)
                        if bo[0] in ('next', 'cont'):
                            st3 = bo[1]
                            if ends is not None:
                                ends.append(st3)
                            L3 = self.locals_ns(eng, st3, dict({'i': st3.env[idx_name].z} if is_for else {}, phase='after'))
                            # the invariant is asked AFTER a pass: the trace it sees ends with a marker,
                            # so that "no event since the head" (a pass that did nothing) cannot be taken
                            # for "at the head" (nothing to say yet)
                            ctx3 = eng.make_ctx(st3)
                            ctx3.trace = list(st3.trace) + [('pass-end', ordinal)]
                            eng.oblige(st3, 'loop%d.inv-preserved' % ordinal, 'inv-preserved',
                                       self.inv(ctx3, L3), s)
                            if self.variant:
                                v1 = self.variant(eng.make_ctx(st3), L3)
                                eng.oblige(st3, 'loop%d.variant' % ordinal, 'variant',
                                           z3.And(var0 >= 0, v1 < var0), s)
                        elif bo[0] == 'break':
                            if self.early_exit not in (True, 'break'):
                                eng.oblige(bo[1], 'loop%d.not-left-early' % ordinal, 'not-left-early',
                                           z3.BoolVal(False), s)
                            outs.append(('next', bo[1]))
                        else:
                            if bo[0] == 'ret' and self.early_exit not in (True, 'return'):
                                eng.oblige(bo[1], 'loop%d.not-left-early' % ordinal, 'not-left-early',
                                           z3.BoolVal(False), s)
                            outs.append(bo)
        return outs


class Contract:
    def __init__(self, file, qual, props, params, requires=None, ensures=(),
                 raises=None, on_raise=(), returns=None, fields=None,
                 modifies=None, inline=(), opaque=(), policies=None, loops=None,
                 hooks=None, axioms=(), opts=None, inline_default=False,
                 class_modules=None, note=None, trusted=(), replay=None,
                 opaque_kinds=None, on_any_exit=(), max_cases=64, setup=None,
                 native=None, allow_unexpected=()):
        self.file = file
        self.qual = qual
        self.key = '%s::%s' % (file, qual)
        self.props = tuple(props) if not isinstance(props, str) else (props,)
        self.params = params            # ordered dict name -> kind
        self.requires = requires
        self.ensures = list(ensures)    # [(name, lambda c)]
        self.raises = raises or {}      # exc class -> lambda c (iff condition on pre-state) | None (may raise, unconditioned)
        self.on_raise = list(on_raise)  # [(name, lambda c)] must hold on every exceptional exit
        self.on_any_exit = list(on_any_exit)
        self.returns = returns
        self.fields = fields or {}
        self.modifies = modifies
        self.inline = set(inline)
        self.opaque = set(opaque)
        self.policies = policies or {}
        self.loops = loops or {}
        self.hooks = hooks or {}
        self.axioms = list(axioms)
        self.opts = opts or {}
        self.inline_default = inline_default
        self.class_modules = class_modules or {}
        self.note = note
        self.trusted = list(trusted)
        self.replay = replay
        self.opaque_kinds = opaque_kinds or {}
        self.max_cases = max_cases
        self.setup = setup
        self.native = native
        self.allow_unexpected = tuple(allow_unexpected)
        REGISTRY[self.key] = self

    # -- helpers used by the engine ---------------------------------------
    def axioms_z3(self):
        out = []
        for a in self.axioms:
            r = a() if callable(a) else a
            out.extend(r if isinstance(r, (list, tuple)) else [r])
        return out

    def field_kind(self, cls, name):
        f = self.fields.get(cls)
        if f and name in f:
            return f[name]
        return None

    def callee_policy(self, qual):
        short = qual.split('::')[1]
        for k in (qual, short):
            if k in self.policies:
                return self.policies[k]
            if k in self.inline:
                return 'inline'
            if k in self.opaque:
                return 'opaque'
        return None

    def cases(self):
        alts = []
        names = list(self.params)
        for n in names:
            k = self.params[n]
            if k == 'num':
                alts.append(['int', 'real'])
            elif isinstance(k, (list, tuple)):
                alts.append(list(k))
            else:
                alts.append([k])
        out = []
        for combo in itertools.product(*alts):
            out.append(dict(zip(names, combo)))
        return out[:self.max_cases]

    @staticmethod
    def case_name(case):
        def nm(k):
            return k if isinstance(k, str) else getattr(k, '__name__', 'custom')
        return ','.join('%s=%s' % (n, nm(k)) for n, k in case.items()) or '-'

    # -- modular use at a call site ------------------------------------------
    def apply_at_call(self, eng, selfv, args, kwargs, st, node):
        mod = Module.get(eng.repo, self.file)
        fdef, clsname = mod.find(self.qual)
        bound = eng.bind_params(fdef, selfv, args, kwargs, st, node, mod, clsname)
        if isinstance(bound, Raised):
            return [(st, bound)]
        pre_objs = {k: dict(v) for k, v in st.objs.items()}
        saved = eng.contract
        c = Ctx(eng, bound, pre_objs, pre_objs, st=st)
        short = self.qual
        # the callee's contract talks about ITS declared fields
        merged = _MergedFields(eng.contract, self)
        eng.contract = merged
        try:
            if self.requires is not None:
                eng.oblige(st, 'call-pre[%s]' % short, 'call-pre', self.requires(c), node)
            outs = []
            # exceptional outcomes (iff conditions on the pre-state)
            cur = [(st, True)]
            norm = st
            conds = []
            for ecls, cond in self.raises.items():
                if cond is None:
                    continue
                cz = cond(c)
                conds.append(cz)
                for st1, side in eng.branch(norm.fork(), cz, node):
                    if side:
                        outs.append((st1, Raised(eng.make_exc(ecls, node=node))))
            if conds:
                allc = z3.Or(*conds) if len(conds) > 1 else conds[0]
                if not eng.feasible(norm, z3.Not(allc)):
                    return outs
                norm.pc.append(z3.Not(allc))
            # havoc what the callee may modify
            for (pname, field) in (self.modifies or []):
                ref = bound.get(pname) if pname != 'main' else V('ref', cls='Main', oid='main')
                if ref is None:
                    continue
                if ref.k == 'class' or pname.startswith('cls:'):
                    oid = 'cls:' + (ref.py if ref.k == 'class' else pname[4:])
                    cls = oid[4:]
                else:
                    oid, cls = ref.oid, ref.cls
                kind = self.field_kind(cls, field)
                norm.objs.setdefault(oid, {})[field] = eng.sym_of_kind(
                    kind, '%s.%s@%s!%d' % (oid, field, short, next(eng.counter)))
            rk = self.returns
            if callable(rk):
                rk = rk({k: (v.k if isinstance(v, V) else None) for k, v in bound.items()})
            if rk is None:
                rk = 'none'
            res = eng.sym_of_kind(rk, 'ret_%s!%d' % (short, next(eng.counter))) if rk != 'none' else NONE
            c2 = Ctx(eng, bound, pre_objs, norm.objs, result=res, st=norm)
            c2._assume = True
            for name, cl in self.ensures:
                norm.pc.append(cl(c2))
            outs.append((norm, res))
            return outs
        finally:
            eng.contract = saved


class _MergedFields:
    """view of the caller's contract that also knows the callee's fields"""

    def __init__(self, caller, callee):
        self._a, self._b = caller, callee

    def __getattr__(self, name):
        return getattr(self._a, name)

    def field_kind(self, cls, name):
        r = self._a.field_kind(cls, name)
        if r is None:
            r = self._b.field_kind(cls, name)
        return r

    @property
    def fields(self):
        d = dict(self._b.fields)
        d.update(self._a.fields)
        return d


LEMMAS = {}


def lemma(name, props, vcs, over=(), note=None):
    """A lemma over contracts (not over code): vcs = [(vcname, thunk)] where
    thunk() returns (assumptions, goal) as z3 terms; discharged by showing
    assumptions ∧ ¬goal unsat. `over` names the contracts whose postconditions
    the assumptions restate."""
    LEMMAS[name] = {'name': name, 'props': tuple(props), 'vcs': vcs,
                    'over': tuple(over), 'note': note}


TABLES = {}


def table(name, props, rows, note=None, reads=()):
    """Exhaustive obligations over a closed finite domain. rows(repo) returns
    [(obligation-name, ok: bool, detail)], computed from the repository's
    current source (AST or import of the real module). Complete by enumeration:
    backend 'eval(finite, exhaustive)'."""
    TABLES[name] = {'name': name, 'props': tuple(props), 'rows': rows,
                    'note': note, 'reads': tuple(reads)}


def contract(file, qual, **kw):
    return Contract(file, qual, **kw)
