"""C15 -- operators lift uniformly over functions, streams, patterns, lists,
operands; the numeric operators satisfy their range and inverse laws.

Sub-checks (``--only a,b``):

range      wrap / fold land inside their bounds, clip is idempotent and in
           bounds (int and float arguments in any combination, lo < hi)
quant      round / roundup / trunc(x, q), q > 0: multiples of q on the
           correct side
mod        mod(a, b), b > 0: 0 <= r < b and r congruent to a
inverse    midicps/cpsmidi, midiratio/ratiomidi, octcps/cpsoct, dbamp/ampdb
dispatch   every operator method of AbstractObject hands the numeric operator
           its name stands for to the composition hook
lift       every operator method of AbstractObject x operand kind x form:
           evaluating the composed object == the numeric operator applied to
           the evaluated operands
forward    every scbuiltin function of sc3.base.builtins applied to an
           operand kind (left or right) == the function applied to the values
listalg    utils.list_unop / list_binop / list_narop on nested lists and
           tuples: element-wise with wrap-around

    /venv/bin/python -m vf.drivers.C15 --tier quick --seed 0 --out f.json
"""
import builtins as _pyb
import inspect
import math
import operator
import random

from vf.common import Report, driver_main, wants, silence_sc3_logging


# ---------------------------------------------------------------------------
# generic helpers
# ---------------------------------------------------------------------------

def isnum(x):
    return isinstance(x, (int, float))      # bool included on purpose


def isreal(x):
    return isnum(x) and not (isinstance(x, float) and math.isnan(x))


def same(a, b, rel=1e-12):
    """Exact for ints/bools, relative for floats; containers recursively."""
    if isinstance(a, list) and isinstance(b, list):
        return len(a) == len(b) and all(same(x, y, rel) for x, y in zip(a, b))
    if isinstance(a, list) or isinstance(b, list):
        return False
    if not (isnum(a) and isnum(b)):
        return False
    if isinstance(a, float) or isinstance(b, float):
        if a == b:
            return True
        if math.isinf(a) or math.isinf(b):
            return False
        return abs(a - b) <= rel * max(abs(a), abs(b))
    return a == b


def has_nan(x):
    if isinstance(x, list):
        return any(has_nan(i) for i in x)
    return isinstance(x, float) and math.isnan(x)


class ConstRandom(random.Random):
    """Deterministic stand-in for the library random generator, so that the
    random operators (rand, rrand, coin...) are functions of their operands."""

    def random(self):
        return 0.5


_STATE = {}


def setup():
    if _STATE:
        return _STATE
    silence_sc3_logging()
    import sc3
    sc3.init('nrt')
    from sc3.base import main as _libsc3
    _libsc3.main._m_rgen = ConstRandom()
    from sc3.base import builtins as bi
    from sc3.base import absobject, functions, stream, operand, utils
    from sc3.seq import pattern as ptt
    from sc3.seq.patterns import listpatterns as lsp
    from sc3.seq import event as evt
    from sc3.synth import ugen

    class MyOperand(operand.Operand):
        pass

    @ptt.pattern
    def pcol(col):
        for v in col:
            yield v

    _STATE.update(bi=bi, aob=absobject, fn=functions, stm=stream,
                  opd=operand, utl=utils, ptt=ptt, lsp=lsp, evt=evt,
                  ugn=ugen, MyOperand=MyOperand, pcol=pcol)
    return _STATE


# ---------------------------------------------------------------------------
# (a) numeric laws
# ---------------------------------------------------------------------------

def _fl(x):
    return isinstance(x, float)


def law_range(fn, x, lo, hi):
    """-> (ok, observed, expected-text) for fn in wrap/fold/clip."""
    bi = setup()['bi']
    try:
        r = getattr(bi, fn)(x, lo, hi)
    except Exception as e:
        return False, 'raises %s: %s' % (type(e).__name__, e), 'a number'
    if not isreal(r):
        return False, r, 'a number'
    exact = all(_dyadic(v) for v in (x, lo, hi))
    eps = 0.0 if exact else 1e-9 * max(1.0, abs(x), abs(lo), abs(hi))
    if fn == 'wrap' and _fl(x) and exact:
        ok = lo <= r < hi
        exp = '%r <= r < %r' % (lo, hi)
    else:
        ok = lo - eps <= r <= hi + eps
        exp = '%r <= r <= %r' % (lo, hi)
    if fn == 'clip':
        # the statement demands idempotence of clip, not more (the C kernel
        # casts the bounds to the receiver's type)
        ok = True
        exp = 'clip(clip(x)) == clip(x)'
        try:
            r2 = bi.clip(r, lo, hi)
        except Exception as e:
            return False, 'clip(%r) raises %s' % (r, e), 'idempotent'
        if not (isreal(r2) and r2 == r):
            return False, [r, r2], 'clip(clip(x)) == clip(x)'
    return ok, r, exp


def _dyadic(v):
    """Small multiples of 1/8: arithmetic on them is exact in binary64."""
    return isinstance(v, int) and abs(v) < 2 ** 20 or (
        isinstance(v, float) and abs(v) < 2 ** 20 and v * 8 == int(v * 8))


def range_key(fn, x, lo, hi):
    if type(x) is int and (_fl(lo) or _fl(hi)):
        if fn == 'clip':
            return 'C15.range:clip-int-receiver-float-bounds'
        return 'C15.range:wrap-fold-int-receiver-float-bounds'
    return 'C15.range:%s' % fn


def law_quant(fn, x, q):
    bi = setup()['bi']
    try:
        r = getattr(bi, fn)(x, q)
    except Exception as e:
        return False, 'raises %s: %s' % (type(e).__name__, e), 'a number'
    if not isreal(r):
        return False, r, 'a number'
    tol = 1e-9 * max(1.0, abs(x))
    k = math.floor(r / q + 0.5)
    if abs(r - k * q) > tol:
        return False, r, 'an integer multiple of %r' % (q,)
    allint = type(x) is int and type(q) is int
    eps = 0.0 if allint else 1e-9 * max(1.0, abs(x), abs(q))
    if fn == 'round':
        return abs(r - x) <= q / 2 + eps, r, '|r - x| <= q/2'
    if fn == 'roundup':
        return (x - eps <= r) and (r < x + q + eps if eps
                                   else r < x + q), r, 'x <= r < x + q'
    return (r <= x + eps) and (x - q - eps < r if eps
                               else x - q < r), r, 'x - q < r <= x'


def quant_key(fn, x, q):
    if type(x) is int and _fl(q):
        return 'C15.quant:int-receiver-float-quantum'
    return 'C15.quant:%s' % fn


def law_mod(a, b):
    bi = setup()['bi']
    try:
        r = bi.mod(a, b)
    except Exception as e:
        return False, 'raises %s: %s' % (type(e).__name__, e), 'a number'
    if not isreal(r):
        return False, r, 'a number'
    if type(a) is int and type(b) is int:
        ok = 0 <= r < b and (a - r) % b == 0
        return ok, r, '0 <= r < b and b | a - r'
    exact = _dyadic(a) and _dyadic(b)
    if exact:
        inb = 0 <= r < b
    else:
        inb = 0 <= r <= b           # r == b can only come from rounding
    kq = (a - r) / b
    cong = abs(kq - math.floor(kq + 0.5)) <= 1e-9 * max(1.0, abs(kq))
    return inb and cong, r, '0 <= r < b and (a - r)/b an integer'


INVERSES = [
    # (f, g, key name, domain of x for g(f(x)), domain of y for f(g(y)))
    ('cpsmidi', 'midicps', 'cpsmidi', 'freq', 'midi'),
    ('ratiomidi', 'midiratio', 'ratiomidi', 'ratio', 'midi'),
    ('cpsoct', 'octcps', 'cpsoct', 'freq', 'oct'),
    ('ampdb', 'dbamp', 'ampdb', 'amp', 'db'),
]


def law_inverse(inner, outer, x):
    bi = setup()['bi']
    try:
        r = getattr(bi, outer)(getattr(bi, inner)(x))
    except Exception as e:
        return False, 'raises %s: %s' % (type(e).__name__, e)
    ok = isreal(r) and abs(r - x) <= 1e-9 * max(1.0, abs(x))
    return ok, r


def _domains(tier, rng):
    n = 3000 if tier == 'quick' else 60000
    d = {}
    d['midi'] = ([i for i in range(-24, 141)] +
                 [i / 2.0 for i in range(-48, 281)] +
                 [rng.uniform(-24, 140) for _ in range(n)])
    d['freq'] = ([i for i in range(1, 200)] + [440, 440.0, 261.6255653006,
                 8.1757989156, 0.01, 0.5, 20000.0, 22050] +
                 [math.exp(rng.uniform(math.log(0.01), math.log(20000)))
                  for _ in range(n)])
    d['ratio'] = ([1, 2, 3, 4, 0.5, 0.25, 1.5, 1.0, 2.0, 0.01, 100] +
                  [math.exp(rng.uniform(-4.6, 4.6)) for _ in range(n)])
    d['oct'] = ([i for i in range(-2, 13)] + [i / 4.0 for i in range(-8, 49)]
                + [4.75, rng.uniform(-2, 12)] +
                [rng.uniform(-2, 12) for _ in range(n)])
    d['amp'] = ([1, 2, 10, 1.0, 0.5, 0.1, 0.001, 1e-6, 100.0] +
                [math.exp(rng.uniform(-13, 4.6)) for _ in range(n)])
    d['db'] = ([i for i in range(-120, 41)] + [-0.5, 6.0, -6.0, 0.0] +
               [rng.uniform(-120, 40) for _ in range(n)])
    return d


def run_numeric(rep):
    rng = rep.rng
    quick = rep.tier == 'quick'
    ints = list(range(-9, 10))
    flts = [k / 4.0 for k in range(-36, 37)]
    xs = ints + flts
    bounds = list(range(-5, 6)) + [k / 2.0 for k in range(-10, 11)]

    if wants(rep, 'range'):
        n = 0
        seen = set()
        fails = {}
        cases = []
        for lo in bounds:
            for hi in bounds:
                if lo < hi:
                    for x in xs:
                        cases.append((x, lo, hi))
        nr = 100000 if quick else 1500000
        for _ in range(nr):
            def val():
                c = rng.random()
                if c < 0.3:
                    return rng.randrange(-50, 51)
                if c < 0.5:
                    return rng.randrange(-400, 401) / 8.0
                return rng.uniform(-100, 100)
            lo, hi = val(), val()
            if lo == hi:
                continue
            if lo > hi:
                lo, hi = hi, lo
            cases.append((val(), lo, hi))
        for fn in ('wrap', 'fold', 'clip'):
            for (x, lo, hi) in cases:
                n += 1
                seen.add((fn, type(x), type(lo), type(hi), x, lo, hi))
                ok, obs, exp = law_range(fn, x, lo, hi)
                if not ok:
                    key = range_key(fn, x, lo, hi)
                    fails.setdefault((key, fn), []).append(
                        (abs(x) + abs(lo) + abs(hi) + len(repr((x, lo, hi))),
                         fn, x, lo, hi, obs, exp))
        _emit_numeric(rep, fails, 'C15.range',
                      lambda fn, a: '%s(%s) = %%r, expected %%s' % (
                          fn, ', '.join(repr(v) for v in a)), 'range')
        rep.bounded(
            name='range', function='sc3.base.builtins.wrap/fold/clip',
            bound='x in ints -9..9 and k/4 in [-9, 9]; lo < hi from ints '
                  '-5..5 and k/2 in [-5, 5] (all int/float combinations); '
                  '%d seeded random triples in [-100, 100]' % nr,
            evaluations=n, distinct_nontrivial=len(seen),
            rule='wrap: lo<=r<=hi, and r<hi for a float receiver (exact on '
                 'the dyadic grid, 1e-9 slack on random floats); fold: '
                 'lo<=r<=hi; clip: lo<=r<=hi and clip(r)==r',
            samples=[cases[0], cases[len(cases) // 3], cases[-1]])

    if wants(rep, 'quant'):
        n = 0
        seen = set()
        fails = {}
        qs = [1, 2, 3, 5, 7, 0.25, 0.5, 1.0, 1.5, 2.5, 0.125, 3.0, 10]
        cases = [(x, q) for q in qs for x in
                 (list(range(-25, 26)) + [k / 8.0 for k in range(-80, 81)])]
        nr = 100000 if quick else 1500000
        for _ in range(nr):
            c = rng.random()
            x = (rng.randrange(-1000, 1001) if c < 0.4
                 else rng.uniform(-1000, 1000))
            c = rng.random()
            q = (rng.randrange(1, 50) if c < 0.4 else
                 rng.randrange(1, 200) / 8.0 if c < 0.6 else
                 rng.uniform(0.01, 50))
            cases.append((x, q))
        for fn in ('round', 'roundup', 'trunc'):
            for (x, q) in cases:
                n += 1
                seen.add((fn, type(x), type(q), x, q))
                ok, obs, exp = law_quant(fn, x, q)
                if not ok:
                    key = quant_key(fn, x, q)
                    fails.setdefault((key, fn), []).append(
                        (abs(x) + abs(q) + len(repr((x, q))),
                         fn, x, q, obs, exp))
        _emit_numeric(rep, fails, 'C15.quant',
                      lambda fn, a: '%s(%s) = %%r, expected %%s' % (
                          fn, ', '.join(repr(v) for v in a)), 'quant')
        rep.bounded(
            name='quant', function='sc3.base.builtins.round/roundup/trunc',
            bound='x in ints -25..25 and k/8 in [-10, 10], q in %r; %d '
                  'seeded random pairs, |x| <= 1000, 0 < q <= 50' % (qs, nr),
            evaluations=n, distinct_nontrivial=len(seen),
            rule='r is a multiple of q within 1e-9*max(1,|x|); round: '
                 '|r-x|<=q/2; roundup: x<=r<x+q; trunc: x-q<r<=x (exact for '
                 'int arguments, 1e-9 slack with floats)',
            samples=[cases[0], cases[len(cases) // 3], cases[-1]])

    if wants(rep, 'mod'):
        n = 0
        seen = set()
        fails = {}
        bs = [1, 2, 3, 5, 7, 12, 0.25, 0.5, 1.0, 1.5, 2.5, 12.0]
        cases = [(a, b) for b in bs for a in
                 (list(range(-40, 41)) + [k / 8.0 for k in range(-160, 161)])]
        nr = 100000 if quick else 1500000
        for _ in range(nr):
            a = (rng.randrange(-10000, 10001) if rng.random() < 0.4
                 else rng.uniform(-1000, 1000))
            c = rng.random()
            b = (rng.randrange(1, 100) if c < 0.4 else
                 rng.randrange(1, 200) / 8.0 if c < 0.6 else
                 rng.uniform(0.01, 100))
            cases.append((a, b))
        for (a, b) in cases:
            n += 1
            seen.add((type(a), type(b), a, b))
            ok, obs, exp = law_mod(a, b)
            if not ok:
                fails.setdefault(('C15.mod:mod', 'mod'), []).append(
                    (abs(a) + abs(b) + len(repr((a, b))), 'mod', a, b, obs,
                     exp))
        _emit_numeric(rep, fails, 'C15.mod',
                      lambda fn, a: '%s(%s) = %%r, expected %%s' % (
                          fn, ', '.join(repr(v) for v in a)), 'mod')
        rep.bounded(
            name='mod', function='sc3.base.builtins.mod',
            bound='a in ints -40..40 and k/8 in [-20, 20], b in %r; %d '
                  'seeded random pairs' % (bs, nr),
            evaluations=n, distinct_nontrivial=len(seen),
            rule='0 <= r < b and (a - r) a multiple of b',
            samples=[cases[0], cases[len(cases) // 3], cases[-1]])

    if wants(rep, 'inverse'):
        n = 0
        seen = set()
        dom = _domains(rep.tier, rng)
        for f, g, kname, dx, dy in INVERSES:
            for inner, outer, d in ((f, g, dx), (g, f, dy)):
                bad = []
                for x in dom[d]:
                    n += 1
                    seen.add((inner, type(x), x))
                    ok, obs = law_inverse(inner, outer, x)
                    if not ok:
                        bad.append((abs(x) + len(repr(x)), x, obs))
                bad.sort(key=lambda t: t[0])
                for _, x, obs in bad[:2]:
                    rep.violation(
                        obligation='C15.inverse',
                        what='%s(%s(%r)) = %r, expected %r'
                             % (outer, inner, x, obs, x),
                        input={'inner': inner, 'outer': outer, 'x': x},
                        observed=obs, expected=x,
                        key='C15.inverse:%s' % kname,
                        replay={'func': 'inverse',
                                'args': [inner, outer, x]})
        rep.bounded(
            name='inverse',
            function='sc3.base.builtins.midicps/cpsmidi/midiratio/ratiomidi/'
                     'octcps/cpsoct/dbamp/ampdb',
            bound='both compositions of the 4 pairs; midi -24..140, freq '
                  '0.01..22050, ratio 0.01..100, oct -2..12, amp 1e-6..100, '
                  'db -120..40; int and float grids plus seeded random',
            evaluations=n, distinct_nontrivial=len(seen),
            rule='|g(f(x)) - x| <= 1e-9 * max(1, |x|)',
            samples=[['cpsoct', 'octcps', 440.0], ['midicps', 'cpsmidi', 60],
                     ['ampdb', 'dbamp', 0.5]])


def _emit_numeric(rep, fails, obligation, fmt, func):
    for (key, fn) in sorted(fails):
        lst = sorted(fails[(key, fn)], key=lambda t: t[0])
        for item in lst[:1]:
            args = list(item[2:-2])
            obs, exp = item[-2], item[-1]
            rep.violation(
                obligation=obligation,
                what=fmt(fn, args) % (obs, exp),
                input={'function': fn, 'args': args}, observed=obs,
                expected=exp, key=key,
                replay={'func': func, 'args': [fn] + args})


# ---------------------------------------------------------------------------
# (b) lifting: operator table
# ---------------------------------------------------------------------------

class Op:
    """One operator of AbstractObject (or builtins) as seen from outside."""

    def __init__(self, name, arity, kernels, call, rcall=None, extra=(),
                 defaults=(), source='absobject', selector=None,
                 narop=False):
        self.narop = narop            # only the first operand is expanded
        self.name = name
        self.arity = arity            # number of numeric operands
        self.kernels = kernels        # candidate numeric operators (agree)
        self.call = call              # call(recv, *others) on lifted operands
        self.rcall = rcall            # rcall(number, recv) reflected form
        self.extra = tuple(extra)     # trailing non numeric arguments
        self.defaults = tuple(defaults)   # defaults of trailing parameters
        self.source = source
        self.selector = selector


def kernel_value(op, args):
    """Numeric operator on plain numbers; raises ValueError('invalid') when
    the operator is not defined (raises, complex, NaN) or when the candidate
    meanings of the operator disagree on this sample."""
    vals = []
    for k in op.kernels:
        try:
            v = k(*args, *op.extra)
        except Exception:
            raise ValueError('invalid')
        if not isreal(v):
            raise ValueError('invalid')
        vals.append(v)
    for v in vals[1:]:
        if not same(vals[0], v):
            raise ValueError('invalid')
    return vals[0]


def _py_forms():
    """Python level spelling of the dunder methods and their documented
    numeric meaning (candidates must agree on a sample to be used)."""
    bi = setup()['bi']
    un = {
        '__neg__': (operator.neg, [operator.neg]),
        '__pos__': (operator.pos, [operator.pos]),
        '__abs__': (_pyb.abs, [_pyb.abs]),
        '__invert__': (operator.invert, [operator.invert, bi.bitnot]),
        '__trunc__': (math.trunc, [math.trunc, lambda x: bi.trunc(x, 1)]),
        '__ceil__': (math.ceil, [math.ceil, bi.ceil]),
        '__floor__': (math.floor, [math.floor, bi.floor]),
    }
    bn = {}
    for nm, f in (('add', operator.add), ('sub', operator.sub),
                  ('mul', operator.mul), ('truediv', operator.truediv),
                  ('floordiv', operator.floordiv),
                  ('lshift', operator.lshift), ('rshift', operator.rshift),
                  ('and', operator.and_), ('or', operator.or_),
                  ('xor', operator.xor)):
        bn[nm] = (f, [f])
    bn['mod'] = (operator.mod, [bi.mod, operator.mod])
    bn['pow'] = (operator.pow, [operator.pow, bi.pow])
    cmp_ = {}
    for nm, f in (('lt', operator.lt), ('le', operator.le),
                  ('eq', operator.eq), ('ne', operator.ne),
                  ('gt', operator.gt), ('ge', operator.ge)):
        cmp_[nm] = (f, [f])
    named = {
        'as_int': [int, bi.as_int], 'as_float': [float, bi.as_float],
        'not_': [operator.not_], 'abs': [_pyb.abs], 'neg': [operator.neg],
        'bitnot': [operator.invert, bi.bitnot],
        'bitand': [operator.and_], 'bitor': [operator.or_],
        'bitxor': [operator.xor], 'pow': [operator.pow, bi.pow],
        'lshift': [operator.lshift], 'rshift': [operator.rshift],
    }
    return un, bn, cmp_, named


def _probe_class():
    aob = setup()['aob']

    class Probe(aob.AbstractObject):
        def _compose_unop(self, sel):
            return ('un', sel, ())

        def _compose_binop(self, sel, other):
            return ('bin', sel, (other,))

        def _rcompose_binop(self, sel, other):
            return ('rbin', sel, (other,))

        def _compose_narop(self, sel, *args):
            return ('nar', sel, args)

        __hash__ = None
    return Probe


def absobject_ops(rep=None):
    """Enumerate the operator methods of AbstractObject by introspection."""
    st = setup()
    bi, aob = st['bi'], st['aob']
    un, bn, cmp_, named = _py_forms()
    Probe = _probe_class()
    ops = []
    skipped = []
    for name, f in vars(aob.AbstractObject).items():
        if not inspect.isfunction(f):
            continue
        if name in ('_compose_unop', '_compose_binop', '_rcompose_binop',
                    '_compose_narop', '__hash__', '__init__'):
            continue
        params = list(inspect.signature(f).parameters.values())[1:]
        marks = [object() for _ in params]
        try:
            kind, sel, got = f(Probe(), *marks)
        except Exception:
            skipped.append(name)
            continue
        # which parameters reach the hook, in which order, and constants
        numeric_params = []
        extra = []
        defaults = []
        for p, m in zip(params, marks):
            if isinstance(p.default, str):
                extra.append(p.default)       # e.g. clip='minmax'
            else:
                numeric_params.append(p)
                defaults.append(p.default)
        fixed = tuple(g for g in got if not any(g is m for m in marks))
        mname = name

        def call(recv, *others, _n=mname, _x=tuple(extra),
                 _full=len(numeric_params)):
            if len(others) < _full:      # trailing defaults left out
                return getattr(recv, _n)(*others)
            return getattr(recv, _n)(*others, *_x)

        if kind == 'rbin':
            continue      # reflected dunders are reached through the forms
        arity = 1 + len(numeric_params)
        if name.startswith('__'):
            core = name.strip('_')
            if name in un:
                pyf, ks = un[name]
                ops.append(Op(name, 1, ks, lambda r, _f=pyf: _f(r),
                              selector=(sel, fixed)))
            elif name == '__round__':
                ops.append(Op('__round__()', 1,
                              [lambda x: _pyb.round(x),
                               lambda x: bi.round(x, 1)],
                              lambda r: _pyb.round(r),
                              selector=(sel, (1,))))
                ops.append(Op('__round__', 2, [_pyb.round, bi.round],
                              lambda r, q: _pyb.round(r, q),
                              selector=(sel, ())))
            elif core in bn:
                pyf, ks = bn[core]
                ops.append(Op(name, 2, ks, lambda a, b, _f=pyf: _f(a, b),
                              rcall=lambda a, b, _f=pyf: _f(a, b),
                              selector=(sel, ())))
            elif core in cmp_:
                pyf, ks = cmp_[core]
                ops.append(Op(name, 2, ks, lambda a, b, _f=pyf: _f(a, b),
                              rcall=lambda a, b, _f=pyf: _f(a, b),
                              selector=(sel, ())))
            else:
                skipped.append(name)
            continue
        if name in named:
            ks = named[name]
        elif hasattr(bi, name):
            ks = [getattr(bi, name)]
        else:
            ks = [sel]
            if rep is not None:
                rep.note('operator %s has no builtin of that name: its own '
                         'selector %r is used as the numeric operator'
                         % (name, getattr(sel, '__name__', sel)))
        rcall = None
        if kind == 'bin' and hasattr(bi, name) and name not in named:
            rcall = (lambda a, b, _f=getattr(bi, name): _f(a, b))
        dfl = tuple(d for d in defaults)
        ops.append(Op(name, arity, ks, call, rcall=rcall, extra=extra,
                      defaults=dfl, selector=(sel, fixed)))
    return ops, skipped


def builtin_ops():
    """Every scbuiltin wrapped function of sc3.base.builtins."""
    bi = setup()['bi']
    ops = []
    for name, f in vars(bi).items():
        qn = getattr(f, '__qualname__', '')
        if not (inspect.isfunction(f) and qn.startswith('scbuiltin.')):
            continue
        kind = qn.split('.')[1]
        inner = f
        if f.__closure__:
            for c in f.__closure__:
                try:
                    v = c.cell_contents
                except ValueError:
                    continue
                if inspect.isfunction(v) and v.__name__ == name:
                    inner = v
        params = list(inspect.signature(inner).parameters.values())
        extra = []
        nnum = 0
        defaults = []
        for p in params:
            if isinstance(p.default, str) or p.name in ('range', 'range2'):
                if isinstance(p.default, str):
                    extra.append(p.default)
            else:
                nnum += 1
                if nnum > 1:
                    defaults.append(p.default)
        if kind == 'narop' and extra:
            call = (lambda r, *o, _f=f, _x=tuple(extra), _full=nnum - 1:
                    _f(r, *o, *_x) if len(o) >= _full else _f(r, *o))
        else:
            call = (lambda r, *o, _f=f: _f(r, *o))
        rcall = None
        if kind == 'binop':
            rcall = (lambda a, b, _f=f: _f(a, b))
        ops.append(Op(name, nnum, [f], call, rcall=rcall, extra=extra,
                      defaults=tuple(defaults), source='builtins',
                      narop=(kind == 'narop')))
    return ops


# ---------------------------------------------------------------------------
# operand kinds
# ---------------------------------------------------------------------------

LAZY_INDEX = ('function',)
LAZY_SEQ = ('routine', 'funcstream', 'pseq', 'ppattern')
EAGER_LIST = ('channellist', 'list', 'tuple', 'arrayed')
EAGER_VALUE = ('operand', 'rest')
RECEIVER_KINDS = ('function', 'routine', 'funcstream', 'pseq', 'ppattern',
                  'channellist', 'arrayed', 'operand', 'rest')


def build(kind, data):
    """Build a real operand of the given kind.  data: a column (list of
    numbers) for lazy kinds, a nested list for list kinds, a number for
    value kinds and 'number'."""
    st = setup()
    if kind == 'number':
        return data
    if kind == 'function':
        col = list(data)
        return st['fn'].Function(lambda i: col[i])
    if kind == 'routine':
        col = list(data)

        def gen():
            for v in col:
                yield v
        return st['stm'].Routine(gen)
    if kind == 'funcstream':
        it = iter(list(data))
        stop = st['stm'].StopStream

        def nxt():
            try:
                return next(it)
            except StopIteration:
                raise stop
        return st['stm'].FunctionStream(nxt)
    if kind == 'pseq':
        return st['lsp'].Pseq(list(data))
    if kind == 'ppattern':
        return st['pcol'](list(data))
    if kind == 'channellist':
        return st['ugn'].ChannelList(_copy_nested(data))
    if kind == 'list':
        return _copy_nested(data)
    if kind == 'tuple':
        return tuple(_copy_nested(data))
    if kind == 'arrayed':
        return st['evt'].arrayed_param(_copy_nested(data))
    if kind == 'operand':
        return st['MyOperand'](data)
    if kind == 'rest':
        return st['evt'].Rest(data)
    raise ValueError(kind)


def _copy_nested(x):
    if isinstance(x, (list, tuple)):
        return [_copy_nested(i) for i in x]
    return x


def plain(x):
    """Evaluated result -> numbers / nested plain lists."""
    st = setup()
    if isinstance(x, st['opd'].Operand):
        return plain(x.value)
    if isinstance(x, (list, tuple)):
        return [plain(i) for i in x]
    if isnum(x):
        return x
    return '<%s>' % type(x).__name__


def ref_apply(k, vals):
    """Reference: element-wise with wrap-around over list operands."""
    lens = [len(v) for v in vals if isinstance(v, list)]
    if not lens:
        return k(vals)
    if min(lens) == 0:
        raise ValueError('invalid')
    n = max(lens)
    return [ref_apply(k, [v[i % len(v)] if isinstance(v, list) else v
                          for v in vals]) for i in range(n)]


def expected_and_observed(op, kinds, datas, reflected=False, via='call'):
    """kinds/datas: one entry per numeric operand of op.
    -> ('ok'|'mismatch'|'raises'|'invalid', observed, expected)"""
    st = setup()
    StopStream = st['stm'].StopStream
    mode = 'eager'
    lens = []
    for kd, d in zip(kinds, datas):
        if kd in LAZY_INDEX:
            mode = 'index' if mode in ('eager', 'index') else mode
            lens.append(len(d))
        elif kd in LAZY_SEQ:
            mode = 'seq'
            lens.append(len(d))
    if mode == 'index' and len(set(lens)) != 1:
        return 'invalid', None, None
    n = min(lens) if lens else 1

    npad = op.arity - len(kinds)

    def kfun(vals):
        if npad:
            vals = list(vals) + list(op.defaults[len(op.defaults) - npad:])
        return kernel_value(op, vals)

    # ---- expected
    try:
        if mode == 'eager':
            expd = ref_apply(kfun, [_copy_nested(d) for d in datas])
        else:
            expd = []
            for i in range(n):
                vals = [d[i] if (kd in LAZY_INDEX or kd in LAZY_SEQ)
                        else _copy_nested(d) for kd, d in zip(kinds, datas)]
                expd.append(ref_apply(kfun, vals))
            # all cross combinations met by the shorter/longer streams are
            # only those above; nothing else is evaluated by the contract
    except ValueError:
        return 'invalid', None, None
    if has_nan(expd):
        return 'invalid', None, None

    # ---- observed
    try:
        objs = [build(kd, d) for kd, d in zip(kinds, datas)]
        if reflected:
            res = op.rcall(objs[0], objs[1])
        else:
            res = op.call(*objs)
        if mode == 'eager':
            obs = plain(res)
        elif mode == 'index':
            obs = [plain(res(i)) for i in range(n)]
        else:
            strm = st['stm'].stream(res)
            obs = []
            ended = False
            for _ in range(max(lens) + 2):
                try:
                    obs.append(plain(strm.next()))
                except StopIteration:
                    ended = True
                    break
            if not ended:
                obs.append('<more values>')
            # a composed pattern also has to embed like the stream it makes
            if (same(obs, expd) and isinstance(res, st['ptt'].Pattern)
                    and all(k in ('pseq', 'ppattern', 'number', 'channellist')
                            for k in kinds)):
                strm = st['stm'].stream(st['lsp'].Pseq([res, res]))
                emb = []
                for _ in range(2 * n + 2):
                    try:
                        emb.append(plain(strm.next()))
                    except StopIteration:
                        break
                if not same(emb, expd + expd):
                    obs = {'embedded twice in Pseq': emb}
            elif same(obs, expd) and isinstance(res, st['ptt'].Pattern):
                # stream operands are consumed by the run above: fresh operands,
                # the composed pattern embedded once in another pattern
                objs2 = [build(kd, d) for kd, d in zip(kinds, datas)]
                res2 = op.rcall(objs2[0], objs2[1]) if reflected else op.call(*objs2)
                strm = st['stm'].stream(st['lsp'].Pseq([res2]))
                emb = []
                for _ in range(n + 2):
                    try:
                        emb.append(plain(strm.next()))
                    except StopIteration:
                        break
                if not same(emb, expd):
                    obs = {'embedded in Pseq': emb}
    except Exception as e:
        return 'raises', '%s: %s' % (type(e).__name__, e), expd
    if same(obs, expd):
        return 'ok', obs, expd
    return 'mismatch', obs, expd


# ---------------------------------------------------------------------------
# sample generation
# ---------------------------------------------------------------------------

INTS = [-7, -3, -2, -1, 0, 1, 2, 3, 5, 12]
FLOATS = [-7.5, -2.5, -1.0, -0.5, 0.0, 0.25, 0.5, 0.75, 1.0, 1.5, 3.0, 10.0,
          60.0, 440.0]


def draw_number(rng, flavour):
    if flavour == 'int':
        return rng.choice(INTS)
    if flavour == 'float':
        return rng.choice(FLOATS)
    if flavour == 'intfloat':
        return float(rng.choice(INTS))
    return rng.choice(INTS) if rng.random() < 0.5 else rng.choice(FLOATS)


def draw_column(rng, flavour, n):
    return [draw_number(rng, flavour) for _ in range(n)]


def draw_nested(rng, flavour, n, depth=0):
    """Nested list with about n leaves."""
    out = []
    for _ in range(n):
        if depth < 2 and rng.random() < 0.3:
            out.append(draw_nested(rng, flavour, rng.choice([1, 2, 3]),
                                   depth + 1))
        else:
            out.append(draw_number(rng, flavour))
    return out


def draw_data(rng, kind, flavour, n, nested=True):
    if kind == 'number' or kind in EAGER_VALUE:
        return draw_number(rng, flavour)
    if kind in EAGER_LIST:
        if nested and rng.random() < 0.4:
            return draw_nested(rng, flavour, n)
        return draw_column(rng, flavour, n)
    return draw_column(rng, flavour, n)


def forms_for(op, recv):
    """Operand kind tuples to try for this operator with receiver kind recv:
    list of (kinds, reflected)."""
    a = op.arity
    if a == 1:
        return [((recv,), False)]
    forms = []
    # trailing parameters with defaults left out
    dfl = list(op.defaults)
    k = 0
    while k < len(dfl) and dfl[len(dfl) - 1 - k] is not inspect.Parameter.empty:
        k += 1
    for omit in range(1, k + 1):
        forms.append(((recv,) + ('number',) * (a - 1 - omit), False))
    if a == 2 and not op.narop:
        forms.append(((recv, 'number'), False))
        forms.append(((recv, recv), False))
        if op.rcall is not None:
            forms.append((('number', recv), True))
        if recv in ('channellist', 'arrayed'):
            for other in ('list', 'tuple', 'channellist'):
                if other != recv:
                    forms.append(((recv, other), False))
                    if op.rcall is not None:
                        forms.append(((other, recv), True))
        if recv in ('function', 'routine', 'pseq', 'operand'):
            forms.append(((recv, 'channellist'), False))
        if recv == 'routine':
            forms.append((('routine', 'pseq'), False))
            forms.append((('routine', 'funcstream'), False))
        if recv == 'pseq':
            forms.append((('pseq', 'routine'), False))
            forms.append((('pseq', 'ppattern'), False))
        if recv == 'rest':
            forms.append((('rest', 'operand'), False))
            forms.append((('operand', 'rest'), False))
        return forms
    forms.append(((recv,) + ('number',) * (a - 1), False))
    if recv in LAZY_INDEX or recv in LAZY_SEQ:
        forms.append(((recv,) * a, False))
        forms.append(((recv, recv) + ('number',) * (a - 2), False))
    if recv == 'pseq':
        # a pattern receiver with stream (not pattern) arguments
        forms.append((('pseq',) + ('routine',) * (a - 1), False))
        forms.append((('pseq', 'funcstream') + ('number',) * (a - 2), False))
        forms.append((('pseq', 'number') + ('routine',) * (a - 2), False))
    if recv == 'channellist' and op.source == 'absobject':
        forms.append(((recv, 'list') + ('number',) * (a - 2), False))
        forms.append(((recv,) + ('list',) * (a - 1), False))
    out = []
    for f in forms:
        if f not in out:
            out.append(f)
    return out


def draw_case(rng, op, kinds, flavour, force=None):
    lazy = [k for k in kinds if k in LAZY_INDEX or k in LAZY_SEQ]
    if any(k in LAZY_INDEX for k in kinds):
        ln = rng.choice([2, 3])
        lens = [ln] * len(kinds)
    else:
        lens = [rng.choice([1, 2, 3, 4]) for _ in kinds]
        if len(lazy) > 1 and len(set(lens)) == 1 and rng.random() < 0.7:
            lens[0] += 1
    datas = []
    for i, k in enumerate(kinds):
        nest = True
        if (op.arity > 2 or op.narop) and k in EAGER_LIST:
            nest = i == 0      # other list operands of n-ary forms are flat
        datas.append(draw_data(rng, k, flavour, lens[i], nest))
    # equal operands (also equal in value but int vs float) are rare in
    # independent draws: the first tries of every binary form force them
    if len(kinds) == 2 and force is not None:
        scalar = ('number',) + EAGER_VALUE
        both_scalar = kinds[0] in scalar and kinds[1] in scalar
        both_multi = kinds[0] not in scalar and kinds[1] not in scalar
        if both_scalar or both_multi:
            datas[1] = _retype(_copy_nested(datas[0]), force)
    return datas


def _retype(x, how):
    """Same values; how: 'same' | 'float' (ints become floats) | 'int'
    (integral floats become ints)."""
    if isinstance(x, list):
        return [_retype(i, how) for i in x]
    if how == 'float' and isinstance(x, int):
        return float(x)
    if how == 'int' and isinstance(x, float) and x == int(x):
        return int(x)
    return x


def explore(rep, ops, label, per_form, kinds_filter=None):
    """Run the lifting contract for the operators; -> statistics."""
    rng = rep.rng
    stats = {}
    n = 0
    seen = set()
    samples = []
    for op in ops:
        for recv in RECEIVER_KINDS:
            if kinds_filter and recv not in kinds_filter:
                continue
            for kinds, reflected in forms_for(op, recv):
                fk = (op.name, kinds, reflected)
                cell = stats.setdefault(fk, {'ok': 0, 'bad': [], 'raises': [],
                                             'invalid': 0, 'op': op})
                tries = 0
                done = 0
                while done < per_form and tries < per_form * 12:
                    tries += 1
                    flavour = ('int', 'float', 'mixed')[tries % 3]
                    force = None
                    if len(kinds) == 2 and tries <= 6:
                        # int vs equal float, integral float vs equal int,
                        # identical operands
                        force = ('float', 'int', 'same')[tries % 3]
                        flavour = ('int', 'intfloat', 'mixed')[tries % 3]
                    datas = draw_case(rng, op, kinds, flavour, force)
                    ck = repr((label, op.name, kinds, reflected, datas))
                    if ck in seen:
                        continue
                    status, obs, expd = expected_and_observed(
                        op, kinds, datas, reflected)
                    if status == 'invalid':
                        cell['invalid'] += 1
                        continue
                    seen.add(ck)
                    n += 1
                    done += 1
                    if status == 'ok':
                        cell['ok'] += 1
                        if len(samples) < 5 and rng.random() < 0.002:
                            samples.append([op.name, list(kinds), datas])
                    elif status == 'mismatch':
                        cell['bad'].append((len(repr(datas)), datas, obs,
                                            expd))
                    else:
                        cell['raises'].append((len(repr(datas)), datas, obs,
                                               expd))
    return stats, n, len(seen), samples


def kinds_text(kinds, reflected):
    return ('%s <op> %s' % (kinds[0], kinds[1])) if len(kinds) == 2 else \
        '%s.<op>(%s)' % (kinds[0], ', '.join(kinds[1:]))


FAMILY = {'function': 'function', 'routine': 'stream', 'funcstream': 'stream',
          'pseq': 'pattern', 'ppattern': 'pattern', 'channellist': 'list',
          'arrayed': 'list', 'list': 'list', 'tuple': 'list',
          'operand': 'operand', 'rest': 'operand'}


def family_key(kinds):
    fam = sorted({FAMILY[k] for k in kinds if k in FAMILY})
    return '+'.join(fam) or 'number'


def _is_nested(x):
    return isinstance(x, list) and any(isinstance(i, list) for i in x)


def classify(obligation, op, kinds, datas, status, obs):
    """Stable key of a failing sample: the failing site and input class."""
    fams = {FAMILY[k] for k in kinds if k in FAMILY}
    if (op.source == 'builtins' and 'list' in fams
            and fams & {'function', 'stream', 'pattern', 'operand'}):
        # builtins hand their *inner* function to the operand's hook, so a
        # list valued second operand reaches the scalar code
        return 'C15.forward:list-valued-operand'
    if (op.source == 'absobject' and op.arity > 2 and kinds[0] == 'channellist'
            and _is_nested(datas[0]) and status == 'raises'
            and str(obs).startswith('AttributeError')):
        return 'C15.lift:nary-nested-channellist'
    if op.name == '__eq__' and 'operand' in fams and status == 'mismatch':
        # Operand.__eq__ is its own method (value.__eq__(other)), whatever
        # the kind of the other operand
        return '%s:__eq__:operand' % obligation
    key = '%s:%s:%s' % (obligation, op.name, family_key(kinds))
    return key + (':raises' if status == 'raises' else '')


SINGLE_KEYS = ('C15.forward:list-valued-operand',
               'C15.lift:nary-nested-channellist')


def report_lift(rep, stats, obligation, func):
    """Turn statistics into violations / notes."""
    unsupported = {}
    novalid = []
    found = {}
    for fk in stats:
        cell = stats[fk]
        opname, kinds, reflected = fk
        op = cell['op']
        total = cell['ok'] + len(cell['bad']) + len(cell['raises'])
        if total == 0:
            novalid.append(opname)
            continue
        items = [('mismatch',) + t for t in cell['bad']]
        typed = all(str(o).startswith(('TypeError', 'NotImplementedError',
                                       'AttributeError'))
                    for _, _, o, _ in cell['raises'])
        nolift = (cell['raises'] and cell['ok'] == 0 and not cell['bad']
                  and typed)
        for t in cell['raises']:
            key = classify(obligation, op, kinds, t[1], 'raises', t[2])
            if nolift and key not in SINGLE_KEYS:
                continue
            items.append(('raises',) + t)
        if nolift and not any(it[0] == 'raises' for it in items):
            unsupported.setdefault((kinds, reflected), []).append(opname)
        for status, size, datas, obs, expd in items:
            key = classify(obligation, op, kinds, datas, status, obs)
            found.setdefault(key, []).append(
                (size, status, opname, kinds, reflected, datas, obs, expd,
                 op.source))
    for key in sorted(found):
        lst = sorted(found[key], key=lambda t: (t[1] != 'mismatch', t[0],
                                                repr(t[2:6])))
        for (size, status, opname, kinds, reflected, datas, obs, expd,
             source) in lst[:3]:
            where = '%s on (%s)%s' % (
                opname, ', '.join(kinds),
                ' [number on the left]' if reflected else '')
            if status == 'raises':
                what = ('%s raises %s where the numeric operator is defined '
                        '(= %r); operands %r' % (where, obs, expd, datas))
            else:
                what = ('%s: evaluating the composed object gives %r, the '
                        'numeric operator on the evaluated operands %r; '
                        'operands %r' % (where, obs, expd, datas))
            args = {'op': opname, 'kinds': list(kinds), 'datas': datas,
                    'reflected': reflected, 'source': source}
            rep.violation(obligation=obligation, what=what, input=args,
                          observed=obs, expected=expd, key=key,
                          replay={'func': func, 'args': args})
    for (kinds, reflected), names in sorted(unsupported.items()):
        rep.note('%s: no lifting for (%s)%s -- raises TypeError/'
                 'NotImplementedError/AttributeError on every sample; left '
                 'unspecified: %s'
                 % (obligation, ', '.join(kinds),
                    ' reflected' if reflected else '',
                    ' '.join(sorted(set(names)))))
    if novalid:
        rep.note('%s: no sample on which the numeric operator is defined '
                 '(skipped): %s' % (obligation,
                                    ' '.join(sorted(set(novalid)))))


def run_dispatch(rep, ops):
    """The selector each method hands to the hook is the numeric operator the
    method name stands for."""
    rng = rep.rng
    n = 0
    seen = set()
    for op in ops:
        sel, fixed = op.selector
        hits = 0
        for t in range(400):
            flavour = ('int', 'float', 'mixed')[t % 3]
            args = [draw_number(rng, flavour) for _ in range(op.arity)]
            try:
                expd = kernel_value(op, args)
            except ValueError:
                continue
            n += 1
            hits += 1
            seen.add((op.name, tuple(args)))
            try:
                obs = sel(*args, *fixed, *op.extra)
            except Exception as e:
                obs = 'raises %s: %s' % (type(e).__name__, e)
            if not same(obs, expd):
                rep.violation(
                    obligation='C15.dispatch',
                    what='AbstractObject.%s hands %r to the composition '
                         'hook: on %r it gives %r, the operator named %s '
                         'gives %r' % (op.name, getattr(sel, '__name__', sel),
                                       args, obs, op.name, expd),
                    input={'op': op.name, 'args': args}, observed=obs,
                    expected=expd, key='C15.dispatch:%s' % op.name,
                    replay={'func': 'dispatch',
                            'args': {'op': op.name, 'args': args}})
                break
            if hits >= 30:
                break
    rep.bounded(
        name='dispatch', function='sc3.base.absobject.AbstractObject.*',
        bound='every operator method found by introspection (%d), up to 30 '
              'valid int/float samples each' % len(ops),
        evaluations=n, distinct_nontrivial=len(seen),
        rule='a probe subclass records the selector passed to _compose_*; '
             'selector(sample) must equal the operator the method is named '
             'after (Python operator for dunders, builtins.<name> otherwise)',
        samples=[[o.name, getattr(o.selector[0], '__name__', '?')]
                 for o in ops[:5]], exhaustive=False)


# ---------------------------------------------------------------------------
# list algebra (utils.list_unop / list_binop / list_narop)
# ---------------------------------------------------------------------------

def _to_kind(rng, x, tuples):
    """Randomly turn sublists into tuples (values unchanged)."""
    if isinstance(x, list):
        y = [_to_kind(rng, i, tuples) for i in x]
        if tuples and rng.random() < 0.3:
            return tuple(y)
        return y
    return x


def _listalg_ops():
    bi = setup()['bi']
    return {
        'neg': (1, operator.neg), 'squared': (1, bi.squared),
        'add': (2, operator.add), 'sub': (2, operator.sub),
        'mul': (2, operator.mul), 'lt': (2, operator.lt),
        'min': (2, bi.min), 'absdif': (2, bi.absdif),
        'clip': (3, bi.clip), 'blend': (3, bi.blend),
    }


def enc_tuples(x):
    """JSON keeps no tuples: mark them."""
    if isinstance(x, tuple):
        return {'tuple': [enc_tuples(i) for i in x]}
    if isinstance(x, list):
        return [enc_tuples(i) for i in x]
    return x


def dec_tuples(x):
    if isinstance(x, dict):
        return tuple(dec_tuples(i) for i in x['tuple'])
    if isinstance(x, list):
        return [dec_tuples(i) for i in x]
    return x


def check_listalg(opname, datas):
    utl = setup()['utl']
    arity, k = _listalg_ops()[opname]
    try:
        expd = ref_apply(lambda v: k(*v), [_copy_nested(d) for d in datas])
    except Exception:
        return 'invalid', None, None
    try:
        if arity == 1:
            res = utl.list_unop(k, datas[0])
        elif arity == 2:
            res = utl.list_binop(k, datas[0], datas[1])
        else:
            res = utl.list_narop(k, *datas)
        obs = plain(res)
    except Exception as e:
        return 'raises', '%s: %s' % (type(e).__name__, e), expd
    return ('ok' if same(obs, expd) else 'mismatch'), obs, expd


def run_listalg(rep):
    rng = rep.rng
    total = 20000 if rep.tier == 'quick' else 400000
    names = sorted(_listalg_ops())
    n = 0
    seen = set()
    fails = []
    samples = []
    for t in range(total):
        opname = names[t % len(names)]
        arity = _listalg_ops()[opname][0]
        flavour = ('int', 'float', 'mixed')[t % 3]
        datas = []
        for i in range(arity):
            if arity == 3 and i > 0:
                datas.append(draw_number(rng, flavour))
            elif arity == 2 and rng.random() < 0.25:
                datas.append(draw_number(rng, flavour))
            else:
                d = draw_nested(rng, flavour, rng.choice([1, 2, 3, 4, 5]))
                datas.append(_to_kind(rng, d, True))
        if opname == 'clip':
            datas[1], datas[2] = min(datas[1:]), max(datas[1:])
        ck = repr((opname, datas))
        if ck in seen:
            continue
        status, obs, expd = check_listalg(opname, datas)
        if status == 'invalid':
            continue
        seen.add(ck)
        n += 1
        if status != 'ok':
            fails.append((len(ck), opname, datas, status, obs, expd))
        elif len(samples) < 4 and rng.random() < 0.01:
            samples.append([opname, datas])
    fails.sort(key=lambda t: t[0])
    for _, opname, datas, status, obs, expd in fails[:3]:
        rep.violation(
            obligation='C15.listalg',
            what='list_%s(%s, %s) gives %r, element-wise with wrap-around '
                 'is %r' % ({1: 'unop', 2: 'binop', 3: 'narop'}[
                     _listalg_ops()[opname][0]], opname,
                     ', '.join(repr(d) for d in datas), obs, expd),
            input={'op': opname, 'datas': datas}, observed=obs, expected=expd,
            key='C15.listalg:%s' % status,
            replay={'func': 'listalg',
                    'args': {'op': opname, 'datas': enc_tuples(datas)}})
    rep.note('listalg: only element values and lengths are compared (result '
             'container types are not); empty lists are left unspecified; '
             'list_narop expands its first operand only (other operands '
             'are numbers)')
    rep.bounded(
        name='listalg',
        function='sc3.base.utils.list_unop/list_binop/list_narop',
        bound='operators %s; operands nested lists/tuples up to depth 3 '
              'with 1..5 top level items (or a number)' % ' '.join(names),
        evaluations=n, distinct_nontrivial=len(seen),
        rule='seeded random; reference = recursive element-wise '
             'application, shorter operand wrapped to the longest',
        samples=samples)


# ---------------------------------------------------------------------------

def main(rep):
    setup()
    run_numeric(rep)
    quick = rep.tier == 'quick'
    aops = None
    if wants(rep, 'dispatch') or wants(rep, 'lift'):
        aops, skipped = absobject_ops(rep)
        if skipped:
            rep.note('AbstractObject methods not treated as operators: %s'
                     % ' '.join(skipped))
    if wants(rep, 'dispatch'):
        run_dispatch(rep, aops)
    if wants(rep, 'lift'):
        per_form = 12 if quick else 150
        stats, n, distinct, samples = explore(rep, aops, 'lift', per_form)
        report_lift(rep, stats, 'C15.lift', 'lift')
        rep.bounded(
            name='lift', function='sc3.base.absobject.AbstractObject.* on '
                                  'Function/Routine/FunctionStream/Pseq/'
                                  '@pattern/ChannelList/arrayed_param/'
                                  'Operand/Rest',
            bound='%d operator methods x 9 receiver kinds x forms (receiver '
                  'with numbers, with the same kind, number on the left, '
                  'lists/tuples/ChannelLists, a few cross kinds), %d valid '
                  'int/float/mixed samples per form; columns of 1..4 values, '
                  'lists nested to depth 3' % (len(aops), per_form),
            evaluations=n, distinct_nontrivial=distinct,
            rule='operands drawn from fixed int and float pools until the '
                 'numeric operator is defined on every element met; distinct '
                 '= distinct (operator, kinds, operands)',
            samples=samples)
    if wants(rep, 'forward'):
        bops = builtin_ops()
        per_form = 8 if quick else 100
        stats, n, distinct, samples = explore(
            rep, bops, 'forward', per_form,
            kinds_filter=('function', 'routine', 'pseq', 'channellist',
                          'operand', 'rest'))
        report_lift(rep, stats, 'C15.forward', 'forward')
        rep.bounded(
            name='forward', function='sc3.base.builtins.* (scbuiltin '
                                     'decorated functions)',
            bound='%d functions x 6 operand kinds, operand first or (binary) '
                  'second with a number first, %d samples per form'
                  % (len(bops), per_form),
            evaluations=n, distinct_nontrivial=distinct,
            rule='bi.f(lifted operands) evaluated == bi.f(values)',
            samples=samples)
    if wants(rep, 'listalg'):
        run_listalg(rep)


def _find_op(name, source):
    ops = builtin_ops() if source == 'builtins' else absobject_ops()[0]
    for op in ops:
        if op.name == name:
            return op
    raise ValueError('unknown operator %r' % (name,))


def replay(case, rep):
    setup()
    r = case.get('replay') or {}
    func, args = r.get('func'), r.get('args')
    key = case.get('key') or case.get('obligation')
    ok, obs, expd = True, None, None
    if func == 'range':
        ok, obs, expd = law_range(*args)
    elif func == 'quant':
        ok, obs, expd = law_quant(*args)
    elif func == 'mod':
        ok, obs, expd = law_mod(*args[1:])
    elif func == 'inverse':
        ok, obs = law_inverse(*args)
        expd = args[2]
    elif func in ('lift', 'forward'):
        op = _find_op(args['op'], args.get('source', 'absobject'))
        status, obs, expd = expected_and_observed(
            op, tuple(args['kinds']), args['datas'], args['reflected'])
        ok = status in ('ok', 'invalid')
    elif func == 'dispatch':
        op = _find_op(args['op'], 'absobject')
        sel, fixed = op.selector
        a = args['args']
        expd = kernel_value(op, a)
        try:
            obs = sel(*a, *fixed, *op.extra)
        except Exception as e:
            obs = 'raises %s' % e
        ok = same(obs, expd)
    elif func == 'listalg':
        status, obs, expd = check_listalg(args['op'],
                                          dec_tuples(args['datas']))
        ok = status in ('ok', 'invalid')
    else:
        raise ValueError('unknown replay function %r' % (func,))
    if not ok:
        rep.violation(obligation=case.get('obligation', 'C15'),
                      what=case.get('what', ''), input=case.get('input'),
                      observed=obs, expected=expd, key=key, replay=r)
    return ok


if __name__ == '__main__':
    driver_main('C15', main, replay)
