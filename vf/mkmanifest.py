"""Regenerate /verif/MANIFEST.json from vf/props.py (python3-vt -m vf.mkmanifest)."""
import json
import os
from .common import VERIF
from . import props

BASE = "cd /repo && /venv/bin/python -m pytest -ra -q -p no:cacheprovider --timeout=900 --continue-on-collection-errors"


def main():
    ids = [json.loads(l)['id'] for l in open(os.path.join(VERIF, 'properties.jsonl'))]
    checks, na = [], []
    for pid in ids:
        p = props.PROPS.get(pid)
        if p and p.get('claimed') and not p.get('drivers') and not p.get('contracts'):
            p = None
        if p and p.get('claimed') and p.get('needs_driver') and not p.get('drivers'):
            p = dict(p, claimed=False, na_reason='bounded driver for the whole-program clauses still under construction')
        if not p or not p.get('claimed'):
            na.append({'property_id': pid, 'reason': (p or {}).get(
                'na_reason', 'check under construction (no decision claimed yet)')})
            continue
        checks.append({
            'property_id': pid,
            'quick_cmd': './check %s --tier quick' % pid,
            'thorough_cmd': './check %s --tier thorough' % pid,
            'evidence_file': 'evidence/%s.json' % pid,
            'replay_cmd_template': './check %s --replay {path}' % pid,
            'engine': 'pyvc+drivers',
            'level_claimed': {'category': p['level'], 'text': p['level_text'],
                              'design_ref': 'DESIGN.md §4 %s' % pid},
            'level_note': p['level_note'],
            'technique': p['technique'],
        })
    m = {
        'version': 1,
        'setup_cmd': 'true',
        'hooks': {
            'guard': 'SC3_VERIF',
            'enable': 'none needed: no hook lives in /repo. Contracts are sidecar files under /verif/vf/contracts keyed by file and qualified function name; run-time contract wrappers are installed by the driver processes only (SC3_VERIF=1 is exported by ./check).',
            'baseline_off_cmd': BASE,
            'source_commits': [],
            'add_only': True,
        },
        'engines': [
            {'name': 'pyvc', 'path': 'vf/pyvc', 'serves_properties': [c['property_id'] for c in checks],
             'kind_free_text': 'verification-condition generator: symbolic execution of the real Python source (AST read from /repo at check time) against sidecar contracts; z3 5.1 discharges, cvc5 takes z3 unknowns; counter-models are replayed natively on the real code'},
            {'name': 'drivers', 'path': 'vf/drivers', 'serves_properties': [c['property_id'] for c in checks],
             'kind_free_text': 'bounded run-time contract drivers (exhaustive small scope / seeded generation) under the repository interpreter; labelled bounded, never counted as proved'},
        ],
        'checks': checks,
        'not_applicable': na,
        'notes': 'Fix commits in /repo are unguarded minimal `fix:` commits recorded in /verif/known_findings.json (fixed: lines).',
    }
    with open(os.path.join(VERIF, 'MANIFEST.json'), 'w') as f:
        json.dump(m, f, indent=1)
    try:
        import jsonschema
        jsonschema.validate(m, json.load(open('/root/.vp/MANIFEST.schema.json')))
        print('MANIFEST valid: %d checks, %d not_applicable' % (len(checks), len(na)))
    except ImportError:
        print('written (not validated)')


if __name__ == '__main__':
    main()
