"""Contracts for the binary writers of the definition format (C02):
sc3/synth/_fmtrw.py. The stream is an opaque object whose write calls are a
ghost trace."""
import z3
from vf.pyvc.spec import contract
from vf.pyvc.values import *

F = 'sc3/synth/_fmtrw.py'


def written(c):
    tot = z3.IntVal(0)
    for e in c.trace:
        if e[0] == 'call' and e[2] == 'write':
            tot = tot + c.blen(e[3][0])
    return tot


for fn, n, lo, hi in (('write_i8', 1, -128, 127), ('write_i16', 2, -2**15, 2**15 - 1),
                      ('write_i32', 4, -2**31, 2**31 - 1)):
    contract(F, fn, props=('C02',),
             params={'stream': 'obj', 'value': ['int', 'real']},
             raises={'struct.error': (lambda lo, hi: lambda c: (
                 z3.Or(c.value < lo, c.value > hi) if c.kinds['value'] == 'int' else z3.BoolVal(True)))(lo, hi)},
             ensures=[('writes-%d-bytes' % n, (lambda n: lambda c: written(c) == n)(n))],
             on_raise=[('nothing-written-when-refused', lambda c: written(c) == 0)])

BIG = z3.RealVal('340282356779733661637539395458142568448')
contract(F, 'write_f32', props=('C02',),
         params={'stream': 'obj', 'value': ['int', 'real']},
         raises={'OverflowError': lambda c: z3.Or(
             (z3.ToReal(c.value) if z3.is_int(c.value) else c.value) >= BIG,
             (z3.ToReal(c.value) if z3.is_int(c.value) else c.value) <= -BIG)},
         ensures=[('writes-4-bytes', lambda c: written(c) == 4)],
         on_raise=[('nothing-written-when-refused', lambda c: written(c) == 0)])

contract(F, 'write_pascal_str', props=('C02',),
         params={'stream': 'obj', 'string': 'str'},
         raises={'struct.error': lambda c: c.string.extra['chars'] > 255,
                 'UnicodeEncodeError': lambda c: z3.And(c.string.extra['chars'] <= 255,
                                                        z3.Not(c.string.extra['ascii']))},
         ensures=[('length-byte-plus-ascii-bytes', lambda c: written(c) == 1 + c.string.extra['chars'])],
         note='names longer than 255 characters or not ASCII are refused')
