"""Per-property registry: which sidecar contract modules are proved (A), which
bounded drivers run (B), what is assumed and what stays unreached.
MANIFEST.json is generated from this file (python3-vt -m vf.mkmanifest)."""

FLOATS = ('Python float is treated as a mathematical real in every proved '
          'obligation (no rounding, no NaN/inf unless the code names it); decimal '
          'literals denote their decimal value')
BOUNDED = ('bounded drivers are run-time contracts on the real functions over '
           'enumerated/generated inputs: labelled bounded, never counted as proved')
TECH_PB = ('contract-based deductive verification (VCs generated from the real '
           'source, z3/cvc5) for the clauses within reach; bounded run-time '
           'contracts for the rest')
TECH_B = ('run-time contracts on the real functions driven over an exhaustive '
          'small scope plus seeded generation (bounded stand-in; the code is '
          'outside the provable subset)')

PROPS = {}


def P(pid, **kw):
    kw.setdefault('contracts', [])
    kw.setdefault('drivers', [])
    kw.setdefault('assumptions', [FLOATS, BOUNDED] if kw['contracts'] else [BOUNDED])
    kw.setdefault('trusted_base', [])
    kw.setdefault('unreached', [])
    kw.setdefault('explanation', '')
    kw.setdefault('technique', TECH_PB if kw['contracts'] else TECH_B)
    PROPS[pid] = kw


P('C01', claimed=True, needs_driver=True, level='other',
  contracts=['synth_specialindex', 'synth_ugen', 'synth_optimizer', 'synth_synthdef_graph', 'synth_finish', 'synth_newunit', 'synth_optdispatch'], drivers=['vf.drivers.C01'],
  level_text=('Discharged: the opcode numbers of every operator name and Python alias, and the selector each '
              'AbstractObject operator method passes (exhaustive finite obligations on the real tables); the '
              'constructor-time algebraic short-cuts and rate inference of the operator units for all operand '
              'kinds; and the five arithmetic rewrites of the graph optimiser (BinaryOpUGen._optimize_to_sum3 / '
              '_to_sum4 / _to_muladd / _addneg / _optimize_sub) for every combination of operand shapes incl. '
              'both operands being one object and any number of readers: either nothing at all happens, or '
              'exactly one operand whose only reader is the unit itself is removed and exactly one new unit is '
              'made whose denotation equals the replaced unit\'s (ghost denotation over the reals), which does '
              'not read the removed unit, inherits the readers and has the reader sets updated; dead-code '
              'elimination (SynthObject._perform_dead_code_elimination): a unit with readers is left completely '
              'alone; an unread unit leaves the reader set of each input that is a unit with readers (only that '
              'set, only itself), the input is re-optimised iff it is still the unit registered at its index, '
              'and the unit itself is removed last, once. Bounded: the optimiser as a whole (the order rewrites '
              'are tried in, reader-set bookkeeping, topological sort) - '
              'every generated graph program is compiled, its bytes parsed by an independent SCgf reader and its '
              'denotation compared with the source expression modulo the ring identities of the statement.'),
  level_note=('In the rewrite contracts rate lookups and MulAdd._can_be_muladd are ghost booleans, '
              'SynthDef._remove_ugen/_replace_ugen and _optimize_update_descendants ghost events, the meaning of '
              'the units the constructors build is taken from their own proved contracts; reader sets are opaque '
              'objects with a ghost truth value. The reader-set bookkeeping and the sort mutate object graphs '
              'through sets: bounded only (exhaustive '
              'small DAGs + seeded random). Trusted: the independent SCgf-2 reader and denotation normal form '
              '(oracles), Opcodes.h numbering.'),
  unreached=['acceptance by a real scsynth'])

P('C02', claimed=True, needs_driver=True, level='other',
  contracts=['synth_fmtrw', 'synth_writer', 'synth_synthdef_graph', 'synth_toposort', 'synth_outputs', 'synth_defwriter', 'synth_finish', 'synth_newunit'], drivers=['vf.drivers.C02'],
  level_text=('Discharged (pyvc, all inputs): byte lengths and value ranges of the primitive writers; the field '
              'sequence a unit writes (SynthObject._write_def: name, rate number, input count, output count, '
              'special index as i16, then exactly one input spec per input in order, then the output specs - '
              'valid for every subclass because the virtual methods are opaque); the base implementations '
              '(_write_input_spec = (unit index, output index), _rate_number, _write_output_spec(s), '
              'MultiOutUGen: one spec per channel in order); constants as inputs (-1, slot of float(value), '
              'refused without writing when the constant is unknown); sequences as inputs; OutputProxy wire '
              'coordinates; the file header (SCgf, version 2, definition count); the unit table (_add_ugen: index '
              '= position appended at, ignored during a rewrite; _remove_ugen: exactly the own slot cleared; '
              '_index_ugens: unit at position i gets index i; _add_constant: next free slot for a new value, '
              'nothing for a known one; lemma: distinct slots; _replace_ugen: b takes a\'s slot, index, readers and '
              'ordering constraints, and in every unit\'s inputs every occurrence of a becomes b - array-store '
              'model with a quantified inner-loop invariant); the per-unit steps of the topological sort '
              '(_init_topo_sort: both edges per unit input, through the source unit for proxies, and per '
              'width-first antecedent; _make_available iff no antecedent left; _remove_antecedent; _arrange: every '
              'descendant released once, THEN self appended) and its driver loop (one pop and one arrange per '
              'pass onto the one output list, which becomes the table), with the ordering lemma (Kahn) over '
              'these contracts; rejection of rate mismatches at output units (AbstractOut._check_inputs names the '
              'FIRST non-audio signal input of an audio-rate unit, reports a missing input, else defers to the '
              'generic check). Bounded: well-formedness of '
              'whole definitions (complete parse as one SCgf-2 definition, wires refer to earlier units/'
              'existing constants, width-first ordering, consistent counts, acceptance by the library reader '
              'incl. every output unit the source creates, rejection of invalid graphs) with an independent '
              'reader. Also discharged: the finishing phases (SynthDef._finish_build: copies, optimisation, constants, '
              'input check, sort and LAST re-indexing, each once in that order; _optimize_graph over a copy of the table with '
              'the rewrite flag up, removed units leaving the table, re-indexing iff it shrank; _collect_constants and '
              '_check_inputs ask EVERY unit and never lose a complaint; _write_constants writes the count and the constants '
              'in slot order) and the definition record itself (SynthDef._write_def: see C04).'),
  level_note=('SynthDef._write_def (controls, name table, variants), _write_constants, the topological sort and '
              'the reader of whole definitions are bounded only. The primitive writers are replaced by ghost '
              'trace events in the unit-level contracts (their own contracts are proved separately). Trusted: '
              'independent SCgf-2 reader.'),
  unreached=['acceptance by a real scsynth'])

P('C03', claimed=True, level='other', contracts=['base_utils', 'synth_ugen', 'synth_multinew', 'synth_outputs', 'synth_channellist', 'synth_newunit'], drivers=['vf.drivers.C03'],
  level_text=('The generic expansion itself, SynthObject._multi_new, is under contract for calls with 1-4 arguments of '
              'arbitrary values and list lengths: without a (non-empty) list exactly one unit via _new1; otherwise '
              'exactly one recursive call per channel i of the longest list with every list argument replaced by '
              'its element i mod its length (loop invariant over the ghost trace), the rate name of each channel '
              'checked, the result stored at position i and handed to ChannelList; an empty list next to a longer '
              'one is refused (ZeroDivisionError) iff present. Output units: _replace_zeroes_with_silence replaces, '
              'in place and position by position, every zero number by the ONE silence unit made at the start, every '
              'nested list by its own replacement, and nothing else (array-store model, quantified invariant). '
              'The wrap-around law of the list helper every expansion rests on (utils.wrap_extend: length n, '
              'element i is lst[i mod len]; utils.extend) is proved for all lists and positions. '
              'ChannelList._multichannel_perform (what every convenience method of a channel list goes through): the '
              'channels and the arguments are flopped together once, EVERY row is handled (nested list -> the same method '
              'on it with the row\'s OWN arguments, otherwise the selector performed on the item with them), results '
              'collected in row order and returned as a channel list. '
              'The wrap-and-zip law is checked as a run-time contract on the real constructors: every '
              'directly delegating constructor of every installed unit-generator class (found by an AST '
              'scan at check time) x argument shapes, every operator and ChannelList convenience method, '
              'output units, and the list algebra helpers against an independent reference law.'),
  level_note=('_multi_new recursion over ~300 classes is outside the provable subset. Bounded: shapes '
              'from {scalar, tuple, lists of length 1-3, nested, ChannelList, default} for the first 3 '
              'parameters; the law is relative to the single-channel call.'))

P('C04', claimed=True, level='other', contracts=['synth_controls', 'synth_buildcontrols', 'synth_defwriter'], drivers=['vf.drivers.C04'],
  level_text=('The slot-counter discipline the layout rests on is under contract (pyvc, all inputs): a control '
              'unit starts at the current length of the defaults array, appends exactly its own values and '
              'advances the slot counter by as much (Control/AudioControl/LagControl._init_ugen), the '
              'invariant counter == array length, and every name entered by SynthDef._add_ir/_tr/_ar/_kr '
              'gets index = slots so far, arg_num = names so far and its rate; a lemma over these contracts '
              'gives the tiling of a unit\'s slots by its names. Signature -> names is under contract too '
              '(SynthDef._args_to_controls, any number of parameters, rates entries and prepended arguments; four '
              'loop invariants, three comprehensions executed as maps): the metadata defaults are asked for with '
              'aligned name/value lists shifted past the prepended arguments, and control k is entered exactly once '
              'with the name of parameter skip+k, the adjusted default k, the rate group of the overriding rates '
              'entry else of the annotation else control rate, and the rates entry as lag (missing -> 0, None/kr -> '
              '0.0). Grouping by rate is under contract as well (SynthDef._build_controls with its nested helper and '
              'nonlocal state, five loop contracts): ONE control unit per non-empty rate group in the order initial - '
              'trigger - audio - control, by the group\'s class and constructor (lagged iff some lag is non-zero), from '
              'the flattened defaults of exactly that group\'s names collected into a list of its own; the slot counter is '
              'read BEFORE the unit advances it and name j gets index = that value + widths of the names before it (ghost '
              'prefix sum), argument slot arg_num and the j-th reshaped output; lags name by name, wrapped to the width for '
              'array defaults; prepended names pass their default and leave the name list. _build_ugen_graph wraps this: an empty '
              'name list of its own is in force meanwhile (SynthDef.wrap), the graph function is called once with the '
              'prepended arguments followed by exactly the built controls, the outer names are restored. The definition writer '
              'SynthDef._write_def (eight loop contracts): name, constants, count + EVERY default in slot order, count + '
              'every non-prepended name with ITS first slot, count + every unit writing itself in table order, variant count, '
              'and per variant a FRESH copy of the defaults made for that variant, the given values stored at <first slot of '
              'the named control> + position, then "<def>.<variant>" and the full set of values of THAT copy. Everything else (reshape itself, name table/defaults/variants in the bytes, wiring of the '
              'body, call mapping) is checked on the emitted bytes with an independent SCgf reader for '
              'exhaustively enumerated signatures of up to 3 parameters and random ones up to 40 (bounded).'),
  level_note=('In the _build_controls contract the rate groups are uninterpreted sequences (that the five filter '
              'comprehensions partition the names is Python\'s meaning of them), flat/as_list/reshape_like/wrap_extend and '
              'the creation of the unit are ghost calls. In the _args_to_controls contract the inspect module, _get_valid_arg_values and '
              '_apply_metadata_specs are ghost (uninterpreted per parameter / per position). The defaults array and the name tables are '
              'abstracted to their lengths plus the trace of appended elements.'))

P('C05', claimed=True, level='other',
  contracts=['base_clock_loops', 'base_clock_sched', 'base_stream', 'base_main', 'base_clock_stop'], drivers=['vf.drivers.C05'],
  level_text=('Data-flow obligations on the real clock loop bodies: a task that returns a number is '
              're-scheduled exactly once at its scheduled time plus that number (no occurrence of the '
              'physical time in the term), logical time is set to the scheduled time before the task '
              'runs, and the awake flag is cleared on every outcome. Whole programs (nested routines on '
              'three kinds of clocks, NRT exhaustively for one level, RT under injected wake-up jitter) '
              'are compared bit-for-bit with a float replay of start + sum of deltas.'),
  level_note=('Thread interleavings and OS latency are not quantified over: the proved obligations make '
              'the scheduled time a function of logical quantities only under the lock discipline; RT runs '
              'sample schedules. Trusted: threading.Condition, heap contract (C09).'),
  unreached=['all thread interleavings / wake-up latencies (sampled with injected 0-20 ms jitter)'])

P('C06', claimed=True, level='other',
  contracts=['base_osclib', 'base_netaddr', 'base_oscbuild', 'base_osclib_parse', 'base_oscmsgbuild', 'base_oscaddarg'], drivers=['vf.drivers.C06'],
  level_text=('Size and refusal laws of the OSC encoders (4-byte alignment, utf-8 length + 1..4 NULs, '
              'blob size prefix + padding with its loop invariant, int32/float32/timetag ranges, NUL '
              'refused) are discharged on the real functions for all inputs, as are the sizing theorem for '
              'messages/bundles (prediction >= real size over spec functions), get_blob (count, data, padding) '
              'and the STRUCTURE of the recursive encoders OscInterface._build_msg/_build_bundle for argument '
              'lists of any length and nesting depth: the builder is made for the address / for the time tag of '
              'the bundle\'s own time, every argument causes exactly one builder action decided by the argument '
              'alone (None and [] -> 0, bool -> int, message list -> datagram of a recursive _build_msg, bundle '
              'list -> datagram of a recursive _build_bundle, array markers, other lists refused, everything else '
              'unchanged), every nested bundle is checked against its parent\'s time BEFORE it is encoded, the '
              'same send time goes into every recursive call, and the result is build(). NetAddr._clump_bundle '
              '(loop invariant, any number of elements): every element goes into exactly one clump, in order; a '
              'clump is closed iff the next element would take it to the limit, so an open clump stays below the '
              'limit or holds the single element that fits nowhere; NetAddr.send_clumped_bundles sends ONE bundle only when the '
              'prediction fits the datagram limit, else every clump once, in order, none stamped before its predecessor; '
              'send_msg/send_bundle hand exactly their arguments and the address\'s own target to the interface. The low-level builders: OscMessageBuilder.build '
              '(the datagram is, in this order, the address string, the tag string of the arguments, and for EVERY argument '
              'exactly the encoding its tag names of ITS value appended at the end - nothing for T F [ ] N; inductive model of '
              'the datagram as the list of its pieces), _get_arg_type (tag by dynamic type), OscBundleBuilder.build (#bundle, '
              'time tag, then every element as size + bytes in order). Conformance to OSC 1.0, '
              'round trips, the sizing theorem (prediction >= real size) and clumping end-to-end are decided by a '
              'bounded run-time contract against an independent OSC 1.0 codec (all argument lists of '
              'length <= 3 over a 30-value alphabet, nested to depth 4, sizes straddling 65504).'),
  level_note=('Byte contents are abstract in the proofs (length and contains-NUL only); content round '
              'trips are bounded. In the encoder contracts the low-level builders are ghost objects and the '
              'recursive calls opaque (induction on the nesting depth: the callee\'s contract is the same '
              'contract). Trusted: struct.pack ranges/lengths, str.encode length facts.'))

P('C07', claimed=True, level='other',
  contracts=['base_oscinterface', 'base_main', 'base_oscbuild', 'base_taskq'], drivers=['vf.drivers.C07'],
  level_text=('Time-tag arithmetic is proved on the real functions: RT bundles carry '
              'elapsed_time_to_osc(send_time + latency) or IMMEDIATELY for None/negative latency, NRT '
              'bundles are relative inside routines and absolute outside, nested bundles may not '
              'precede their parent, and the OSC time conversions are monotone and inverse within '
              '2^-32 s; every bundle (at any depth) gets the time tag of its own time at the one send time of the '
              'call (_build_bundle contract); OscScore.add encodes and queues a bundle exactly once, at its own '
              'processed time, with the 4-byte size prefix, and refuses after finish without effect. Scores '
              '(tail marker, raw form) and RT stamping under jitter are decided by bounded run-time contracts.'),
  level_note='OscScore ordering relies on the TaskQueue contract (C09). RT runs sample schedules.',
  unreached=['RT stamping for all schedules (sampled under injected jitter)'])

P('C08', claimed=True, level='other',
  contracts=['base_clock_loops', 'base_clock_stop', 'base_appsched'], drivers=['vf.drivers.C08'],
  level_text=('Monitor obligations on the sequential code under the lock are proved (notification iff '
              'the head of the queue changes; exceptions of a task never escape the loop and leave the '
              'awake flag cleared; numeric return re-schedules relative to the scheduled time; stop: queue '
              'cleared, run flag down and the clock thread notified in one critical section, joined outside it; '
              'clear: popped under the lock until empty, thread notified; the scheduler behind AppClock: wake-up protocol, '
              're-scheduling from the physical present, due entries taken first and then woken at their own times). Exactly-'
              'once, never-early, order, cancellation and error isolation are checked by ghost monitors '
              'on the real clock threads (bounded stress); timeliness gates only on the discriminating '
              'scenario (a task becoming earliest while the thread sleeps).'),
  level_note=('Concurrency is where this family is weakest: the interleaving quantifier is NOT discharged. '
              'Trusted: threading.Condition semantics, TaskQueue contract (C09).'),
  unreached=['all interleavings', 'liveness of Condition', 'OS wake-up latency'])

P('C09', claimed=True, level='proof',
  contracts=['base_taskq'], drivers=['vf.drivers.C09'],
  level_text=('TaskQueue is verified as a data structure against an abstract view for ALL histories: a '
              'quantified representation invariant is established by __init__/clear and preserved by '
              'add, remove and pop (loop invariant + variant); add/remove/pop/peek/empty have '
              'postconditions over the whole view (others undisturbed, re-add becomes the most recent '
              'entry, pop/peek return the (time, insertion)-minimum/maximum, KeyError iff empty); a lemma '
              'over the contracts gives non-decreasing time, FIFO among equal times and each item once; '
              'iteration (__iter__, generator body with yield as ghost event) leaves the queue untouched and '
              'yields, per pass, the i-th entry of the (time, insertion) order iff it is not a removed one. '
              'A model-based bounded driver re-checks all histories of length <= 6 and the clients.'),
  level_note=('Trusted: heapq (heappush/heappop/nsmallest/nlargest) under the stated library contract - for '
              'iteration: nsmallest(len(heap), heap) enumerates the heap bijectively in list order, which is the '
              '(prio, count) order for pairwise distinct counts (asserted as call precondition) - finite-set '
              'cardinality axioms, dict/itertools.count models. Priorities are finite reals.'))

P('C10', claimed=True, level='other', contracts=['base_clock_sched', 'base_rng', 'base_stream', 'base_oscinterface', 'base_clock_wake'], drivers=['vf.drivers.C10'],
  level_text=('The mode switch refines one contract: for SystemClock.sched/sched_abs, TempoClock.sched/'
              'sched_abs and AppClock.sched (NRT) both branches are proved to schedule the same task at the '
              'same logical time, and the NRT wake-up re-schedules at scheduled time + delta through the '
              'clock map like the RT loop bodies (C05/C08). '
              'Differential run-time contract: generated programs are run once under NrtMain and once '
              'under RtMain with injected jitter (separate processes) and compared per routine and '
              'logical time; two fresh NRT runs must give byte-identical scores; seeded random streams '
              'must not depend on other routines. Discharged too: every change of a tempo clock\'s beat/second map (tempo '
              'setter, etempo, beats setter) wakes the sleeping clock thread exactly once in real time - so that the '
              'deadline computed from the OLD map is recomputed and a pending task runs when the non-real-time run '
              'executes it - and notifies nothing in non-real time.'),
  level_note='Relational over two configurations and over schedules: bounded only (42 programs quick, 306 thorough).',
  unreached=['the RT side for all schedules'])

P('C11', claimed=True, level='other',
  contracts=['base_stream', 'base_condition', 'base_clock_stop', 'base_stream_more'], drivers=['vf.drivers.C11'],
  level_text=('Frame conditions of Routine.next are discharged for every outcome of the body (yield, '
              'return, StopStream, YieldAndReset, AlwaysYield, other exceptions): the current time '
              'thread is restored, the parent link cleared, the state is the documented one; the guard '
              'table of pause/resume/stop/reset is proved; thread_player is a pure lookup along the parent '
              'chain. Condition.wait (generator body: raises outside a routine before yielding; else exactly one '
              'yield - \'hang\' after queueing the thread player when the test is false, 0 and nothing queued when '
              'it holds), Condition.signal/unhang (waiting list swapped for a new empty one BEFORE rescheduling; '
              'every waiter scheduled exactly once with delta 0 on its own clock, in order; nothing when the test '
              'is false), FlowVar.value setter (refuses a second binding without side effect; binds first, then '
              'signals once) and getter (waits on its own condition, returns the value as it is after the wait; '
              'the field is havoc\'d across the suspension). All operation sequences of length <= 5 over '
              '11 body kinds, and Condition/FlowVar scenarios, are checked against a reference state '
              'machine (bounded).'),
  level_note=('The body is an uninterpreted call with the documented outcomes (rely: nested routines '
              'restore the thread they found). In the Condition contracts `tt._clock.sched(0, tt)` is a ghost event '
              '(what sched does is C05/C08), the lock an opaque context manager, the test a boolean (a callable test '
              'is exercised by the bounded driver).'))

P('C12', claimed=True, level='proof',
  contracts=['base_clock'], drivers=['vf.drivers.C12'],
  level_text=('Every clause of the statement is a discharged obligation over the real TempoClock methods: the '
              'reciprocal/meter class invariants are established by __init__ and preserved by tempo=, etempo, '
              'beats=, beats_per_bar= (so they hold after any history); there-and-back identities, continuity of '
              'the (beats, seconds) pair and advance at the new tempo are two-call theorems stated with API calls '
              'only (ghost lemma functions whose callees are the real bodies inlined from /repo); '
              'next_time_on_grid is proved not-before-reference, below reference+quant and congruent to phase; '
              'play(quant) schedules exactly one task exactly there; bar conversions inverse, next_bar a bar '
              'line not before the beat. A bounded driver replays random setter histories in NRT with an exact '
              'rational reference.'),
  level_note=('Assumes floats are reals (IEEE rounding ignored: the bounded driver measures the float error), '
              'clock running state and rt/nrt mode as ghost booleans, NotificationCenter.notify and _sched_add as '
              'opaque trace events, bi.mod/bi.roundup inlined from builtins.py. Trusted: z3.'),
  technique='contract-based deductive verification: class invariants + two-call lemma functions over the real method bodies, z3')

P('C13', claimed=True, level='other',
  contracts=['seq_valuepatterns', 'seq_listpatterns', 'seq_filterpatterns', 'seq_oppatterns', 'seq_eventpatterns', 'seq_morepatterns', 'seq_morefilters', 'base_streamconv', 'seq_patternstreams', 'seq_randompatterns'], drivers=['vf.drivers.C13'],
  level_text=('Generator bodies under contract with `yield` / `yield from` as ghost trace events and per-pass '
              'obligations (the inductive step of the denotation): Pseries/Pgeom (first value = start, each '
              'pass draws the step once, yields the current value, next = current (+|*) step, quiet end on '
              'exhaustion); Pseq (one repetition = items from offset to the end, then the items before it, each '
              'embedded once with the threaded input value) and Pser (pass i embeds lst[(i + offset) mod size]); '
              'Pdrop (exactly n values drawn and not yielded, then one draw = one yield), Pswitch / Pswitch1 (one index per pass, '
              'the item - or the once-made stream of the item - at index mod size), Pslide (segment length and step drawn once per '
              'segment, indices pos + j wrapped or confined to the list) and Place (sub-lists interlaced by repetition number); '
              'the event patterns: Pbind (every pass a COPY of the input event is updated with ONE value per key stream, drawn in '
              'dictionary order with the event built so far as input, and yielded; streams made once; None input and an '
              'ended key stream end it quietly), Pchain (a copy of the input through the streams from last pattern to first), '
              'Pevent (its own event, not the input), Pkey (the input event\'s value under the key drawn; missing key ends '
              'it quietly); Pn (same pattern every pass; with a key: the event is marked before it goes down and unmarked at the end); Plen (one draw per pass, exactly that value yielded, quiet end); '
              'Pconst (running sum grows by exactly the yielded value, last value = total - running sum in both '
              'endings; telescoping lemma: the values add up to the total); Pstutter (one value and one count '
              'per outer pass, a copy of that value per inner pass); Pcollect (func(value, input) yielded), '
              'Pselect/Preject (the value itself yielded iff the function says True/False, nothing otherwise), '
              'Pwhile (one embed per pass while the test holds), Pclump (a NEW list per pass before anything is '
              'drawn, filled with exactly the values of this pass, the remainder of the last pass yielded iff '
              'non-empty, never an earlier list again); the operator patterns Punop/Pbinop/Pnarop (operand streams '
              'made anew by every __stream__/__embed__, one value per operand per pass). Every other pattern is decided by run-time '
              'contracts: all pattern expressions of depth <= 2 over 27 constructors and ~100k seeded random '
              'deeper ones are streamed and compared with an independent compositional list semantics; '
              'immutability and seeded determinism/support of random patterns are contracts of their own.'),
  level_note='Bounded: first 64 items; corners the documentation leaves open are left unspecified and listed in notes.')

P('C14', claimed=True, level='other', contracts=['seq_event_keys', 'seq_ppar', 'seq_eventpatterns', 'seq_patternstreams'], drivers=['vf.drivers.C14'],
  level_text=('The key chains are under contract (pyvc, all numeric values, any scale/tuning as uninterpreted '
              'degree_to_key / spo / octave_ratio): EventDict.__call__ (given value, else key function called '
              'with the event, else default) and every chain function of PitchKeys, DurationKeys and '
              'AmplitudeKeys equals the documented chain written as a spec function, with the documented '
              'precedence between source keys; NoteEvent.play sends exactly one /s_new bundle at the server latency '
              'with the instrument name, ONE fresh node id, the add action number, the target group and the message '
              'parameters, then - iff the event sends a gate - one gate-off bundle for the same node at latency + '
              'sustain, and marks the event playing; ServerKeys._get_msg_params yields (name, the event\'s value) for '
              'exactly the controls of the description that the event defines (cached parameters reused unless '
              'playing, defaults without a description, gate dropped iff gated and not kept); the player step '
              'EventStreamPlayer._play_and_delta plays once iff not muted and not a rest and returns the delta as a '
              'number; Ppar.__embed__ keeps every child on its own timeline (re-queued at now + its own delta), '
              'replaces the yielded event\'s delta by the time until the next event of any child, inserts a rest of '
              'exactly that length when a child ends, and moves its clock to that time in both cases (loop '
              'invariant over the abstract queue of C09). The mono events of Pmono: _prepare_event takes ONE fresh node id '
              'from the resolved server (detuned frequency in place before the parameters are taken), _mono_on sends one '
              '/s_new bundle at the latency for that PREPARED id, _mono_set one /n_set bundle for the same node with '
              '(name, resolved value) per mono parameter in order (loop invariant), _mono_off a gate-off (/n_set id gate '
              'value) or /n_free for the same node at latency + delay; Pmono._embed_mono: the first event is a _mono_on prepared '
              'with the instrument and a _mono_off carrying its kept keys is registered for clean-up, every later event is a '
              '_mono_set given the SAME server, node id and parameter names, and when a key stream ends the clean-up runs once '
              '(loop invariant over a ghost "node exists" state). Bounded: key resolution compared with the documented chains '
              'for all key subsets x 3 values x 3 scales on the real Scale/Tuning classes; played events and '
              'event stream players checked on the NRT score (one /s_new at logical time + latency with fresh '
              'id and the defined controls, gate-off at + sustain iff gated, rests send nothing, timelines of '
              'Pbind/Pmono/Ppar/Pchain/Pdur compositions).'),
  level_note=('Assumed: midicps/cpsmidi/log2/dbamp/ampdb as uninterpreted functions (C15 covers them), floats '
              'as reals, the event abstracted to has/own/resolved values per key with the lookup contract as '
              'axiom. In the play/parameter contracts key resolution, conversions and the server address are ghost '
              'calls. The generator loop of the stream player, Ppar/Pdur timelines and the score are bounded only. '
              'Modifier-only events are left unspecified.'))

P('C15', claimed=True, level='other',
  contracts=['base_builtins', 'base_builtins_wrappers', 'synth_specialindex', 'seq_oppatterns', 'base_opstreams', 'synth_newunit'], drivers=['vf.drivers.C15'],
  level_text=('Numeric range/inverse laws of mod, div, wrap, fold, clip, round, roundup, trunc and the '
              'midi/cps, ratio/midi, oct/cps, amp/db pairs are postconditions on the real kernels and are '
              'discharged for all int/float arguments (one case per type assignment; floats as reals); the '
              'opcode tables and the selector each operator method passes are exhaustive finite obligations. '
              'Lifting over streams and functions: UnopStream/BinopStream/NaropStream.next draw ONE value from every operand stream in '
              'operand order with the same input and return the selector of exactly those values (an exhausted operand ends it, '
              'nothing computed), reset resets every operand; UnopFunction/BinopFunction.__call__ call every callable operand once '
              'with exactly the caller\'s positional and keyword arguments (a value stands for itself) and apply the selector in order. '
              'Lifting over patterns: Punop/Pbinop/Pnarop store their operands as given (no stream is made at '
              'construction), __stream__ makes NEW operand streams in the call and hands them in operand order to '
              'the operator stream, and __embed__ (Punop, Pnarop) draws one value from every operand stream per '
              'pass, each with the pass\'s input value, and yields the selector applied to exactly those values, '
              'ending quietly with the first exhausted operand. Lifting over functions/streams/lists/operands and '
              'the values themselves are decided by a bounded run-time '
              'contract driver (all 127 operator methods x operand kinds x forced samples).'),
  level_note=('Trusted: z3/cvc5; floats treated as reals; decimal literals exact; axioms log2(2^y)=y, '
              '2^(log2 x)=x for x>0 (and base 10); scbuiltin wrappers transparent on plain numbers. '
              'Bounded part: sampled operands, 1e-9/1e-12 tolerances on non-dyadic floats.'))

P('C16', claimed=True, level='other',
  contracts=['synth_engine', 'synth_server_alloc'], drivers=['vf.drivers.C16'],
  level_text=('Node ids: alloc returns counter | client bits inside the client range, the counter '
              'advances cyclically (through the proved contract of bi.wrap), and a lemma by induction '
              'over that contract shows that a full window of consecutive ids is pairwise distinct and '
              'client ranges are disjoint. Block arithmetic (adjoins/join/split) is proved, and of the allocator: '
              '_find_next (entry right after the block at addr, else the first non-empty slot above addr up to '
              'the high-water mark, None beyond the table) and _find_previous (nearest non-empty slot below addr '
              'inside the partition) with quantified loop invariants over an uninterpreted block table, and '
              '_split (first n slots and the rest entered in the table, free lists and high-water mark), '
              '_find_available (an exact-size freed block, else a larger freed one, else the untouched area at '
              'the high-water mark, "no space" only when that is too small or in use) and free (no effect unless '
              'the address holds a used block; released and booked; the block joined with a free previous '
              'neighbour is the one carried into the search for and the join with the next neighbour), __init__ '
              '(one free block over the partition above the reserved numbers), alloc (no space iff nothing found, '
              'else the found block reserved from its start for n), _reserve (gap below the address stays free, '
              'exactly the range [addr, addr+size) marked in use, every split inside its block) and the two '
              'free-list operations. The '
              'ContiguousBlockAllocator as a whole is checked against an interval-set model over ALL '
              'histories of length <= 7 and ALL internal tie-breaks (bounded, exhaustive small scope), '
              'plus bus/buffer objects per client.'),
  level_note=('The allocator invariant ties an index array, a dict of sets and two cursors: every method except reserve '
              '(no caller in the library) is under contract, but the GLOBAL invariant over histories (no two live ranges overlap) is bounded only; in the contracts of its parts the table is an uninterpreted array and the '
              'free lists are ghost events. Bit operations modelled arithmetically with a disjointness side condition.'))

P('C17', claimed=True, level='other', contracts=['base_netaddr_bind', 'synth_node_cmds', 'synth_bus_cmds', 'synth_buffer_cmds', 'synth_node_ctors'], drivers=['vf.drivers.C17'],
  level_text=('Discharged (pyvc, all ids/flags): BundleNetAddr.__exit__ sends the collected bundle iff the block did '
              'not raise (any exception class); the straight-line node commands send exactly the reference '
              'command once, through the object\'s own server address, with its own node id (and the target\'s), '
              'and change nothing of the object but the listed field: Node.free/run/trace/move_before/move_after/'
              'move_to_head/move_to_tail, AbstractGroup._move_node_to_head/_tail/free_all/deep_free/dump_tree; the '
              'sending constructors AbstractGroup.__init__ and Synth.__init__ take ONE fresh id from the target\'s '
              'server, join the right group (target for head/tail, the target\'s group otherwise) and send one '
              'creation command in the reference order (creation_cmd | /s_new name, id, add action, target id, args); '
              'Buffer.free returns the number to the allocator once, evaluates the completion with the still-valid '
              'buffer, sends one /b_free number completion and wipes the object - a second free does nothing; '
              'Server._free_all_buffers puts one /b_free per number of EVERY allocated block (nested loop invariants, '
              'any number of blocks of any size) into one bundle and returns every block. '
              'The commands with converted argument lists: Node.set/map/mapa/fill (one message, own id, then exactly the '
              'conversion of the arguments given), Node.release (gate 0 | -1 | -(time+1) on the own id, bundled at the '
              'server latency), Node.query, Synth.get/getn, ControlBus.get/getn, Buffer.get/getn/query (the one-shot '
              'responder for the reply - from the object\'s own server, filtered by its id and the index asked for - is '
              'set up BEFORE the one request goes out; the reply handler, executed symbolically, hands item 3 / items '
              '4.. / the whole reply to the caller\'s action), ControlBus.setn/setn_at/fill and 17 Buffer commands '
              '(table-driven: reference command, own number first, the given values in the reference order, completion '
              'message evaluated once with the buffer, generators with their action responder first); a freed bus or '
              'buffer refuses with its exception and sends nothing. '
              'Bounded: every message emitted at the single OSC choke point during histories of client-object '
              'operations is checked against grammars written from the Server Command Reference, for '
              'ownership of the ids it mentions, creation/free pairing and bind() atomicity.'),
  level_note=('Bounded: ~38k histories quick. Still bounded only: the emitters that build their argument list in a '
              'loop or comprehension (setn, seti, mapn/mapan, bus set/set_at/set_pairs, Buffer.write/setn and the list '
              'transfers) and what the argument conversions produce. In the node command contracts sending is a ghost trace event (encoding is C06/C07).'),
  unreached=['what a real server does with the commands'])

P('C18', claimed=True, level='other',
  contracts=['base_osclib_parse', 'base_responders', 'base_sysactions', 'base_notifications', 'base_oscrecv'], drivers=['vf.drivers.C18'],
  level_text=('Discharged: the message decoder OscMessage._parse_datagram (address read at 0, tag string where it ended, and '
              'for EVERY tag character the decoder of that type called once at the current position, the position moved to '
              'where it says, the value appended to the innermost open list; T/F, array brackets with a ghost depth, unknown '
              'tags skipped; every opened array closed at the end), progress of the bundle parser (every iteration consumes 4 + size bytes with size >= 0, '
              'or raises; elements adjacent, each parsed once as what it starts like and kept), the index laws of get_int/get_timetag/get_blob, and who fires: the sender filter '
              '(same host and any-or-same port), the receiving-port filter, their conjunction, the argument '
              'template filter (enough arguments and every template item accepts: None anything, a callable by its '
              'truth value, else equality; quantified loop invariant) - each fires exactly once with the four '
              'values unchanged iff its condition holds - and the exact-address dispatcher (every function '
              'registered for the address once, in order; nobody for an unknown address), the pattern dispatcher '
              '(EVERY registered address is matched against the incoming pattern in this very call, and its functions '
              'fire - each once, in order, unchanged values - iff the matcher says yes: nested loop invariants plus '
              '"loop not left early"), the registry operations add / remove / update_func_for_func_proxy (the wrapped '
              'function enters or leaves its key, the key disappears iff its list became empty, (un)registration iff '
              'needed, an updated function takes the OLD one\'s place in the firing order) and the responder life '
              'cycle (one_shot: the installed function - executed symbolically - frees the responder BEFORE calling '
              'the original with the same values; func setter, enable, disable, free), and the callback registries: '
              'SystemAction / StartUp / CmdPeriod run (every action of ONE snapshot of the registry, in its order, once through '
              '_do_action, which calls an action that is STILL registered once with its registered arguments), add / remove / '
              'StartUp.defer, ServerAction.run (the server\'s group, then \'default\' for the default server, then \'all\'; each '
              'from a snapshot, each action once with (server, *args, **kwargs)) and add / remove / remove_server, '
              'NotificationCenter.notify (every (listener, action) of a snapshot of the table of (obj, msg), once, with ITS '
              'listener), register, unregister (exactly the named level) and registration_exists; the receive entry point '
              '_handle_request (nothing is raised into the receiver; parsed once; every message of the packet dispatched once in order '
              'with its own time, address and parameters; a datagram that does not parse dispatches nothing). Pattern matching itself is '
              'compared with an independent '
              'OSC 1.0 matcher for ALL pattern/address pairs up to length 4/4 (exhaustive small scope); '
              'dispatch and registries are checked on all histories of length <= 4 against a reference '
              'model; the receive entry point is fuzzed under a watchdog.'),
  level_note=('re is an external engine (pattern translation and matching: bounded); in the registry contracts the '
              'dictionaries of lists are ghost objects with one key per proxy (multi-step add/remove/enable histories: '
              'bounded). In the filter contracts equality of dynamic values is '
              'equality of the abstract values. Decoder leniencies inherited from python-osc are recorded as known '
              'findings.'))

P('C19', claimed=True, level='other',
  contracts=['synth_envelope', 'base_utils', 'synth_envctors'], drivers=['vf.drivers.C19'],
  level_text=('Discharged: the shape-name table and curve values (exhaustive finite obligations on the real '
              'Env._shape_number/_curve_value); the array layout of Env._envgen_format for any number of segments '
              '(initial level, segment count = len(times), release and loop node or -99 when the conversion gives '
              'None, then per segment exactly target level i+1, duration i, shape number and curvature of '
              'curves[i mod len(curves)], in this order; loop invariant over the appended values, shape/curvature '
              'as pure uninterpreted functions so that hoisting or caching them is not an alarm); client-side '
              'evaluation Env._env_at: the value comes from THE segment whose time span [sum of the first p durations, '
              '+ duration p) contains the time (ghost cumulative-time function, loop invariant) - between its two '
              'breakpoint levels on the linear/step/hold shapes, the breakpoint level at a breakpoint - and the last '
              'level is held only at or after the last breakpoint; the wrap law of utils.wrap_extend used for times; eight of the '
              'standard constructors (triangle, sine, perc, linen, cutoff, asr, adsr, dadsr: exactly the documented level list, '
              'time list, curve and release node, built from the caller\'s parameters). Bounded, against an independent Env '
              'reference: the eleven constructors, all shapes incl. the transcendental ones on dense time grids, '
              'per-channel levels/times/curves, offsets, and the EnvGen inputs in definition bytes.'),
  level_note=('In the _envgen_format contract the conversions by ugen_param are opaque (levels/times/curves as '
              'converted are arbitrary sequences with len(levels) = len(times) + 1) and utl.flop is an opaque call '
              '(per-channel expansion is bounded only: 20k formats in quick). Transcendental shapes bounded only '
              '(2.5k envelopes x dense time grids). Betweenness tolerance 1e-9 (1e-5 with cubed segments).'),
  technique='contract-based deductive verification of Env._envgen_format/_env_at/wrap_extend (pyvc, z3) + exhaustive table obligations + bounded run-time contracts against an independent Env reference')

P('C20', claimed=True, needs_driver=True, level='other',
  contracts=['synth_synthdef', 'synth_buildcontrols'], drivers=['vf.drivers.C20'],
  level_text=('SynthDef._build is proved to leave the build context clear and the lock released on every '
              'outcome of its three phases (frame condition over try/except and with); a static '
              'obligation lists every iteration over a set-typed value in synthdef.py/ugen.py and '
              'requires it not to reach the output order; _init_build starts every build from empty tables of its own; '
              'a new unit (SynthObject / OutputProxy / WidthFirstUGen._add_to_synth) belongs to EXACTLY the build context '
              'of the moment - to no definition outside a build - and registers once iff there is one. Byte equality across repeated, interleaved, '
              'failing, concurrent, cross-mode and cross-hash-seed builds is a bounded run-time contract.'),
  level_note='All hash seeds / all thread schedules are sampled only.',
  unreached=['all PYTHONHASHSEED values', 'all thread schedules'])

# contract modules that do not exist yet are dropped at import time (the
# property then rests on its bounded driver and says so in the evidence)
import importlib.util as _u
import os as _os
for _p in PROPS.values():
    _p['contracts'] = [m for m in _p['contracts'] if _os.path.exists(
        _os.path.join(_os.path.dirname(__file__), 'contracts', m + '.py'))]
    _p['drivers'] = [d for d in _p['drivers'] if _os.path.exists(
        _os.path.join(_os.path.dirname(_os.path.dirname(__file__)), *d.split('.')) + '.py')]
