"""pyvc driver: generate VCs for every contract serving a property, discharge
them (z3, then cvc5 for z3's unknowns), replay counter-models natively.
"""
import importlib
import json
import multiprocessing as mp
import os
import pkgutil
import subprocess
import sys
import tempfile
import time
import traceback
from fractions import Fraction

import z3

from ..common import VERIF, REPO
from .values import *
from . import values as VV
from .engine import Engine, Module, St, Unsupported, Raised
from . import spec as S
from . import lib

QUICK_MS = 10000
THOROUGH_MS = 60000


def load_contracts(modnames):
    for m in modnames:
        importlib.import_module('vf.contracts.' + m)
    return S.REGISTRY


# ----------------------------------------------------------------------------
def run_case(key, case_idx, tier, seed):
    """Worker: symbolic execution + discharge of one (function, type case)."""
    t0 = time.time()
    c = S.REGISTRY[key]
    case = c.cases()[case_idx]
    cname = c.case_name(case)
    out = {'key': key, 'case': cname, 'clauses': [], 'status': 'ok',
           'paths': 0, 'inlined': [], 'assumed': [], 'opaque': [],
           'trusted': []}
    Module.cache.clear()
    try:
        eng = Engine(REPO, c, S.REGISTRY, case)
        try:
            fdef, clsname = eng.mod.find(c.qual)
        except KeyError:
            # the function the contract is stated on is not in this tree any more (renamed, moved,
            # merged into another one): nothing of it can be decided here - reported like any
            # function outside the subset, the bounded part of the check still runs
            out['status'] = 'out-of-subset'
            out['why'] = 'function %s is not in %s any more' % (c.qual.split('#')[0], c.file)
            out['wall_ms'] = 0
            return out
        eng.cur_cls = clsname
        eng.number_loops(fdef)
        st = St()
        params = {}
        for pname, kind in case.items():
            if kind == 'self':
                params[pname] = V('ref', cls=clsname, oid=pname)
            elif kind == 'cls':
                params[pname] = V('class', py=clsname)
            else:
                params[pname] = eng.sym_of_kind(kind, pname)
        eng.entry_params = dict(params)
        for pv in params.values():
            if isinstance(pv, V) and pv.extra and 'facts' in pv.extra:
                st.pc.extend(pv.extra['facts'])
        if c.setup:
            c.setup(eng, st, params)
        st.env = dict(params)
        c0 = eng.make_ctx(st)
        if c.requires is not None:
            st.pc.append(c.requires(c0))
        # vacuity: precondition must be satisfiable
        if not eng.feasible(st):
            out['status'] = 'vacuous-precondition'
            return out
        eng.local_stack.append(eng.locals_of(fdef))
        outcomes = eng.exec_block(fdef.body, st)
        out['paths'] = len(outcomes)
        n_norm = 0
        for o in outcomes:
            kind, st1 = o[0], o[1]
            if kind in ('next', 'ret'):
                n_norm += 1
                res = o[2] if kind == 'ret' else NONE
                ctx = eng.make_ctx(st1, result=res)
                for name, cl in c.ensures:
                    eng.oblige(st1, 'ensures[%s]' % name, 'ensures', cl(ctx), fdef)
                for ecls, cond in c.raises.items():
                    if cond is not None:
                        eng.oblige(st1, 'raises-iff[%s]' % ecls, 'raises-iff',
                                   z3.Not(cond(c0)), fdef)
                for name, cl in c.on_any_exit:
                    eng.oblige(st1, 'exit[%s]' % name, 'exit', cl(ctx), fdef)
                eng.oblige(st1, 'must-fail', 'mustfail', z3.BoolVal(False), fdef)
                frame_obls(eng, c, st1, ctx)
            elif kind == 'raise':
                exc = o[2]
                ctx = eng.make_ctx(st1, exc=exc)
                ecls = exc.cls
                matched = None
                for k in c.raises:
                    if eng.is_subclass(ecls, k):
                        matched = k
                        break
                if matched is None:
                    if not any(eng.is_subclass(ecls, a) for a in c.allow_unexpected):
                        eng.oblige(st1, 'no-unexpected-exception', 'no-exc',
                                   z3.BoolVal(False), fdef,
                                   info={'exception': ecls, 'line': (exc.extra or {}).get('line')})
                elif c.raises[matched] is not None:
                    eng.oblige(st1, 'raises-only-if[%s]' % matched, 'raises-only-if',
                               c.raises[matched](c0), fdef)
                for name, cl in c.on_raise:
                    eng.oblige(st1, 'on-raise[%s]' % name, 'on-raise', cl(ctx), fdef)
                for name, cl in c.on_any_exit:
                    eng.oblige(st1, 'exit[%s]' % name, 'exit', cl(ctx), fdef)
            else:
                raise Unsupported(fdef, 'outcome %s escaped' % kind)
        out['inlined'] = sorted(eng.inlined)
        out['assumed'] = sorted(eng.assumed_contracts)
        out['opaque'] = sorted(eng.opaque_calls)
        out['trusted'] = sorted(lib.TRUSTED)
        out['clauses'] = discharge_all(eng, c, case, tier, seed)
        out['normal_paths'] = n_norm
    except Unsupported as e:
        out['status'] = 'out-of-subset'
        out['why'] = str(e)
    except Exception as e:
        tb = traceback.extract_tb(e.__traceback__)
        if tb and '/vf/contracts/' in tb[-1].filename:
            # the exception comes out of the contract's own model (a hook or policy meeting code it
            # was not written for): the model does not cover this source - undecided, like any
            # function outside the subset; an exception inside the engine stays a checker error
            out['status'] = 'out-of-subset'
            out['why'] = 'the contract model does not cover this code (%s in %s:%d: %s)' % (
                type(e).__name__, os.path.basename(tb[-1].filename), tb[-1].lineno, str(e)[:120])
        else:
            out['status'] = 'engine-error'
            out['why'] = traceback.format_exc()[-1500:]
    out['wall_ms'] = int((time.time() - t0) * 1000)
    return out


def frame_obls(eng, c, st, ctx):
    if c.modifies is None:
        return
    allowed = set()
    for (pname, field) in c.modifies:
        if pname == 'main':
            allowed.add(('main', field))
            continue
        if pname.startswith('cls:'):
            allowed.add((pname, field))
            continue
        ref = eng.entry_params.get(pname)
        if ref is None:
            continue
        oid = ref.oid if ref.k == 'ref' else 'cls:' + ref.py
        allowed.add((oid, field))
    for (oid, field) in sorted(st.ghost.get('written', set())):
        if (oid, field) in allowed:
            continue
        if oid.startswith('new!'):
            continue        # objects created by this call
        cls = None
        for p, v in eng.entry_params.items():
            if isinstance(v, V) and ((v.k == 'ref' and v.oid == oid) or
                                     (v.k == 'class' and 'cls:' + v.py == oid)):
                cls = v.cls if v.k == 'ref' else v.py
        if oid == 'main':
            cls = 'Main'
        if oid.startswith('cls:'):
            cls = oid[4:]
        if cls is None or c.field_kind(cls, field) is None:
            # a field the contract does not know (a new cache, say): outside the
            # frame the contract speaks about, not an obligation
            continue
        pre = eng.field_sym(oid, cls, field, None)
        post = st.objs[oid][field]
        try:
            eq = eng.compare(__import__('ast').Eq(), pre, post, st, None)
        except Unsupported:
            eq = z3.BoolVal(False)
        eng.oblige(st, 'frame[%s.%s]' % (oid, field), 'frame', eq, None)


def model_value(m, term):
    v = m.eval(term, model_completion=True)
    if z3.is_int_value(v):
        return v.as_long()
    if z3.is_rational_value(v):
        return Fraction(v.numerator_as_long(), v.denominator_as_long())
    if z3.is_true(v):
        return True
    if z3.is_false(v):
        return False
    if z3.is_algebraic_value(v):
        a = v.approx(20)
        return Fraction(a.numerator_as_long(), a.denominator_as_long())
    return str(v)


def solve(eng, ob, timeout_ms, seed, want_model=True, axioms=True):
    s = z3.Solver()
    s.set('timeout', timeout_ms)
    s.set('random_seed', seed % 1000)
    for a in (eng.axioms if axioms else []):
        s.add(a)
    for p in ob.pc:
        s.add(p)
    s.add(z3.Not(ob.goal))
    t0 = time.time()
    r = s.check()
    ms = int((time.time() - t0) * 1000)
    if r == z3.unsat:
        return 'unsat', 'z3', ms, None
    if r == z3.sat:
        return 'sat', 'z3', ms, s.model()
    # z3 unknown -> cvc5
    try:
        smt = '(set-logic ALL)\n' + s.to_smt2()
        fd, path = tempfile.mkstemp(suffix='.smt2', dir=os.path.join(VERIF, '.work'))
        with os.fdopen(fd, 'w') as f:
            f.write(smt)
        t1 = time.time()
        p = subprocess.run(['/usr/bin/cvc5', '--lang=smt2',
                            '--tlimit=%d' % timeout_ms, path],
                           capture_output=True, text=True, timeout=timeout_ms / 1000 + 5)
        ms2 = int((time.time() - t1) * 1000)
        os.unlink(path)
        ans = p.stdout.strip().split('\n')[0] if p.stdout.strip() else ''
        if ans == 'unsat':
            return 'unsat', 'cvc5', ms + ms2, None
        if ans == 'sat':
            return 'sat', 'cvc5', ms + ms2, None
    except Exception:
        pass
    return 'unknown', 'z3+cvc5', ms, None


def _has_quant(t, depth=0):
    if z3.is_quantifier(t):
        return True
    if depth > 60:
        return False
    return any(_has_quant(ch, depth + 1) for ch in t.children())


class Obligation_qf:
    def __init__(self, ob):
        self.pc = [p for p in ob.pc if not _has_quant(p)]
        self.goal = ob.goal


def discharge_all(eng, c, case, tier, seed):
    tmo = QUICK_MS if tier == 'quick' else THOROUGH_MS
    tmo = c.opts.get('timeout_ms', tmo)
    by = {}
    for ob in eng.obls:
        by.setdefault((ob.name, ob.kind), []).append(ob)
    res = []
    for (name, kind), obs in by.items():
        agg = {'clause': name, 'kind': kind, 'paths': len(obs), 'result': 'unsat',
               'backend': 'z3', 'ms': 0}
        backends = set()
        for ob in obs:
            if kind == 'mustfail':
                # at least one normal path must be reachable: sat expected
                if any(_has_quant(p_) for p_ in ob.pc):
                    r, be, ms, m = solve(eng, Obligation_qf(ob), min(tmo, 5000), seed, axioms=False)
                else:
                    r, be, ms, m = solve(eng, ob, min(tmo, 5000), seed)
                if r == 'unknown':
                    # quantified (trusted) axioms make sat answers hard: the
                    # reachability check does not need them
                    r, be, ms, m = solve(eng, ob, min(tmo, 5000), seed, axioms=False)
                if r == 'unknown':
                    # quantified path facts (rep invariants): check reachability
                    # of the quantifier-free part of the path condition
                    ob2 = Obligation_qf(ob)
                    r, be, ms, m = solve(eng, ob2, min(tmo, 5000), seed, axioms=False)
                agg['ms'] += ms
                backends.add(be)
                if r == 'sat':
                    agg['result'] = 'sat-as-required'
                    break
                agg['result'] = 'unsat' if r == 'unsat' else 'unknown'
                continue
            r, be, ms, m = solve(eng, ob, tmo, seed)
            agg['ms'] += ms
            backends.add(be)
            if r == 'sat':
                agg['result'] = 'sat'
                agg['line'] = ob.line
                agg['info'] = ob.info
                m2 = nice_model(eng, c, ob, seed)
                if m2 is not None:
                    agg['model'] = extract_model(eng, c, case, m2)
                    agg['model_exact_in_floats'] = True
                elif m is not None:
                    agg['model'] = extract_model(eng, c, case, m)
                    agg['model_exact_in_floats'] = not has_real(eng, c)
                agg['goal'] = str(z3.simplify(ob.goal))[:400]
                break
            if r == 'unknown' and agg['result'] == 'unsat':
                agg['result'] = 'unknown'
        agg['backend'] = '+'.join(sorted(backends))
        res.append(agg)
    return res


def real_terms(eng, c):
    ts, ints = [], []
    for pname, v in eng.entry_params.items():
        if isinstance(v, V) and v.k == 'real':
            ts.append(v.z)
        elif isinstance(v, V) and v.k == 'int':
            ints.append(v.z)
        elif isinstance(v, V) and v.k in ('ref', 'class'):
            cls = v.cls if v.k == 'ref' else v.py
            oid = v.oid if v.k == 'ref' else 'cls:' + v.py
            for f, kind in c.fields.get(cls, {}).items():
                if kind == 'real':
                    ts.append(eng.sym_of_kind(kind, '%s.%s' % (oid, f)).z)
                elif kind == 'int':
                    ints.append(eng.sym_of_kind(kind, '%s.%s' % (oid, f)).z)
    if 'Main' in c.fields:
        for f, kind in c.fields['Main'].items():
            if kind == 'real':
                ts.append(eng.sym_of_kind(kind, 'main.%s' % f).z)
    if 'TimeThread' in c.fields:
        for f, kind in c.fields['TimeThread'].items():
            if kind == 'real':
                ts.append(eng.sym_of_kind(kind, 'main.current_tt.%s' % f).z)
    return ts, ints


def has_real(eng, c):
    return bool(real_terms(eng, c)[0])


def nice_model(eng, c, ob, seed):
    """A counter-model whose reals are small dyadic rationals, so that the
    float arguments of the native replay are exactly the model's values."""
    ts, ints = real_terms(eng, c)
    s = z3.Solver()
    s.set('timeout', 5000)
    s.set('random_seed', seed % 1000)
    for a in eng.axioms:
        s.add(a)
    for p in ob.pc:
        s.add(p)
    s.add(z3.Not(ob.goal))
    for i, t in enumerate(ts):
        n = z3.Int('nice!%d' % i)
        s.add(t * 8 == z3.ToReal(n), n >= -80000, n <= 80000)
    for t in ints:
        s.add(t >= -10 ** 6, t <= 10 ** 6)
    if s.check() == z3.sat:
        return s.model()
    return None


def extract_model(eng, c, case, m):
    vals = {}
    for pname, v in eng.entry_params.items():
        if isinstance(v, V) and v.k in ('int', 'real', 'bool'):
            vals[pname] = model_value(m, v.z)
        elif isinstance(v, V) and v.k == 'str' and v.py is None:
            vals[pname] = {'__str__': {'chars': model_value(m, v.extra['chars']),
                                       'u8': model_value(m, v.extra['u8']),
                                       'has_nul': model_value(m, v.extra['has_nul'])}}
        elif isinstance(v, V) and v.k == 'bytes' and v.py is None:
            vals[pname] = {'__bytes__': {'len': model_value(m, v.extra['len']),
                                         'has_nul': model_value(m, v.extra['has_nul'])}}
        elif isinstance(v, V) and v.k in ('ref', 'class'):
            cls = v.cls if v.k == 'ref' else v.py
            oid = v.oid if v.k == 'ref' else 'cls:' + v.py
            fv = {}
            for f, kind in c.fields.get(cls, {}).items():
                if kind in ('int', 'real', 'bool'):
                    fv[f] = model_value(m, eng.sym_of_kind(kind, '%s.%s' % (oid, f)).z)
            vals[pname] = {'__fields__': fv, '__class__': cls}
    # ghost booleans/ints of parameters (names '<oid>.__x') and other ghosts
    ghost = {}
    for d in m.decls():
        nm = d.name()
        if '.__' in nm and d.arity() == 0:
            oid, g = nm.split('.__', 1)
            val = model_value(m, d())
            if oid in vals and isinstance(vals[oid], dict):
                vals[oid]['__fields__']['__' + g] = val
        elif nm.endswith('.is_self') and d.arity() == 0:
            ghost[nm] = model_value(m, d())
    if ghost:
        vals['@ghost'] = ghost
    # identity of the current time thread: is it the main thread in this model?
    mf = c.fields.get('Main', {})
    if str(mf.get('current_tt', '')).startswith('aref:') and str(mf.get('main_tt', '')).startswith('aref:'):
        try:
            a = z3.Const('main.current_tt#id', VV.Any)
            b = z3.Const('main.main_tt#id', VV.Any)
            vals['@current_is_main_tt'] = bool(z3.is_true(m.eval(a == b, model_completion=True)))
        except Exception:
            pass
    if 'TimeThread' in c.fields:
        fv = {}
        for f, kind in c.fields['TimeThread'].items():
            if kind in ('int', 'real', 'bool'):
                fv[f] = model_value(m, eng.sym_of_kind(kind, 'main.current_tt.%s' % f).z)
        vals['@main.current_tt'] = fv
    # class-level fields (singleton classes such as SystemClock)
    for cname, fl in c.fields.items():
        if cname in c.class_modules and cname not in [v.cls for v in eng.entry_params.values()
                                                      if isinstance(v, V) and v.k == 'ref']:
            fv = {}
            for f, kind in fl.items():
                if kind in ('int', 'real', 'bool'):
                    nm = 'cls:%s.%s' % (cname, f)
                    if any(d.name() == nm for d in m.decls()):
                        fv[f] = model_value(m, eng.sym_of_kind(kind, nm).z)
            if fv:
                vals['@cls:' + cname] = fv
    # global singleton fields
    for gcls, oid in (('Main', 'main'),):
        if gcls in c.fields:
            fv = {}
            for f, kind in c.fields[gcls].items():
                if kind in ('int', 'real', 'bool'):
                    fv[f] = model_value(m, eng.sym_of_kind(kind, '%s.%s' % (oid, f)).z)
            vals['@' + oid] = fv
    return vals


# ----------------------------------------------------------------------------
def py_value(x, kind):
    if isinstance(x, Fraction):
        return float(x) if kind == 'real' else int(x)
    if kind == 'real':
        return float(x)
    return x


def _import_target(c):
    if c.file.startswith('@lemmas/'):
        mod = importlib.import_module('vf.contracts.lemmas.' + c.file[len('@lemmas/'):-3])
    else:
        mod = importlib.import_module(c.file[:-3].replace('/', '.'))
    parts = c.qual.split('.')
    obj = mod
    for p in parts[:-1]:
        obj = getattr(obj, p)
    last = parts[-1]
    if last.endswith('@setter'):
        prop = obj.__dict__[last[:-7]]
        func = prop.fset
        unbound = True
    else:
        func = getattr(obj, last)
        unbound = False
    return mod, parts, func


_NATIVE_INIT = {'done': False}
_MISSING = object()


def _build_obj(c, clsname, fields_model):
    modpath = c.class_modules.get(clsname)
    if modpath is None:
        modpath = c.file
    m = importlib.import_module(modpath[:-3].replace('/', '.'))
    cls = getattr(m, clsname)
    o = cls.__new__(cls)
    ghosts = {}
    for f, fv in (fields_model or {}).items():
        if f.startswith('__'):
            ghosts[f] = fv
            continue
        fk = c.fields.get(clsname, {}).get(f)
        try:
            object.__setattr__(o, f, py_value(fv, fk))
        except Exception:
            o.__dict__[f] = py_value(fv, fk)
    return o, ghosts


NATIVE_REPLAY_S = 10


def native_check(c, case, model, clause_names):
    """Replay a counter-model on the real code (imported from REPO) and
    evaluate the failing clauses on the concrete pre/post state.
    Returns ('confirmed'|'refuted'|'no-replay', detail)."""
    if c.native is False:
        return 'no-replay', 'contract marks native replay impossible'
    try:
        if REPO not in sys.path:
            sys.path.insert(0, REPO)
        import logging
        logging.disable(logging.CRITICAL)
        if c.native:
            return c.native(c, case, model, clause_names)
        needs_main = any(k in c.fields for k in ('Main', 'TimeThread'))
        if needs_main and not _NATIVE_INIT['done']:
            import sc3
            sc3.init('nrt')
            _NATIVE_INIT['done'] = True
        mod, parts, func = _import_target(c)
        args = []
        objs = {}
        for pname, kind in case.items():
            mv = model.get(pname)
            if kind == 'self' or (isinstance(kind, str) and kind.startswith('ref:')):
                clsname = parts[0] if kind == 'self' else kind[4:]
                o, ghosts = _build_obj(c, clsname, (mv or {}).get('__fields__', {}))
                if ghosts.get('__running') is False or ghosts.get('__mode', 0) == 1:
                    return 'no-replay', 'model needs a real-time / stopped clock state'
                if '__mode' in ghosts or '__running' in ghosts or hasattr(type(o), 'running'):
                    try:
                        o._pure_nrt = True
                    except Exception:
                        pass
                objs[pname] = (o, clsname)
                args.append(o)
            elif kind in ('int', 'real', 'bool'):
                args.append(py_value(mv, kind))
            elif kind == 'none':
                args.append(None)
            elif kind == 'cls':
                continue
            elif kind == 'str':
                sv = synth_str((mv or {}).get('__str__', {}))
                if sv is None:
                    return 'no-replay', 'no concrete string for %r' % (mv,)
                args.append(sv)
            elif kind == 'bytes':
                bm = (mv or {}).get('__bytes__', {})
                n = int(bm.get('len', 0))
                if n > 10 ** 6:
                    return 'no-replay', 'bytes too long'
                bv = (b'\x00' if bm.get('has_nul') and n > 0 else b'a') * n
                if bm.get('has_nul') and n == 0:
                    return 'no-replay', 'inconsistent bytes model'
                args.append(bv)
            else:
                return 'no-replay', 'parameter %s of kind %s' % (pname, kind)
        tt_pre = {}
        restore_tt = None
        if needs_main:
            from sc3.base import main as _m
            if model.get('@current_is_main_tt') is False:
                # the counter-model runs inside a routine: a time thread other than the main one
                try:
                    from sc3.base import stream as _stm
                    other = _stm.TimeThread.__new__(_stm.TimeThread)
                    other._m_seconds = 0.0
                    other.parent = None
                    other._clock = getattr(_m.main.main_tt, '_clock', None)
                    other._rgen = getattr(_m.main.main_tt, '_rgen', None)
                    restore_tt = _m.main.current_tt
                    _m.main.current_tt = other
                except Exception:
                    return 'no-replay', 'cannot build a time thread other than the main one'
            elif model.get('@current_is_main_tt') is True and _m.main.current_tt is not _m.main.main_tt:
                restore_tt = _m.main.current_tt
                _m.main.current_tt = _m.main.main_tt
            tt = _m.main.current_tt
            for f, fv in (model.get('@main.current_tt') or {}).items():
                tt_pre[f] = fv
                if f == '_seconds':
                    try:
                        tt._seconds = float(fv)
                    except AttributeError:
                        tt._m_seconds = float(fv)
            g = model.get('@ghost') or {}
            if g.get('main.current_tt._clock.is_self') and objs:
                try:
                    tt._clock = list(objs.values())[0][0]
                except Exception:
                    pass
        saved_cls = []
        cls_pre = {}
        for key, fv in model.items():
            if key.startswith('@cls:'):
                cname = key[5:]
                cm = importlib.import_module(c.class_modules[cname][:-3].replace('/', '.'))
                klass = getattr(cm, cname)
                cls_pre[cname] = {}
                for f, val in fv.items():
                    fk = c.fields[cname][f]
                    saved_cls.append((klass, f, klass.__dict__.get(f, _MISSING)))
                    type.__setattr__(klass, f, py_value(val, fk))
                    cls_pre[cname][f] = conc(py_value(val, fk), fk)
        exc = None
        result = None
        import signal

        class _ReplayTimeout(BaseException):
            pass

        def _alarm(signum, frame):
            raise _ReplayTimeout()
        timed_out = False
        can_alarm = hasattr(signal, 'SIGALRM')
        try:
            old_handler = signal.signal(signal.SIGALRM, _alarm) if can_alarm else None
        except ValueError:          # not in the main thread of this process
            can_alarm = False
        try:
            if can_alarm:
                signal.setitimer(signal.ITIMER_REAL, NATIVE_REPLAY_S)
            result = func(*args)
        except _ReplayTimeout:
            timed_out = True
        except Exception as e:
            exc = e
        finally:
            if can_alarm:
                signal.setitimer(signal.ITIMER_REAL, 0)
                signal.signal(signal.SIGALRM, old_handler)
            if restore_tt is not None:
                _m.main.current_tt = restore_tt
            cls_post = {}
            for cname in cls_pre:
                cm = importlib.import_module(c.class_modules[cname][:-3].replace('/', '.'))
                klass = getattr(cm, cname)
                cls_post[cname] = {}
                for f in cls_pre[cname]:
                    try:
                        cls_post[cname][f] = conc(getattr(klass, f), c.fields[cname][f])
                    except Exception:
                        pass
            for klass, f, old in reversed(saved_cls):
                if old is _MISSING:
                    try:
                        type.__delattr__(klass, f)
                    except Exception:
                        pass
                else:
                    type.__setattr__(klass, f, old)
        if timed_out:
            # the real code did not return on the counter-model's input: not an observation of the clause
            return 'no-replay', 'the real function did not return within %s s on the counter-model input' % NATIVE_REPLAY_S
        # concrete context
        eng = Engine(REPO, c, S.REGISTRY, case)
        params = {}
        i = 0
        for pname, kind in case.items():
            if kind == 'int':
                params[pname] = vint(int(model[pname]))
            elif kind == 'real':
                params[pname] = vreal(z3.RealVal(str(Fraction(float(model[pname])))))
            elif kind == 'bool':
                params[pname] = vbool(bool(model[pname]))
            elif kind == 'self':
                params[pname] = V('ref', cls=parts[0], oid=pname)
            elif isinstance(kind, str) and kind.startswith('ref:'):
                params[pname] = V('ref', cls=kind[4:], oid=pname)
            elif kind == 'none':
                params[pname] = NONE
            elif kind == 'str':
                a = args[list(case).index(pname)]
                params[pname] = V('str', py=None, extra={
                    'chars': z3.IntVal(len(a)), 'u8': z3.IntVal(len(a.encode('utf-8'))),
                    'has_nul': z3.BoolVal('\x00' in a), 'ascii': z3.BoolVal(a.isascii())})
            elif kind == 'bytes':
                a = args[list(case).index(pname)]
                params[pname] = V('bytes', py=a)
        eng.entry_params = params
        pre_objs, post_objs = {}, {}
        for pname, (o, clsname) in objs.items():
            pre_objs[pname] = {}
            post_objs[pname] = {}
            for f, fk in c.fields.get(clsname, {}).items():
                if fk in ('int', 'real', 'bool'):
                    pv = (model.get(pname) or {}).get('__fields__', {}).get(f, 0)
                    pre_objs[pname][f] = conc(py_value(pv, fk), fk)
                    if hasattr(o, f):
                        try:
                            post_objs[pname][f] = conc(getattr(o, f), fk)
                        except Exception:
                            pass
        for cname in cls_pre:
            pre_objs['cls:' + cname] = cls_pre[cname]
            post_objs['cls:' + cname] = cls_post.get(cname, {})
        if needs_main:
            pre_objs['main'] = {'current_tt': V('ref', cls='TimeThread', oid='main.current_tt')}
            post_objs['main'] = dict(pre_objs['main'])
            pre_objs['main.current_tt'] = {f: conc(float(v), 'real') for f, v in tt_pre.items()
                                           if isinstance(v, (int, float, Fraction))}
            from sc3.base import main as _m
            post_objs['main.current_tt'] = {'_seconds': conc(float(_m.main.current_tt._seconds), 'real')}
        resv = None
        if exc is None:
            resv = conc_auto(result)
        ctx = S.Ctx(eng, params, pre_objs, post_objs, result=resv,
                    exc=(V('exc', cls=type(exc).__name__) if exc else None),
                    concrete=True)
        detail = {'args': [a if isinstance(a, (int, float, bool, type(None))) else
                           {k: v for k, v in getattr(a, '__dict__', {}).items()
                            if isinstance(v, (int, float, bool))} or repr(a)[:80] for a in args],
                  'result': repr(result), 'exception': repr(exc) if exc else None}
        checkable = [n for n in clause_names if n.startswith(('ensures[', 'raises-iff[', 'raises-only-if['))
                     or n == 'no-unexpected-exception']
        if not checkable:
            return 'no-replay', 'obligation kind (loop invariant/variant, frame, exit clause) has no native evaluation'
        if isinstance(exc, AttributeError) and 'has no attribute' in str(exc):
            return 'no-replay', 'replay object incomplete: %r' % (exc,)
        failed = []
        # facts of the counter-model that the concrete state does not carry by itself
        facts = []
        if model.get('@current_is_main_tt') is not None:
            eq = z3.Const('main.current_tt#id', VV.Any) == z3.Const('main.main_tt#id', VV.Any)
            facts.append(eq if model['@current_is_main_tt'] else z3.Not(eq))
        for name, cl in c.ensures:
            if 'ensures[%s]' % name not in clause_names:
                continue
            if exc is not None:
                continue
            try:
                f = cl(ctx)
            except Exception as e:
                return 'no-replay', 'clause not evaluable on concrete state: %r' % (e,)
            if isinstance(f, bool):
                if not f:
                    failed.append('ensures[%s]' % name)
                continue
            s = z3.Solver()
            s.set('timeout', 5000)
            s.add(f)
            s.add(*facts)
            if s.check() == z3.unsat:
                failed.append('ensures[%s]' % name)
        if 'no-unexpected-exception' in clause_names and exc is not None:
            ecls = type(exc).__name__
            if ecls not in c.raises and not any(ecls == a for a in c.allow_unexpected):
                failed.append('no-unexpected-exception')
        for ecls, cond in c.raises.items():
            if 'raises-iff[%s]' % ecls in clause_names and exc is None and cond is not None:
                s = z3.Solver()
                s.add(cond(ctx))
                s.add(*facts)
                if s.check() == z3.sat:
                    failed.append('raises-iff[%s]' % ecls)
            if 'raises-only-if[%s]' % ecls in clause_names and exc is not None \
                    and type(exc).__name__ == ecls and cond is not None:
                s = z3.Solver()
                s.add(cond(ctx))
                s.add(*facts)
                if s.check() == z3.unsat:
                    failed.append('raises-only-if[%s]' % ecls)
        detail['failed_clauses'] = failed
        return ('confirmed' if failed else 'refuted'), detail
    except Exception:
        return 'no-replay', traceback.format_exc()[-800:]


def synth_str(m):
    """a concrete str with the model's char count, utf-8 length and NUL flag"""
    n, u8, nul = int(m.get('chars', 0)), int(m.get('u8', 0)), bool(m.get('has_nul'))
    if n > 10 ** 5 or u8 < n or u8 > 4 * n or (nul and n == 0):
        return None
    chars = []
    if nul:
        chars.append('\x00')
    extra = u8 - n
    for _ in range(n - len(chars)):
        k = min(extra, 3)
        chars.append(['a', '\u00e9', '\u20ac', '\U0001F600'][k])
        extra -= k
    if extra != 0:
        return None
    return ''.join(chars)


def conc(x, kind):
    if kind == 'int':
        return vint(int(x))
    if kind == 'bool':
        return vbool(bool(x))
    return vreal(z3.RealVal(str(Fraction(float(x)))))


def conc_auto(x):
    if x is None:
        return NONE
    if isinstance(x, bool):
        return vbool(x)
    if isinstance(x, int):
        return vint(x)
    if isinstance(x, float):
        if x != x or x in (float('inf'), float('-inf')):
            return V('obj', oid=repr(x))
        return vreal(z3.RealVal(str(Fraction(x))))
    if isinstance(x, tuple):
        return vtuple([conc_auto(i) for i in x])
    if isinstance(x, list):
        return vlist([conc_auto(i) for i in x])
    if isinstance(x, str):
        return vstr(x)
    if isinstance(x, (bytes, bytearray)):
        return V('bytes', py=bytes(x))
    return V('obj', oid=repr(x)[:60])


# ----------------------------------------------------------------------------
def _worker(task):
    key, idx, tier, seed = task
    try:
        return run_case(key, idx, tier, seed)
    except Exception:
        return {'key': key, 'case': str(idx), 'status': 'engine-error',
                'why': traceback.format_exc()[-1500:], 'clauses': []}


def _table_worker(name):
    t0 = time.time()
    try:
        import logging
        logging.disable(logging.CRITICAL)
        if REPO not in sys.path:
            sys.path.insert(0, REPO)
        rows = S.TABLES[name]['rows'](REPO)
        return [(str(a), bool(b), jv(c)) for a, b, c in rows], None, int((time.time() - t0) * 1000)
    except Exception:
        return [], traceback.format_exc()[-1200:], 0


def _proc_main(task, conn):
    try:
        try:
            z3.set_param('memory_max_size', 4000)      # MB; z3 gives up instead of eating the box
        except Exception:
            pass
        conn.send(_worker(task))
    except Exception:
        try:
            conn.send({'key': task[0], 'case': str(task[1]), 'status': 'engine-error',
                       'why': traceback.format_exc()[-1500:], 'clauses': []})
        except Exception:
            pass
    finally:
        conn.close()


def run_tasks(tasks, hard_s, width=16):
    """One process per (function, case) with a HARD wall-clock limit: z3 does
    not always honour its own timeout on quantified queries. A killed case is
    'undecided(timeout)', never a violation."""
    ctx = mp.get_context('fork')
    pending = list(enumerate(tasks))
    running = {}
    results = [None] * len(tasks)
    while pending or running:
        while pending and len(running) < width:
            i, t = pending.pop(0)
            parent, child = ctx.Pipe(duplex=False)
            p = ctx.Process(target=_proc_main, args=(t, child), daemon=True)
            p.start()
            child.close()
            running[i] = (p, parent, time.time(), t)
        done = []
        for i, (p, conn, started, t) in running.items():
            if conn.poll(0):
                try:
                    results[i] = conn.recv()
                except Exception:
                    results[i] = None
                done.append(i)
            elif not p.is_alive():
                done.append(i)
            elif time.time() - started > hard_s:
                p.kill()
                c = S.REGISTRY[t[0]]
                results[i] = {'key': t[0], 'case': c.case_name(c.cases()[t[1]]),
                              'status': 'hard-timeout', 'clauses': [],
                              'why': 'killed after %d s' % hard_s}
                done.append(i)
        for i in done:
            p, conn, started, t = running.pop(i)
            p.join(1)
            if results[i] is None:
                c = S.REGISTRY[t[0]]
                results[i] = {'key': t[0], 'case': c.case_name(c.cases()[t[1]]),
                              'status': 'hard-timeout', 'clauses': [],
                              'why': 'worker died (exit %s)' % p.exitcode}
            try:
                conn.close()
            except Exception:
                pass
        if not done:
            time.sleep(0.02)
    return results


def required_list():
    p = os.path.join(VERIF, 'vf', 'required.json')
    if os.path.exists(p):
        with open(p) as f:
            return json.load(f)
    return {}


def verify(prop, modnames, tier, seed, only=None):
    os.makedirs(os.path.join(VERIF, '.work'), exist_ok=True)
    load_contracts(modnames)
    keys = [k for k, c in S.REGISTRY.items() if prop in c.props]
    if only:
        keys = [k for k in keys if only in k]
    tasks = []
    for k in keys:
        for i, _ in enumerate(S.REGISTRY[k].cases()):
            tasks.append((k, i, tier, seed))
    t0 = time.time()
    results = run_tasks(tasks, hard_s=(150 if tier == 'quick' else 900))
    required = required_list().get(prop, [])
    out = {'obligations': 0, 'discharged': 0, 'undecided': 0, 'results': [],
           'violations': [], 'errors': [], 'functions': [], 'out_of_subset': [],
           'solver_ms_total': 0, 'backends': {}, 'assumptions': [], 'trusted': [],
           'vacuity': {'must_fail_ok': 0, 'must_fail_total': 0}, 'drops': [
               'docstrings, comments, type annotations, logging calls and '
               'exception message texts are dropped when the function body is '
               'read from the working tree; nothing else']}
    funcs = {}
    trusted = set()
    seen_names = set()
    for r in results:
        c = S.REGISTRY[r['key']]
        f = funcs.setdefault(r['key'], {'function': r['key'], 'cases': 0,
                                        'out_of_subset_cases': 0, 'paths': 0,
                                        'inlined': set(), 'assumed_callee_contracts': set(),
                                        'opaque': set()})
        f['cases'] += 1
        f['paths'] += r.get('paths', 0)
        f['inlined'] |= set(r.get('inlined', []))
        f['assumed_callee_contracts'] |= set(r.get('assumed', []))
        f['opaque'] |= set(r.get('opaque', []))
        trusted |= set(r.get('trusted', []))
        trusted |= set(c.trusted)
        if r['status'] == 'out-of-subset':
            f['out_of_subset_cases'] += 1
            out['out_of_subset'].append({'function': r['key'], 'case': r['case'], 'why': r.get('why')})
            continue
        if r['status'] == 'vacuous-precondition':
            out['errors'].append('vacuous precondition: %s [%s]' % (r['key'], r['case']))
            continue
        if r['status'] == 'engine-error':
            out['errors'].append('engine error in %s [%s]: %s' % (r['key'], r['case'], r.get('why')))
            continue
        if r['status'] == 'hard-timeout':
            out['out_of_subset'].append({'function': r['key'], 'case': r['case'],
                                         'why': 'undecided(timeout): ' + str(r.get('why'))})
            f['out_of_subset_cases'] += 1
            out['undecided'] += 1
            continue
        got_mustfail = False
        for cl in r['clauses']:
            name = '%s[%s]::%s' % (r['key'], r['case'], cl['clause'])
            out['solver_ms_total'] += cl['ms']
            for b in cl['backend'].split('+'):
                out['backends'][b] = out['backends'].get(b, 0) + 1
            if cl['kind'] == 'mustfail':
                out['vacuity']['must_fail_total'] += 1
                if cl['result'] == 'sat-as-required':
                    out['vacuity']['must_fail_ok'] += 1
                    got_mustfail = True
                continue
            seen_names.add(name)
            out['obligations'] += 1
            rec = {'name': name, 'kind': cl['kind'], 'result': cl['result'],
                   'backend': cl['backend'], 'ms': cl['ms'], 'paths': cl['paths']}
            if cl['result'] == 'unsat':
                out['discharged'] += 1
            elif cl['result'] == 'unknown':
                out['undecided'] += 1
            else:   # sat
                case = [cs for cs in c.cases() if c.case_name(cs) == r['case']][0]
                model = cl.get('model')
                verdict, detail = ('no-replay', 'no model (cvc5)') if model is None else \
                    native_check(c, case, model, [cl['clause']])
                if verdict == 'confirmed' and not cl.get('model_exact_in_floats'):
                    # the float arguments are not exactly the model's reals:
                    # a native failure could be a rounding artefact
                    verdict = 'no-replay'
                    detail = {'note': 'model not exactly representable in floats', 'native': detail}
                rec['model'] = model
                rec['native'] = verdict
                rec['native_detail'] = detail
                rec['goal'] = cl.get('goal')
                rec['info'] = cl.get('info')
                if verdict == 'confirmed':
                    out['violations'].append({
                        'obligation': name,
                        'what': '%s fails %s: counter-model %s replayed on the real code: %s'
                                % (r['key'], cl['clause'], json.dumps(jv(model)), json.dumps(jv(detail))[:300]),
                        'input': jv(model), 'key': '%s::%s' % (r['key'], cl['clause']),
                        'case': r['case'], 'contract': r['key'], 'clause': cl['clause'],
                        'observed': jv(detail)})
                elif verdict == 'refuted':
                    rec['result'] = 'undecided(spurious)'
                    out['undecided'] += 1
                else:
                    # a frame obligation only exists once the code writes a field
                    # the contract declares and does not allow: it is implicitly
                    # required when the function is otherwise under a discharged contract
                    # (likewise "loop not left early": it only exists once the body can break/return)
                    # (likewise an escaping exception where the contract says that "nothing escapes" IS the clause:
                    #  opts exceptions_stay_inside - the obligation only exists once some path lets one out)
                    cobj_ = S.REGISTRY.get(r['key'])
                    strict_exc = bool(cobj_ is not None and (cobj_.opts or {}).get('exceptions_stay_inside'))
                    implicit = ((cl['kind'] in ('frame', 'not-left-early') or (cl['kind'] == 'no-exc' and strict_exc)) and any(
                        n_.startswith('%s[%s]::' % (r['key'], r['case'])) for n_ in required))
                    if name in required or implicit:
                        out['violations'].append({
                            'obligation': name,
                            'what': '%s: obligation %s, discharged on the unchanged tree, now fails (%s; line %s); '
                                    'no native replay: %s' % (r['key'], cl['clause'], cl.get('goal'), cl.get('line'), str(detail)[:200]),
                            'input': None, 'key': '%s::%s' % (r['key'], cl['clause']),
                            'case': r['case'], 'contract': r['key'], 'clause': cl['clause'],
                            'solver_output': {'model': jv(model), 'goal': cl.get('goal'), 'info': cl.get('info')}})
                    else:
                        rec['result'] = 'undecided(sat,no-replay)'
                        out['undecided'] += 1
            out['results'].append(rec)
        if r['clauses'] and not got_mustfail and r.get('normal_paths', 0) > 0:
            out['errors'].append('vacuity: no reachable normal exit in %s [%s]' % (r['key'], r['case']))
    # exhaustive finite tables (evaluated in a fresh process on the real modules)
    tabs = [t for t in S.TABLES.values() if prop in t['props'] and (not only or only in t['name'])]
    if tabs:
        ctx2 = mp.get_context('fork')
        with ctx2.Pool(min(8, len(tabs))) as pool2:
            tres = pool2.map(_table_worker, [t['name'] for t in tabs], chunksize=1)
        for t, (rows, err, ms) in zip(tabs, tres):
            if err:
                out['errors'].append('table %s: %s' % (t['name'], err))
                continue
            out['solver_ms_total'] += ms
            out['backends']['eval'] = out['backends'].get('eval', 0) + len(rows)
            if not rows:
                out['errors'].append('table %s generated no obligations' % t['name'])
            nshow = 0
            for (oname, ok, detail) in rows:
                name = 'table:%s::%s' % (t['name'], oname)
                seen_names.add(name)
                out['obligations'] += 1
                rec = {'name': name, 'kind': 'table', 'result': 'unsat' if ok else 'sat',
                       'backend': 'eval(finite,exhaustive)', 'ms': 0, 'paths': 1}
                if ok:
                    out['discharged'] += 1
                    if nshow < 3:
                        out['results'].append(rec)
                        nshow += 1
                else:
                    rec['detail'] = detail
                    out['results'].append(rec)
                    out['violations'].append({
                        'obligation': name, 'what': '%s: %s' % (name, detail),
                        'input': jv(detail), 'key': name, 'table': t['name'], 'row': oname,
                        'observed': jv(detail)})
            out.setdefault('tables', []).append({'table': t['name'], 'rows': len(rows),
                                                 'failed': sum(1 for r_ in rows if not r_[1]),
                                                 'reads': list(t['reads'])})
    # lemmas over the contracts
    tmo = QUICK_MS if tier == 'quick' else THOROUGH_MS
    for lname, lm in S.LEMMAS.items():
        if prop not in lm['props'] or (only and only not in lname):
            continue
        for vcname, thunk in lm['vcs']:
            name = 'lemma:%s::%s' % (lname, vcname)
            seen_names.add(name)
            t1 = time.time()
            try:
                assumptions, goal = thunk()
                sv = z3.Solver()
                sv.set('timeout', tmo)
                for a_ in assumptions:
                    sv.add(a_)
                sv.add(z3.Not(goal))
                r_ = sv.check()
                res_ = 'unsat' if r_ == z3.unsat else 'sat' if r_ == z3.sat else 'unknown'
                mdl = str(sv.model())[:300] if r_ == z3.sat else None
            except Exception:
                res_, mdl = 'unknown', traceback.format_exc()[-300:]
            ms = int((time.time() - t1) * 1000)
            out['obligations'] += 1
            out['solver_ms_total'] += ms
            out['backends']['z3'] = out['backends'].get('z3', 0) + 1
            rec = {'name': name, 'kind': 'lemma', 'result': res_, 'backend': 'z3', 'ms': ms,
                   'paths': 1, 'over': list(lm['over'])}
            if res_ == 'unsat':
                out['discharged'] += 1
            elif res_ == 'sat':
                rec['model'] = mdl
                if name in required:
                    out['violations'].append({
                        'obligation': name, 'what': 'lemma %s no longer holds over the contracts: %s' % (name, mdl),
                        'input': None, 'key': name, 'solver_output': mdl})
                else:
                    out['undecided'] += 1
            else:
                out['undecided'] += 1
            out['results'].append(rec)
            out.setdefault('lemmas', []).append({'lemma': lname, 'vc': vcname, 'result': res_, 'over': list(lm['over'])})
    # anti-vacuity: required obligations that vanished
    missing = [n for n in required if n not in seen_names]
    if missing:
        oos = {(o['function'], o['case']) for o in out['out_of_subset']}
        hard = []
        for n in missing:
            fn = n.split('[')[0]
            cs = n[len(fn) + 1:].split(']::')[0]
            if (fn, cs) in oos:
                continue     # degraded to bounded, reported, no alarm
            hard.append(n)
        if hard:
            out['errors'].append('required obligations not generated: %s' % hard[:5])
    for f in funcs.values():
        f['inlined'] = sorted(f['inlined'])
        f['assumed_callee_contracts'] = sorted(f['assumed_callee_contracts'])
        f['opaque'] = sorted(f['opaque'])
        out['functions'].append(f)
    out['trusted'] = sorted(trusted)
    out['assumptions'] = [
        'pyvc semantics (DESIGN §3.3): int is Z; float is R (no rounding/NaN); '
        'left-to-right evaluation; distinct reference parameters do not alias',
        'callee contracts listed under assumed_callee_contracts are assumed at '
        'call sites and proved separately under their own names',
    ]
    out['wall_s'] = round(time.time() - t0, 2)
    if not tasks and not out['results']:
        out['errors'].append('no contracts registered for %s' % prop)
    return out


def jv(x):
    if isinstance(x, Fraction):
        return float(x) if x.denominator != 1 else int(x)
    if isinstance(x, dict):
        return {str(k): jv(v) for k, v in x.items()}
    if isinstance(x, (list, tuple)):
        return [jv(v) for v in x]
    if isinstance(x, (str, int, float, bool)) or x is None:
        return x
    return repr(x)


def replay(case):
    """Replay of a recorded pyvc violation: re-run that obligation on the
    current tree. exit 1 if it still fails."""
    mods = case.get('modules') or []
    from .. import props
    prop = case.get('property')
    mods = props.PROPS[prop]['contracts']
    load_contracts(mods)
    if case.get('table'):
        rows, err, _ = _table_worker(case['table'])
        for (oname, ok, detail) in rows:
            if oname == case.get('row') and not ok:
                print('REPRODUCED', case['table'], oname, json.dumps(detail)[:300])
                return 1
        print('not reproduced')
        return 0
    key = case.get('contract')
    c = S.REGISTRY[key]
    idx = [i for i, cs in enumerate(c.cases()) if c.case_name(cs) == case.get('case')]
    r = run_case(key, idx[0], 'quick', 0)
    for cl in r['clauses']:
        if cl['clause'] == case.get('clause') and cl['result'] == 'sat':
            model = cl.get('model')
            verdict, detail = native_check(c, c.cases()[idx[0]], model, [cl['clause']]) if model else ('no-replay', '')
            print('REPRODUCED', key, cl['clause'], verdict, json.dumps(jv(detail))[:400])
            return 1
    print('not reproduced')
    return 0
